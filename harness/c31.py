"""C31 — Poisson noise is valid, independent and reproducible (abtem/noise.py, BaseMeasurements.poisson_noise)."""
import sys
from contextlib import contextmanager
from fractions import Fraction

import numpy as np

from common import (Ctx, LeanDriver, Property, dyadic, err_kind, list_s, listlist_s, rat_s, run_property)

INT32_MAX = 2147483647
# boundary seeds: None (unseeded) versus the legitimate seed 0 (falsy in Python), 1, the int32 limits and a seed beyond 32 bits
BOUNDARY_SEEDS = [None, 0, 1, 2**31 - 2, 2**31 - 1, 2**32 + 5]


def pick_seed(rng, hi):
    r = rng.random()
    if r < 0.2:
        return None
    if r < 0.45:
        return 0
    if r < 0.6:
        return rng.choice(BOUNDARY_SEEDS[2:])
    return rng.randint(1, hi)


# ----------------------------------------------------------------------------- tagging RNG (mirrors Noise.tagK in Lean)
class _State:
    entropy = 0


def derive(seed, key=()):
    if seed is None:
        e = _State.entropy
        _State.entropy += 1
        return 1000003 + e
    h = 0
    for k in key:
        h = h * 31 + int(k) + 1
    return (int(seed) * 7919 + 104729 + h) % INT32_MAX


class FakeSeedSequence:
    """np.random.SeedSequence(entropy, spawn_key=...) as a plain record"""

    def __init__(self, entropy=None, spawn_key=()):
        self.entropy, self.spawn_key = entropy, tuple(spawn_key)


class FakeGenerator:
    def __init__(self, seed=None):
        if isinstance(seed, FakeSeedSequence):
            self.seed, self.key = seed.entropy, seed.spawn_key
        else:
            self.seed, self.key = seed, ()

    def integers(self, *a, **k):
        return derive(self.seed, self.key)


class FakeRandomState:
    def __init__(self, seed=None):
        self.k = int(seed)

    def poisson(self, lam):
        lam = np.asarray(lam)
        idx = np.arange(lam.size, dtype=np.int64).reshape(lam.shape)
        return (np.floor(lam).astype(np.int64) + (self.k + 3 * idx) % 7)


class FakeRandom:
    default_rng = staticmethod(lambda seed=None: FakeGenerator(seed))
    RandomState = staticmethod(lambda seed=None: FakeRandomState(seed))
    SeedSequence = FakeSeedSequence


class NumpyProxy:
    random = FakeRandom()

    def __getattr__(self, name):
        return getattr(np, name)


def fake_seed_list(seed, num):
    return [(0 if seed is None else int(seed)) * 31 + 500 + 17 * i for i in range(num)]


@contextmanager
def tagging_rng():
    """replace the RNG used by abtem.noise by the tagging kernels (inside this process only)"""
    import abtem.noise as noise
    from abtem.inelastic.phonons import validate_seeds as real_validate

    def fake_validate(seeds, num_seeds=None):
        if (seeds is None or isinstance(seeds, (int, np.integer))) and num_seeds is not None:
            return tuple(fake_seed_list(seeds, num_seeds))
        return real_validate(seeds, num_seeds)

    old_np, old_v = noise.np, noise.validate_seeds
    noise.np, noise.validate_seeds = NumpyProxy(), fake_validate
    _State.entropy = 0
    try:
        yield
    finally:
        noise.np, noise.validate_seeds = old_np, old_v


# ----------------------------------------------------------------------------- building and running cases
# measurement classes by number of base axes; the sampling values are dyadic so that `_area_per_pixel * dose_per_area` is exact
CLASSES = {"Images": 2, "DiffractionPatterns": 2, "PolarMeasurements": 2, "RealSpaceLineProfiles": 1, "ReciprocalSpaceLineProfiles": 1,
           "MeasurementsEnsemble": 0}
SCAN_SAMPLING = 0.5


def measurement(c, arr, lazy, two_scan_axes=False):
    import dask.array as da
    import abtem.measurements as M
    from abtem.core.axes import ScanAxis

    cls = c.get("cls", "Images")
    ens = [ScanAxis(sampling=SCAN_SAMPLING)]
    lead = ()
    if two_scan_axes:  # (1, n, ...) array with two scan axes, as dose_per_area of diffraction patterns / polar measurements requires
        arr = arr[None]
        lead = ((1,),)
        ens = [ScanAxis(sampling=SCAN_SAMPLING), ScanAxis(sampling=SCAN_SAMPLING)]
    a = da.from_array(arr, chunks=lead + (tuple(c["chunks"]),) + tuple((k,) for k in arr.shape[len(lead) + 1:])) if lazy else arr
    if cls == "Images":
        return M.Images(a, sampling=0.25, ensemble_axes_metadata=ens)
    if cls == "DiffractionPatterns":
        return M.DiffractionPatterns(a, sampling=0.0625, ensemble_axes_metadata=ens, metadata={"energy": 100e3})
    if cls == "PolarMeasurements":
        return M.PolarMeasurements(a, radial_sampling=1.0, azimuthal_sampling=0.5, radial_offset=0.0, azimuthal_offset=0.0, ensemble_axes_metadata=ens)
    if cls == "RealSpaceLineProfiles":
        return M.RealSpaceLineProfiles(a, sampling=0.25, ensemble_axes_metadata=ens)
    if cls == "ReciprocalSpaceLineProfiles":
        return M.ReciprocalSpaceLineProfiles(a, sampling=0.0625, ensemble_axes_metadata=ens)
    if cls == "MeasurementsEnsemble":
        return M.MeasurementsEnsemble(a, ensemble_axes_metadata=ens)
    raise ValueError(cls)


def indexed_patterns(lazy):
    import dask.array as da
    import abtem.measurements as M
    from abtem.core.axes import ScanAxis

    a = np.full((3, 4), 50.0, np.float32)
    a = da.from_array(a, chunks=(1, 4)) if lazy else a
    return M.IndexedDiffractionPatterns(a, miller_indices=np.array([[0, 0, 0], [1, 0, 0], [0, 1, 0], [1, 1, 0]]), reciprocal_lattice_vectors=np.eye(3),
                                        ensemble_axes_metadata=[ScanAxis(sampling=.5)], metadata={"energy": 1e5})


def area_per_pixel(c):
    """independent definition of the area a dose per area refers to: the pixel area of an image, the scan-step area of a 4D data set"""
    cls = c.get("cls", "Images")
    if cls == "Images":
        return 0.25 * 0.25
    if cls in ("DiffractionPatterns", "PolarMeasurements"):
        return SCAN_SAMPLING * SCAN_SAMPLING
    return None


def run_noise(c, arr, lazy):
    """returns ('ok', array, chunks) or ('err', kind)"""
    import abtem
    import dask

    dose = c["dose"] if isinstance(c["dose"], list) else float(c["dose"])
    try:
        with abtem.config.set({"dask.chunk-size": c.get("chunk_size", "128 MB")}), dask.config.set(scheduler="synchronous"):
            m = measurement(c, arr, lazy, two_scan_axes=c.get("two_scan_axes", False))
            if c.get("per_area"):
                r = m.poisson_noise(dose_per_area=dose, samples=c["samples"], seed=c["seed"])
            else:
                r = m.poisson_noise(total_dose=dose, samples=c["samples"], seed=c["seed"])
            chunks = None
            if lazy:
                chunks = [list(x) for x in r.array.chunks]
                r = r.compute()
            return ["ok", np.asarray(r.array), chunks, r]
    except Exception as e:  # noqa
        return ["err", err_kind(e)]


def predict_lazy(c, arr, chunks):
    """Independent prediction of a seeded lazy result with the real RNG: every block is the eager transform of that block's
    sub-array, dose block and seed block, drawn from SeedSequence(seed of the block, spawn_key = block position).
    Returns None when the seeds are not known to the caller (seed=None)."""
    from abtem.inelastic.phonons import validate_seeds

    if c["seed"] is None or c.get("two_scan_axes"):
        return None
    scale = area_per_pixel(c) if c.get("per_area") else 1.0
    c = dict(c, dose=[d * scale for d in c["dose"]] if isinstance(c["dose"], list) else c["dose"] * scale)
    doses = [np.float32(d) for d in c["dose"]] if isinstance(c["dose"], list) else None
    seeds = [int(v) for v in validate_seeds(c["seed"], c["samples"])] if c["samples"] > 1 else None
    ch = [list(x) for x in chunks]
    cd = ch.pop(0) if doses is not None else [1]
    cs = ch.pop(0) if seeds is not None else [1]
    ci = ch.pop(0)
    n, base = arr.shape[0], arr.shape[1:]
    out = np.zeros(((len(doses),) if doses is not None else ()) + ((len(seeds),) if seeds is not None else ()) + (n,) + base, dtype=np.float32)
    d0 = 0
    for a, nd in enumerate(cd):
        s0 = 0
        for b, ns in enumerate(cs):
            i0 = 0
            for k, ni in enumerate(ci):
                bid = ([a] if doses is not None else []) + ([b] if seeds is not None else []) + [k] + [0] * len(base)
                spawn = tuple(bid) if any(bid) else ()
                blk_seed = sum(seeds[s0:s0 + ns]) if seeds is not None else c["seed"]
                rs = np.random.RandomState(int(np.random.default_rng(np.random.SeedSequence(blk_seed, spawn_key=spawn)).integers(np.iinfo(np.int32).max)))
                sub = arr[i0:i0 + ni].astype(np.float32)
                if seeds is not None:
                    sub = np.tile(sub[None], (ns,) + (1,) * sub.ndim)
                if doses is not None:
                    sub = sub[None] * np.array(doses[d0:d0 + nd], dtype=np.float32).reshape((-1,) + (1,) * sub.ndim)
                else:
                    sub = sub * np.float32(c["dose"])
                res = rs.poisson(np.clip(sub, 0.0, None)).astype(np.float32)
                idx = ((slice(d0, d0 + nd),) if doses is not None else ()) + ((slice(s0, s0 + ns),) if seeds is not None else ()) + (slice(i0, i0 + ni),)
                out[idx] = res
                i0 += ni
            s0 += ns
        d0 += nd
    return out


# dose_per_area: images have a pixel area; diffraction patterns / polar measurements need two scan axes (documented ValueError with
# fewer); line profiles and bare ensembles have no area (RuntimeError)
PER_AREA_ERROR = {"DiffractionPatterns": "value_error", "PolarMeasurements": "value_error", "RealSpaceLineProfiles": "runtime_error",
                  "ReciprocalSpaceLineProfiles": "runtime_error", "MeasurementsEnsemble": "runtime_error"}


def case_array(c):
    return np.array(c["values"], dtype=np.float32).reshape(c["shape"])


def gen_case(ctx: Ctx):
    rng = ctx.rng
    cls = rng.choice(list(CLASSES))
    n = rng.randint(1, 5)
    base = [rng.randint(1, 3) for _ in range(CLASSES[cls])]
    lazy = rng.random() < 0.7
    cuts = sorted(rng.sample(range(1, n), rng.randint(0, n - 1))) if n > 1 else []
    chunks = [b - a for a, b in zip([0] + cuts, cuts + [n])]
    c = dict(shape=[n] + base, values=[dyadic(rng, -1, 6, 2) for _ in range(n * int(np.prod(base)))], lazy=lazy, chunks=chunks if lazy else [n],
             dose=rng.choice([0.5, 1.0, 2.0, 4.0, 0.0, [1.0, 2.0], [0.5, 1.0, 4.0], [2.0], [0.0, 1.0]]),
             seed=pick_seed(rng, 60), samples=rng.choice([1, 1, 2, 3]),
             chunk_size=rng.choice(["128 MB", "128 MB", "64 B", "160 B"]) if lazy else "128 MB", cls=cls)
    # a dose per area: total dose = pixel area x dose for images; the other classes need two scan axes (one here -> ValueError / NotImplemented)
    c["per_area"] = rng.random() < 0.25
    return c


def boundary_cases():
    """deterministic grid: every boundary seed x samples in {1, 2} x eager / lazy (one block, two blocks)"""
    out = []
    for seed in BOUNDARY_SEEDS:
        for samples in (1, 2):
            for lazy, chunks in ((False, [2]), (True, [2]), (True, [1, 1])):
                for cls, shape in (("Images", [2, 1, 2]), ("MeasurementsEnsemble", [2]), ("RealSpaceLineProfiles", [2, 2])):
                    vals = [0.5, 1.0, 3.0, -1.0][:int(np.prod(shape))]
                    out.append(dict(shape=shape, values=vals, lazy=lazy, chunks=chunks, dose=2.0, seed=seed, samples=samples,
                                    chunk_size="128 MB", cls=cls))
    return out


def model_line(c, chunks):
    """Lean request for case c; `chunks` = the chunks of the lazy result (dose?, samples?, items, h, w) or None for eager"""
    if c["samples"] > 1:
        sd = "d:" + list_s(fake_seed_list(c["seed"], c["samples"]))
    else:
        sd = "none" if c["seed"] is None else f"s:{c['seed']}"
    scale = Fraction(area_per_pixel(c)) if c.get("per_area") else Fraction(1)  # only reached for classes with a pixel area (Images)
    ds = "d:" + list_s([Fraction(d) * scale for d in c["dose"]], rat_s) if isinstance(c["dose"], list) else "s:" + rat_s(Fraction(c["dose"]) * scale)
    n, pix = c["shape"][0], int(np.prod(c["shape"][1:]))
    items = [c["values"][i * pix:(i + 1) * pix] for i in range(n)]
    if chunks is None:
        cd, cs, ci, mode = [len(c["dose"])] if isinstance(c["dose"], list) else [1], [c["samples"]], [n], "eager"
    else:
        ch = list(chunks)
        cd = ch.pop(0) if isinstance(c["dose"], list) else [1]
        cs = ch.pop(0) if c["samples"] > 1 else [1]
        ci, mode = ch.pop(0), "lazy"
    return f"noiseon {mode} {c['cls']} {sd} {ds} {list_s(cd)} {list_s(cs)} {list_s(ci)} {listlist_s(items, rat_s)}"


class C31(Property):
    id = "C31"
    props_file = "AbtemVerif/Props/C31.lean"
    drive_file = "AbtemVerif/Drive/C31.lean"
    trusted = [
        "RNG: numpy default_rng / RandomState are deterministic functions of their seed; RandomState.poisson returns non-negative "
        "integers with the requested mean, independently per element (uninterpreted `Kernels` in the theorems; validated with "
        "fixed-seed statistics in the oracle, labelled validation)",
        "DASK: blockwise evaluation calls the block function once per block with the partitioned transform arguments; schedulers do not "
        "share RNG state between tasks",
        "hand model `Noise.calcBlock/eager/lazyEval` of the tiling, dose scaling, clipping, seed derivation and block assembly "
        "(tied by exact correspondence with tagging RNG kernels substituted for numpy.random inside the harness process; fingerprints reported)",
    ]
    assumptions = ["one ensemble axis on the measurement, base axes in one chunk (abTEM never chunks base axes)",
                   "unseeded multi-block lazy runs are not compared symbol for symbol (block evaluation order decides which entropy a block sees)"]
    rule = ("deterministic grid over the boundary seeds (None, 0, 1, 2^31-2, 2^31-1, 2^32+5) x samples x eager/lazy, plus "
            "random measurements (1-5 ensemble items, base 1-3 x 1-3, dyadic values incl. negatives), scalar or list doses, seed None/0/boundary/int, "
            "samples 1-3, eager or lazy with random item chunks and chunk-size configs that split the dose/sample axes; distinct = distinct case JSON")

    # ------------------------------------------------------------------ correspondence (tagging RNG)
    def correspondence(self, ctx: Ctx):
        drv = LeanDriver(self.drive_file)
        cases, lines, impls = [], [], []
        with tagging_rng():
            for c in boundary_cases() + [gen_case(ctx) for _ in range(ctx.n(250, 5000))]:
                _State.entropy = 0
                got = run_noise(c, case_array(c), c["lazy"])
                if c.get("per_area") and c["cls"] in PER_AREA_ERROR:
                    ctx.agree("dose_per_area on a measurement without (enough) area information is rejected", c,
                              ["err", PER_AREA_ERROR[c["cls"]]], got[:2] if got[0] == "err" else ["ok"])
                    ctx.count(f"per-area-rejected:{c['cls']}")
                    continue
                chunks = got[2] if got[0] == "ok" else None
                refusal = False
                if got[0] == "err" and c["lazy"]:
                    # chunks of the graph are needed for the model even when compute() raises: rebuild lazily without computing
                    import abtem

                    with abtem.config.set({"dask.chunk-size": c["chunk_size"]}):
                        try:
                            r = measurement(c, case_array(c), True).poisson_noise(
                                total_dose=c["dose"] if isinstance(c["dose"], list) else float(c["dose"]), samples=c["samples"], seed=c["seed"])
                            chunks = [list(x) for x in r.array.chunks]
                        except Exception as e:  # noqa
                            chunks = None
                            refusal = "cannot be automatically chunked" in str(e)
                if c["lazy"] and chunks is None:
                    if refusal:  # abTEM's own, explicit refusal: the fixed array chunks exceed the (deliberately tiny) chunk-size limit
                        ctx.count("skipped:chunk-size-limit-below-one-block")
                    else:
                        ctx.agree("lazy noise graph can be built", c, "ok", f"err {got[1]}")
                    continue
                nblocks = 1 if not c["lazy"] else int(np.prod([len(x) for x in chunks]))
                if c["seed"] is None and c["samples"] == 1 and nblocks > 1:
                    ctx.count("skipped:unseeded-multiblock")
                    continue
                cases.append(c); impls.append(got); lines.append(model_line(c, chunks if c["lazy"] else None))
        bad = ["noise eager s:1 s:1 1 1 1 2", "noise maybe s:1 s:1 1 1 1 2 1", "noise eager x:1 s:1 1 1 1 2 1", "noise", "class Foo"]
        classes = list(CLASSES) + ["IndexedDiffractionPatterns"]
        outs = drv.query(lines + bad + [f"class {k}" for k in classes])
        for l, o in zip(bad, outs[len(lines):]):
            ctx.agree("driver rejects malformed request", l, o, "bad-op")
        for k, o in zip(classes, outs[len(lines) + len(bad):]):
            # class table of the model vs the real classes: number of base axes, and whether a transform result can be rebuilt
            m = indexed_patterns(False) if k == "IndexedDiffractionPatterns" else measurement(dict(cls=k, chunks=[2]), np.ones([2] + [2] * CLASSES[k], dtype=np.float32), False)
            try:
                m.poisson_noise(total_dose=1.0, seed=1)
                works = True
            except TypeError:
                works = False
            ctx.agree("measurement class table (base axes, rebuildable)", k, o.split()[1:], [str(len(m.base_shape)), "T" if works else "F"])
        for c, got, out in zip(cases, impls, outs):
            t = out.split()
            if t[0] == "err":
                model = ["err", t[1]]
            else:
                dims = [int(v) for v in t[1:5]]
                exp_shape = ([dims[0]] if isinstance(c["dose"], list) else []) + ([dims[1]] if c["samples"] > 1 else []) + [dims[2]] + c["shape"][1:]
                model = ["ok", exp_shape, [int(v) for v in t[5].split(",")] if t[5] != "_" else []]
            impl = ["err", got[1]] if got[0] == "err" else ["ok", list(got[1].shape), [int(v) for v in got[1].reshape(-1)]]
            if model[0] == "ok" and int(np.prod(model[1])) != len(model[2]):
                model = ["ok-but-inconsistent-shape"] + model[1:]
            ctx.agree("NoiseTransform (eager / lazy blockwise) with tagging RNG", c, model, impl)
            ctx.count(f"class:{c['cls']}:{'lazy' if c['lazy'] else 'eager'}{':per-area' if c.get('per_area') else ''}")
            ctx.count(f"{'lazy' if c['lazy'] else 'eager'}:{impl[0] if impl[0] == 'ok' else impl[1]}:seed={'int' if c['seed'] is not None else 'none'}:"
                      f"samples={c['samples']}:dose={'list' if isinstance(c['dose'], list) else 'scalar'}")
            ctx.case(c, nontrivial=True)
        ctx.traces += len(cases)

    # ------------------------------------------------------------------ conformance (real RNG)
    def oracle(self, ctx: Ctx, c):
        kind = c["kind"]
        if kind == "indexed":
            import abtem.measurements as M

            for lazy in (False, True):
                try:
                    r = indexed_patterns(lazy).poisson_noise(total_dose=1.0, seed=5)
                    r = r.compute() if lazy else r
                    a = np.asarray(r.array)
                    if a.min() < 0 or not np.array_equal(a, np.round(a)):
                        ctx.violation("indexed-diffraction-patterns-counts-invalid", c, {"lazy": lazy})
                except Exception as e:  # noqa
                    # the recorded defect, re-derived independently: the class cannot rebuild itself from (array, axes, metadata)
                    stub = False
                    try:
                        M.IndexedDiffractionPatterns.from_array_and_metadata(np.zeros((1, 4)), [], {})
                    except TypeError:
                        stub = True
                    except Exception:  # noqa
                        stub = False
                    if err_kind(e) == "type_error" and stub and "from_array_and_metadata" in str(e):
                        ctx.violation("indexed-diffraction-patterns-cannot-be-rebuilt-by-transforms", c, {"lazy": lazy, "raised": str(e)[:120]})
                    else:
                        ctx.violation("indexed-diffraction-patterns-noise-raises", c, {"lazy": lazy, "raised": f"{type(e).__name__}: {e}"[:160]})
            return
        if kind == "dose-args":
            m = measurement(c, np.ones(c["shape"], dtype=np.float32), False)
            for kw, want in (({"dose_per_area": 4.0, "total_dose": 4.0}, "runtime_error"), ({}, None)):
                try:
                    m.poisson_noise(seed=1, **kw)
                    ctx.violation("poisson-noise-accepts-ambiguous-or-missing-dose", c, {"arguments": kw})
                except Exception as e:  # noqa
                    few_axes = c["cls"] in ("DiffractionPatterns", "PolarMeasurements")  # their two-scan-axes guard (ValueError) comes first
                    if want is not None and err_kind(e) != want and not (few_axes and err_kind(e) == "value_error"):
                        ctx.violation("poisson-noise-ambiguous-dose-wrong-error", c, {"arguments": kw, "raised": err_kind(e)})
            return
        n, pix = c["shape"][0], int(np.prod(c["shape"][1:]))
        arr = np.full(c["shape"], c["signal"], dtype=np.float32)
        if c.get("negative"):
            arr.reshape(n, -1)[:, 0] = -1.0
        base = dict(c)
        e = run_noise(base, arr, False)
        if e[0] != "ok":
            seq = c.get("per_area") and isinstance(c["dose"], list)
            ctx.violation("dose-per-area-sequence-raises" if seq and e[1] == "type_error" else "eager-noise-raises", c, {"raised": e[1]}); return
        ea = e[1]
        if kind == "valid":
            if ea.min() < 0 or not np.array_equal(ea, np.round(ea)):
                ctx.violation("counts-not-nonnegative-integers", c, {"min": float(ea.min())})
            scale = area_per_pixel(c) if c.get("per_area") else 1.0  # independent definition of the area a dose per area refers to
            expect = np.clip(arr.astype(np.float64), 0, None) * scale * (np.array(c["dose"], dtype=np.float64).reshape((-1,) + (1,) * arr.ndim) if isinstance(c["dose"], list) else c["dose"])
            samples_axis = 1 if c["samples"] > 1 else 0
            obs = ea.astype(np.float64).reshape(((len(c["dose"]),) if isinstance(c["dose"], list) else (1,)) + (c["samples"],) + arr.shape)
            expb = np.broadcast_to(expect.reshape((-1, 1) + arr.shape) if isinstance(c["dose"], list) else expect[None, None], obs.shape)
            for d in range(obs.shape[0]):
                mu = expb[d].mean(); N = obs[d].size
                if mu == 0 and np.abs(obs[d]).max() != 0:
                    ctx.violation("zero-rate-gives-counts", c, {"dose_index": d, "max_count": float(np.abs(obs[d]).max())})
                if mu > 0 and not (abs(obs[d].mean() - mu) <= 6.0 * np.sqrt(mu / N)):
                    ctx.violation("mean-count-not-dose-times-signal", c, {"dose_index": d, "observed_mean": float(obs[d].mean()), "expected": float(mu)})
            neg = obs.reshape(obs.shape[:3] + (-1,))[..., 0]
            if c.get("negative") and np.abs(neg).max() != 0:
                # a negative intensity is clipped to rate 0, and Poisson(0) is 0 with certainty
                ctx.violation("negative-intensity-not-clipped-to-zero-counts", c, {"counts_at_negative_pixels": neg.reshape(-1)[:8].tolist()})
            e2 = run_noise(base, arr, False)
            if c["seed"] is not None and not np.array_equal(e2[1], ea):
                ctx.violation("eager-not-reproducible", c, {})
            # distinct members / samples must not share their noise
            flat = obs.reshape(-1, pix) if pix >= 16 else None
            if flat is not None and len(flat) > 1 and float(expect.max()) >= 1 and c["signal"] * (c["dose"][0] if isinstance(c["dose"], list) else c["dose"]) >= 1:
                same = [(i, j) for i in range(len(flat)) for j in range(i + 1, len(flat)) if np.array_equal(flat[i], flat[j])]
                if same:
                    ctx.violation("eager-members-identical-noise", c, {"pairs": same[:5]})
        elif kind == "lazy":
            l = run_noise(base, arr, True)
            if l[0] != "ok":
                split = c["samples"] > 1 and c.get("chunk_size", "128 MB") != "128 MB"
                ctx.violation("lazy-chunked-sample-axis-raises" if split and l[1] == "assertion_error" else "lazy-noise-raises", c, {"raised": l[1]}); return
            la = l[1]
            nblocks = int(np.prod([len(x) for x in l[2]]))
            if la.shape != ea.shape or la.min() < 0 or not np.array_equal(la, np.round(la)):
                ctx.violation("lazy-counts-invalid", c, {"shape": list(la.shape), "eager_shape": list(ea.shape)}); return
            l2 = run_noise(base, arr, True)
            if c["seed"] is not None:
                if l2[0] != "ok" or not np.array_equal(l2[1], la):
                    ctx.violation("lazy-not-reproducible", c, {}); return
                # the lazy result must be exactly: each block = eager transform of that block with its own spawned stream
                pred = predict_lazy(c, arr, l[2])
                ctx.count("lazy-predicted-per-block" if pred is not None else "lazy-not-predictable")
                if pred is not None and not np.array_equal(la, pred):
                    ctx.violation("lazy-block-is-not-the-eager-transform-of-that-block-with-its-spawned-stream", c,
                                  {"chunks": l[2], "differing_entries": int((la != pred).sum())}); return
                if not np.array_equal(la, ea):
                    ctx.violation("seeded-lazy-single-block-differs-from-eager" if nblocks == 1 else "seeded-lazy-multiblock-differs-from-eager",
                                  c, {"blocks": nblocks, "chunks": l[2], "differing_entries": int((la != ea).sum())})
            # independence across array blocks: blocks with identical signal must not receive identical noise
            item_axis = la.ndim - len(c["shape"])
            ch = l[2][item_axis]
            if len(ch) > 1 and len(set(ch)) == 1 and pix * ch[0] >= 16 and c["signal"] * (c["dose"][0] if isinstance(c["dose"], list) else c["dose"]) >= 1:
                blocks = np.split(la, np.cumsum(ch)[:-1], axis=item_axis)
                if all(np.array_equal(blocks[0], b) for b in blocks[1:]):
                    # a transform is seeded when the user gave a seed or when a sample axis exists (its seeds are drawn once, at construction)
                    seeded = c["seed"] is not None or c["samples"] > 1
                    ctx.violation("seeded-lazy-blocks-identical-noise" if seeded else "unseeded-lazy-blocks-identical-noise", c, {"chunks": ch})

    def gen(self, ctx: Ctx):
        rng = ctx.rng
        out = []
        for seed in BOUNDARY_SEEDS[1:]:  # every boundary seed (0 included) must be reproducible, eagerly and lazily, with and without a sample axis
            for samples in (1, 2):
                out.append(dict(kind="valid", shape=[2, 8, 8], signal=1.0, dose=16.0, seed=seed, samples=samples, negative=False, cls="Images"))
                out.append(dict(kind="lazy", shape=[2, 8, 8], signal=1.0, dose=16.0, seed=seed, samples=samples, chunks=[2], chunk_size="128 MB",
                                cls="Images"))
        out.append(dict(kind="indexed"))
        for cls, bd in CLASSES.items():  # every measurement class, eager and lazy (one and two blocks), and the dose-argument errors
            shape = [4] + {0: [], 1: [64], 2: [8, 8]}[bd]
            out.append(dict(kind="dose-args", shape=shape, cls=cls))
            out.append(dict(kind="valid", shape=shape, signal=2.0, dose=16.0, seed=rng.randint(0, 99), samples=rng.choice([1, 2]), negative=bd > 0, cls=cls))
            for chunks in ([4], [2, 2]):
                out.append(dict(kind="lazy", shape=shape, signal=2.0, dose=16.0, seed=rng.randint(0, 99), samples=1, chunks=chunks, chunk_size="128 MB", cls=cls))
        # dose per area: pixel area of an image, scan-step area of 4D data with two scan axes
        # a sequence of doses per area (documented: "a single value or a sequence of values"): one Dose-axis entry per value
        out.append(dict(kind="valid", shape=[4, 8, 8], signal=3.0, dose=[64.0, 256.0], per_area=True, seed=rng.randint(0, 99), samples=1, negative=False,
                        cls="Images"))
        for cls, two in (("Images", False), ("Images", True), ("DiffractionPatterns", True), ("PolarMeasurements", True)):
            for lazy_chunks in (None, [2, 2]):
                out.append(dict(kind="valid" if lazy_chunks is None else "lazy", shape=[4, 8, 8], signal=3.0, dose=rng.choice([64.0, 256.0]), per_area=True,
                                two_scan_axes=two, seed=rng.randint(0, 99), samples=1, negative=False, cls=cls, chunks=lazy_chunks or [4], chunk_size="128 MB"))
        for _ in range(ctx.n(30, 600)):
            out.append(dict(kind="valid", shape=[rng.randint(1, 4), rng.choice([8, 16]), rng.choice([8, 16])], signal=rng.choice([0.25, 1.0, 3.0]),
                            dose=rng.choice([4.0, 16.0, 50.0, 0.0, [4.0, 32.0], [0.0, 16.0]]), seed=pick_seed(rng, 10**6),
                            samples=rng.choice([1, 1, 2, 3]), negative=rng.random() < 0.3, cls=rng.choice(["Images", "DiffractionPatterns"])))
        for _ in range(ctx.n(40, 800)):
            n = rng.choice([1, 2, 4, 4, 3])
            k = rng.choice([d for d in (1, 2, 4) if n % d == 0])
            chunks = [n // k] * k if rng.random() < 0.8 or n < 3 else [1, n - 1]
            out.append(dict(kind="lazy", shape=[n, 8, 8], signal=rng.choice([1.0, 3.0]), dose=rng.choice([4.0, 16.0, [4.0, 32.0]]),
                            seed=pick_seed(rng, 10**6), samples=rng.choice([1, 1, 2, 3]),
                            chunks=chunks, chunk_size=rng.choice(["128 MB", "128 MB", "600 B"]), cls=rng.choice(["Images", "DiffractionPatterns"])))
        return out

    def conformance(self, ctx: Ctx):
        for c in self.gen(ctx):
            self.oracle(ctx, c)
            ctx.case(c, nontrivial=c["kind"] != "indexed")

    def replay(self, ctx: Ctx, case):
        self.oracle(ctx, case)


if __name__ == "__main__":
    sys.exit(run_property(C31()))
