"""C09 — the independent-atom potential is additive and slicing conserves it.

Correspondence: the exact-rational model (`Model/Slicing.lean` over the generated expressions of `Gen/Slicing.lean`) against
`_validate_slice_thickness`, `slice_limits`, `SliceIndexedAtoms._slice_index`, `SlicedAtoms.get_atoms_in_slices` and the
wrap / z-snap of `_FieldBuilderFromAtoms._prepare_atoms`, on dyadic inputs (exactly representable, so float64 and ℚ agree)
including positions exactly on slice boundaries and inside the 1e-12 / 1e-10 windows.
Conformance (implementation only): every atom in exactly one slice, boundary atoms in the upper slice, thicknesses sum to the
cell height, potential(A ∪ B) = potential(A) + potential(B), projected potential independent of the slicing (infinite projection).
"""
import sys
import warnings
from fractions import Fraction

import numpy as np

from common import (Ctx, LeanDriver, Property, close, dyadic, err_kind, frac, list_s, listlist_s, rat_s, run_property)

warnings.filterwarnings("ignore")
CELL = 4.0


def mk_atoms(zs, H, numbers=None, pbc=True):
    from ase import Atoms

    n = len(zs)
    pos = [[(i + 1) * 2.0 ** -6, 0.5, z] for i, z in enumerate(zs)]  # x encodes the atom index
    return Atoms(numbers=numbers or [6] * n, positions=pos, cell=[CELL, CELL, H], pbc=pbc)


def idx_of(atoms):
    return sorted(int(round(x / 2.0 ** -6)) - 1 for x in atoms.positions[:, 0])


def st_token(st):
    return "l:" + list_s(st, rat_s) if isinstance(st, list) else "s:" + rat_s(st)


# ------------------------------------------------------------------------------- generators
def gen_ts(rng, H, nmax=6):
    """dyadic thickness sequence summing to H exactly"""
    n = rng.randint(1, nmax)
    q = 16
    cuts = sorted(rng.sample(range(1, int(H * q)), min(n - 1, int(H * q) - 1)))
    edges = [0] + cuts + [int(H * q)]
    return [(b - a) / q for a, b in zip(edges[:-1], edges[1:])]


def gen_zs(rng, ts, H, k=None):
    cum = np.cumsum(ts)
    zs = []
    for _ in range(k or rng.randint(1, 8)):
        r = rng.random()
        if r < 0.35:
            zs.append(dyadic(rng, -0.5, H + 0.5, 8))
        elif r < 0.6:
            zs.append(float(rng.choice(list(cum))))  # exactly on a slice boundary (the last one is the cell top)
        elif r < 0.9:
            c = float(rng.choice(list(cum)))
            zs.append(c - 2.0 ** -rng.choice([20, 30, 38, 39, 40, 41, 45]))  # around the 1e-12 nudge (2^-40 < 1e-12 < 2^-39)
        else:
            zs.append(rng.choice([0.0, H, 2.0 ** -45]))
    return zs


class C09(Property):
    id = "C09"
    props_file = "AbtemVerif/Props/C09.lean"
    drive_file = "AbtemVerif/Drive/C09.lean"
    trusted = [
        "py2lean expression translator (sites nSlices, sliceThk, sliceCount, nudgeEps, snapCond, inSliceLo, inSliceHi of Gen/Slicing)",
        "hand model Model/Slicing.lean of np.cumsum / np.digitize (non-decreasing edges, right=False) / label_to_index / np.isclose / "
        "ASE wrap(eps=0) around the generated expressions (tied by correspondence)",
        "IEEE: on the dyadic inputs generated float64 evaluates the slicing arithmetic exactly (boundary positions are generated exactly; "
        "arbitrary floats within ~1e-16 of an edge are outside the exact model)",
        "additivity theorems: the per-species Fourier multiplier and the delta superposition enter as additive maps (FFT linearity; "
        "numba `superpose_deltas` accumulates per atom) — validated by the conformance oracle on real builds",
    ]
    assumptions = ["slice thicknesses are positive in the theorems (numpy rejects non-monotonic edges; the model mirrors that error)"]
    rule = ("validate: scalar and sequence thicknesses (incl. non-positive scalars, sums off by 1e-6 / 1e-4); index/members: 1-8 atoms "
            "with heights random dyadic, exactly on slice boundaries, 2^-20..2^-45 below them, 0 and H; prepare: heights in [-H, 2H] "
            "and 2^-30..2^-40 below the cell top; distinct = distinct case JSON; non-trivial = a boundary / window height is present")

    # ------------------------------------------------------------------ correspondence
    def correspondence(self, ctx: Ctx):
        from abtem.slicing import SlicedAtoms, SliceIndexedAtoms, _validate_slice_thickness, slice_limits
        import abtem

        rng = ctx.rng
        drv = LeanDriver(self.drive_file)
        lines, checks = [], []

        def add(name, case, line, got, nontrivial=True):
            lines.append(line)
            checks.append((name, case, got))
            ctx.case(case, nontrivial=nontrivial)
            ctx.count(f"{name}:{got.split()[0]}")

        # (1) _validate_slice_thickness / slice_limits
        for _ in range(ctx.n(150, 2000)):
            H = dyadic(rng, 1, 8, 3) or 1.0
            r = rng.random()
            if r < 0.45:
                st = rng.choice([dyadic(rng, 0.125, 3, 3) or 0.125, H, 2 * H, H / 2, H / 3, 1.0, 0.0, -0.5])
            else:
                st = gen_ts(rng, H)
                p = rng.random()
                if p < 0.2:
                    st = [t * (1 + 1e-6) for t in st]
                elif p < 0.4:
                    st = [t * (1 + 1e-4) for t in st]
                elif p < 0.5:
                    st = st + [0.25]
            case = {"st": st, "H": H}
            try:
                v = _validate_slice_thickness(list(st) if isinstance(st, list) else st, thickness=H)
                got = "ok " + list_s(v, rat_s)
            except Exception as e:  # noqa
                got = "err " + err_kind(e)
            if not isinstance(st, list) and st > 0:
                q = frac(H) / frac(st)
                if q.denominator != 1 and abs(q - round(q)) < Fraction(1, 10 ** 9):
                    ctx.boundary += 1  # float64 H/st rounds onto an integer the exact quotient misses: either count is accepted
                    continue
            add("_validate_slice_thickness", case, f"validate {st_token(st)} {rat_s(H)}", got)
            if got.startswith("ok") and isinstance(st, list) and all(frac(t).denominator <= 64 for t in st):
                lim = slice_limits(tuple(float(t) for t in st))
                add("slice_limits", case, f"limits {list_s(st, rat_s)}", "ok " + list_s(lim, lambda p: f"{rat_s(p[0])}:{rat_s(p[1])}"), False)
        # (2) SliceIndexedAtoms / SlicedAtoms
        for _ in range(ctx.n(200, 3000)):
            H = float(rng.choice([2, 3, 4, 6, 8]))
            ts = gen_ts(rng, H)
            if rng.random() < 0.06 and len(ts) >= 2:  # malformed: a negative thickness (sum kept)
                ts = ts[:-2] + [ts[-2] + ts[-1] + 0.5, -0.5]
            zs = gen_zs(rng, ts, H)
            case = {"ts": ts, "zs": zs, "H": H}
            atoms = mk_atoms(zs, H)
            try:
                sia = SliceIndexedAtoms(atoms, tuple(ts))
                got = "ok " + listlist_s([sorted(int(i) for i in ix) for ix in sia._slice_index])
            except Exception as e:  # noqa
                got = "err " + err_kind(e)
            add("SliceIndexedAtoms._slice_index", case, f"index {list_s(ts, rat_s)} {list_s(zs, rat_s)}", got)
            if all(t > 0 for t in ts):
                pad = rng.choice([0.0, 0.0, 0.25, 1.0])
                i = rng.randint(0, len(ts) + (1 if rng.random() < 0.1 else 0) - 1) if len(ts) else 0
                c2 = dict(case, pad=pad, i=i)
                try:
                    sub = SlicedAtoms(atoms, tuple(ts), z_padding=pad).get_atoms_in_slices(i)
                    got = "ok " + list_s(idx_of(sub))
                except Exception as e:  # noqa
                    got = "err " + err_kind(e)
                add("SlicedAtoms.get_atoms_in_slices", c2, f"members {list_s(ts, rat_s)} {rat_s(pad)} {list_s(zs, rat_s)} {i}", got)
        # (3) _prepare_atoms: wrap + snap
        for _ in range(ctx.n(60, 800)):
            H = float(rng.choice([2, 4, 8]))
            zs = []
            for _ in range(rng.randint(1, 6)):
                r = rng.random()
                if r < 0.5:
                    zs.append(dyadic(rng, -H, 2 * H, 8))
                elif r < 0.85:
                    zs.append(rng.choice([0.0, H, 2 * H, -H]) + rng.choice([-1, 1]) * 2.0 ** -rng.choice([20, 30, 33, 34, 40]))
                else:
                    zs.append(rng.choice([0.0, H, -H]))
            case = {"H": H, "zs": zs}
            case["pbc"] = rng.choice([True, True, False, [True, True, False]])
            pot = abtem.Potential(mk_atoms(zs, H, pbc=case["pbc"]), gpts=8, slice_thickness=1.0)
            out = pot.get_sliced_atoms().atoms
            order = np.argsort(out.positions[:, 0])
            got = "ok " + list_s(out.positions[order, 2], rat_s) if len(out) == len(zs) else f"?natoms={len(out)}"
            add("_prepare_atoms(wrap+snap)", case, f"prepare {rat_s(H)} {list_s(zs, rat_s)}", got)
        outs = drv.query(lines)
        def canon(r):  # rationals are compared as the float64 they round to (the code computes `thickness / n` in float64)
            t = r.split()
            if t[0] == "ok" and len(t) == 2 and t[1] != "_":
                return ["ok"] + [float(Fraction(x)) for x in t[1].split(",")]
            return t

        def same(m, g):  # explicit sequences: the residual H - sum(v) is computed in float64 (ulp-level differences)
            return m == g or (len(m) == len(g) and m[0] == g[0] == "ok" and all(close(a, b, rel=1e-12, abs_=1e-13) for a, b in zip(m[1:], g[1:])))

        for (name, case, got), model in zip(checks, outs):
            if name == "_validate_slice_thickness":
                ctx.agree(name, case, model, got, ok=same(canon(model), canon(got)))
            else:
                ctx.agree(name, case, model, got)
        ctx.traces += len(lines)

    # ------------------------------------------------------------------ conformance
    def oracle_slices(self, ctx: Ctx, case):
        """every atom in exactly one slice, boundary atoms in the upper slice, thicknesses sum to the height"""
        import abtem

        from abtem.slicing import SlicedAtoms

        H, zs, st = case["H"], case["zs"], case["st"]
        try:
            src = mk_atoms(zs, H, pbc=case.get("pbc", True))
            if case.get("phonon_seed") is not None:  # displacements along z only (x encodes the atom index)
                src = abtem.FrozenPhonons(src, 1, sigmas=0.1, seed=case["phonon_seed"], directions="z")
            pot = abtem.Potential(src, gpts=8,
                                  slice_thickness=tuple(st) if isinstance(st, list) else st,
                                  projection=case.get("projection", "infinite"), periodic=case.get("periodic", True))
            ts = pot.slice_thickness
            sa0 = pot.get_sliced_atoms()
        except Exception as e:  # noqa
            ctx.violation("slicing-a-valid-thickness-raises", case, {"raised": f"{type(e).__name__}: {e}"})
            return
        # finite-projection membership with zero padding: every centre inside the cell lies in exactly one slice interval,
        # a centre on a boundary in the upper one
        inside = [k for k, z in enumerate(zs) if 0 <= z < H]
        if inside and not case.get("phonon_seed"):
            sl = SlicedAtoms(mk_atoms(zs, H), tuple(ts), z_padding=0.0)
            mem = [idx_of(sl.get_atoms_in_slices(i)) for i in range(len(ts))]
            cnt = {k: sum(m.count(k) for m in mem) for k in inside}
            cum0 = np.cumsum(ts)
            bad = {k: c for k, c in cnt.items() if c != 1 and abs(zs[k] - H) > 1e-9 and all(abs(zs[k] - c0) > 1e-13 or zs[k] == c0 for c0 in cum0)}
            ctx.evaluations += 1
            if bad:
                ctx.violation("centre-not-in-exactly-one-slice-interval", case, {"slices_per_atom": bad, "z": {k: zs[k] for k in bad}})
                return
            for k in inside:
                for j, c0 in enumerate(cum0[:-1]):
                    if zs[k] == c0 and (k in mem[j] or k not in mem[j + 1]):
                        ctx.violation("boundary-centre-not-in-upper-slice-interval", case, {"atom": k, "z": zs[k]})
                        return
        if not (abs(sum(ts) - H) <= 1e-9 * max(1.0, H)):
            ctx.violation("thickness-sum-ne-height", case, {"sum": float(sum(ts)), "H": H, "explicit_sequence": isinstance(st, list)})
            return
        sa = sa0
        members = [idx_of(sa.get_atoms_in_slices(i)) for i in range(len(ts))]
        # every atom the slicer holds (after the code's own wrap / cut / displacement) is in exactly one slice; a periodic
        # potential holds every input atom
        held = sorted(int(round(a.position[0] / 2.0 ** -6)) - 1 for a in sa.atoms)
        count = {k: sum(m.count(k) for m in members) for k in held}
        ctx.evaluations += 1
        if case.get("periodic", True) and held != list(range(len(zs))):
            ctx.violation("periodic-potential-loses-atoms", case, {"held": held, "n": len(zs)})
            return
        if any(c != 1 for c in count.values()):
            ctx.violation(f"atom-not-in-exactly-one-slice-{case.get('projection', 'infinite')}", case,
                          {"slices_per_atom": {k: c for k, c in count.items() if c != 1},
                           "prepared_z": {int(round(a.position[0] / 2.0 ** -6)) - 1: float(a.position[2]) for a in sa.atoms}})
            return
        cum = np.cumsum(ts)
        prepared = {int(round(a.position[0] / 2.0 ** -6)) - 1: float(a.position[2]) for a in sa.atoms}
        for k, zz in prepared.items():  # heights as the slicer sees them (after the code's own wrap / snap)
            for j, c in enumerate(cum[:-1]):
                if zz == c and k not in members[j + 1]:
                    ctx.violation("boundary-atom-not-in-upper-slice", case, {"atom": k, "z": zs[k], "prepared_z": zz, "boundary": float(c),
                                                                             "found_in": [i for i, m in enumerate(members) if k in m]})
                    return

    def oracle_additive(self, ctx: Ctx, case):
        import abtem
        from ase import Atoms

        rs = np.random.default_rng(case["aseed"])
        H = case["H"]

        stv = case["st"] if not isinstance(case["st"], list) else 1.0
        edges = [k * (H / np.ceil(H / stv)) for k in range(int(np.ceil(H / stv)))]

        def rand_atoms(n, elements):
            z = rs.uniform(0, H, n)
            if case.get("boundary_atoms"):  # some atoms exactly on slice boundaries / on top of each other
                z = np.where(rs.random(n) < 0.5, rs.choice(edges, n), z)
            xy = rs.uniform(0, CELL, (n, 2))
            if case.get("boundary_atoms") and n > 1:
                xy[1] = xy[0]
            return Atoms(numbers=rs.choice(elements, n), cell=[CELL, CELL, H], pbc=True, positions=np.column_stack([xy, z]))

        els = case["elements"]
        if case.get("disjoint_species") and len(els) > 1:
            A, B = rand_atoms(case["na"], els[:1]), rand_atoms(case["nb"], els[1:])
        else:
            A, B = rand_atoms(case["na"], els), rand_atoms(case["nb"], els)
        if case.get("partial_sigmas"):
            # thermal sigmas listed for ONE species only: the other species must contribute exactly as without sigmas
            from abtem.parametrizations import LobatoParametrization
            from ase.data import chemical_symbols

            listed = chemical_symbols[els[0]]
            others = (A + B)[[i for i, a in enumerate(A + B) if a.number != els[0]]]
            if len(others):
                kw0 = dict(gpts=case["gpts"], slice_thickness=case["st"], projection=case["projection"])
                with_s = np.asarray(abtem.Potential(others, parametrization=LobatoParametrization(sigmas={listed: 0.12}), **kw0).build(lazy=False).array)
                plain = np.asarray(abtem.Potential(others, **kw0).build(lazy=False).array)
                ctx.evaluations += 1
                if not np.allclose(with_s, plain, rtol=1e-4, atol=2e-5 * max(1.0, float(np.abs(plain).max()))):
                    ctx.violation(f"species-without-sigma-entry-lost-{case['projection']}", case,
                                  {"maxdiff": float(np.abs(with_s - plain).max()), "scale": float(np.abs(plain).max()),
                                   "sum_with_partial_sigmas": float(np.abs(with_s).sum())})
                    return
        kw = dict(gpts=case["gpts"], slice_thickness=case["st"], projection=case["projection"])
        pa, pb, pab = (np.asarray(abtem.Potential(x, **kw).build(lazy=False).array) for x in (A, B, A + B))
        ctx.evaluations += 1
        scale = max(1.0, float(np.abs(pab).max()))
        if not np.allclose(pab, pa + pb, rtol=1e-4, atol=2e-5 * scale):
            ctx.violation(f"potential-not-additive-{case['projection']}", case,
                          {"maxdiff": float(np.abs(pab - pa - pb).max()), "scale": scale})
            return
        if case["projection"] == "infinite":
            ref = pab.sum(0)
            for st2 in case["other_st"]:
                p2 = np.asarray(abtem.Potential(A + B, gpts=case["gpts"], slice_thickness=tuple(st2) if isinstance(st2, list) else st2)
                                .project().array)
                ctx.evaluations += 1
                if not np.allclose(p2, ref, rtol=1e-4, atol=2e-5 * max(1.0, float(np.abs(ref).max()))):
                    ctx.violation("projection-depends-on-slicing", dict(case, other_st=[st2]),
                                  {"maxdiff": float(np.abs(p2 - ref).max()), "scale": float(np.abs(ref).max())})
                    return

    def conformance(self, ctx: Ctx):
        rng = ctx.rng
        for i in range(ctx.n(120, 2000)):
            H = float(rng.choice([2, 3, 4, 5, 8]))
            st = rng.choice([gen_ts(rng, H), gen_ts(rng, H), rng.choice([0.5, 1.0, 0.7, 1.5, H, 1.5 * H, 0.75 * H])])
            ts = st if isinstance(st, list) else [H / max(1.0, np.ceil(H / st))] * int(max(1.0, np.ceil(H / st)))
            zs = gen_zs(rng, ts, H)
            # adversarial floats around the wrap / snap / nudge windows
            zs += [rng.choice([H - 1e-13, -1e-15, H, 0.0, H - 5e-11, -1e-11, H + 1e-13, rng.uniform(0, H)]) for _ in range(rng.randint(0, 3))]
            c = {"H": H, "st": st, "zs": zs, "projection": "infinite", "periodic": rng.random() < 0.75,
                 "pbc": rng.choice([True, True, False, [True, True, False]])}
            if not c["periodic"]:  # atoms of a non-periodic potential just inside the top and bottom faces
                c["zs"] = zs + [rng.choice([H - 5e-14, H - 1e-12, H - 2e-12, 0.0, 1e-13, H / 2])]
            if i % 4 == 2:  # frozen phonons displace atoms near the faces out of the box (after the cut of a non-periodic potential)
                c["phonon_seed"] = rng.randint(0, 10 ** 6)
                c["zs"] = [z for z in c["zs"] if 0 <= z < H] + [1e-3, H - 1e-3]
            self.oracle_slices(ctx, c)
            ctx.case(c)
            ctx.count(f"conf-slices:{'periodic' if c['periodic'] else 'nonperiodic'}:pbc={c['pbc'] if isinstance(c['pbc'], bool) else 'mixed'}:{'phonons' if c.get('phonon_seed') is not None else 'static'}")
        # explicit sequences whose sum is short of / beyond the cell height but inside the np.isclose tolerance of
        # _validate_slice_thickness (the short ones are the recorded finding; the long ones must still partition the atoms)
        for i in range(ctx.n(6, 60)):
            H = float(rng.choice([4, 8, 10]))
            ts = gen_ts(rng, H, 4)
            d = rng.choice([-1, 1]) * H * rng.choice([1e-6, 5e-6])
            ts = ts[:-1] + [ts[-1] + d]
            zs = [rng.uniform(0, H - 2e-5 * H) for _ in range(rng.randint(1, 4))] + [H - abs(d) / 2]
            c = {"H": H, "st": ts, "zs": zs, "projection": "infinite"}
            self.oracle_slices(ctx, c)
            ctx.case(c)
            ctx.count(f"conf-slices:sum-off-by-{'short' if d < 0 else 'long'}")
        for i in range(ctx.n(24, 200)):
            H = float(rng.choice([2, 3, 4]))
            c = dict(aseed=rng.randint(0, 10 ** 6), H=H, na=rng.randint(1, 4), nb=rng.randint(1, 4), elements=rng.choice([[6], [6, 14], [14, 8, 6]]),
                     gpts=rng.choice([8, 12, 16, [8, 12]]), st=rng.choice([0.5, 1.0, H]), projection="finite" if i % 4 == 3 else "infinite",
                     other_st=[rng.choice([0.4, 0.75, 2.0, H]), gen_ts(rng, H)], boundary_atoms=i % 3 == 0, disjoint_species=i % 5 == 1,
                     partial_sigmas=i % 4 in (1, 3))
            self.oracle_additive(ctx, c)
            ctx.case(c)
            ctx.count(f"conf-additive:{c['projection']}:{'boundary' if c['boundary_atoms'] else 'uniform'}:{'partial-sigmas' if c['partial_sigmas'] else 'plain'}")

    def replay(self, ctx: Ctx, case):
        if "aseed" in case:
            self.oracle_additive(ctx, case)
        else:
            self.oracle_slices(ctx, case)


if __name__ == "__main__":
    sys.exit(run_property(C09()))
