"""C27 — structure factors respect crystal symmetry (Friedel, centering extinctions, lattice translations,
real/periodic potential).  abtem/bloch/utils.py + abtem/bloch/dynamical.py."""
import sys
import warnings
from fractions import Fraction

import numpy as np

from common import Ctx, LeanDriver, Property, bool_s, err_kind, list_s, listlist_s, parse_list, rat_s, run_property

warnings.filterwarnings("ignore")

CENTERINGS = ["P", "I", "F", "A", "B", "C"]
ELEMENTS = [6, 14, 29, 31, 33, 79]


def triples_s(rows, f=str):
    rows = list(rows)
    return ";".join(",".join(f(x) for x in r) for r in rows) if rows else "~"


def parse_triples(s, f=int):
    return [] if s == "~" else [[f(t) for t in r.split(",")] for r in s.split(";")]


def make_atoms(case):
    from ase import Atoms

    cell = np.array(case["cell"], dtype=float)
    atoms = Atoms(numbers=case["numbers"], cell=cell, pbc=True)
    atoms.set_scaled_positions(np.array(case["scaled"], dtype=float))
    return atoms


def table_lattice(c):
    from abtem.bloch.utils import relative_positions_for_centering

    return np.array(relative_positions_for_centering()[c], dtype=float)


STANDARD = {  # crystallographic centering translations (International Tables), independent of the code under test
    "P": [[0, 0, 0]],
    "I": [[0, 0, 0], [.5, .5, .5]],
    "F": [[0, 0, 0], [0, .5, .5], [.5, 0, .5], [.5, .5, 0]],
    "A": [[0, 0, 0], [0, .5, .5]],
    "B": [[0, 0, 0], [.5, 0, .5]],
    "C": [[0, 0, 0], [.5, .5, 0]],
}


def gen_crystal(ctx: Ctx, kind=None, eighths=True, props=None):
    """lattice ⊗ basis crystal in an orthorhombic (or, for kind 'triclinic', general) cell"""
    rng = ctx.rng
    kind = kind or rng.choice(CENTERINGS + ["halfx", "halfy", "halfz", "super211", "super221", "super222", "generic", "triclinic"])
    nb = rng.randint(1, 3)
    basis, nums = [], []
    while len(basis) < nb:
        p = [rng.randint(0, 7) / 8 for _ in range(3)] if eighths else [round(rng.random(), 3) for _ in range(3)]
        if kind in ("generic", "triclinic"):
            p = [round(rng.uniform(0.02, 0.98), 3) for _ in range(3)]
        if all(any(abs(((p[a] - q[a]) * 2) % 1) > 1e-9 for a in range(3)) for q in basis):  # distinct modulo half translations
            basis.append(p)
            nums.append(rng.choice(ELEMENTS))
    lat = {"halfx": [[0, 0, 0], [.5, 0, 0]], "halfy": [[0, 0, 0], [0, .5, 0]], "halfz": [[0, 0, 0], [0, 0, .5]],
           "super211": [[0, 0, 0], [.5, 0, 0]], "super221": [[0, 0, 0], [.5, 0, 0], [0, .5, 0], [.5, .5, 0]],
           "super222": [[i / 2, j / 2, k / 2] for i in (0, 1) for j in (0, 1) for k in (0, 1)],
           "generic": [[0, 0, 0]], "triclinic": [[0, 0, 0]]}.get(kind) or STANDARD[kind[-1] if kind.startswith(("dopant", "mono")) else kind]
    scaled = [[(t[a] + p[a]) % 1.0 for a in range(3)] for t in lat for p in basis]
    numbers = [z for _ in lat for z in nums]
    if kind.startswith("dopant"):  # centred host + one interstitial of another element: the true lattice is primitive
        scaled.append([round(rng.uniform(0.05, 0.45), 3) for _ in range(3)] if not eighths else [rng.choice([1, 3]) / 8 for _ in range(3)])
        numbers.append(rng.choice([z for z in ELEMENTS if z not in nums]))
    lengths = [rng.choice([2.5, 3.0, 3.5, 4.0, 4.5]) for _ in range(3)]
    if kind.startswith("super"):
        lengths = [l * 1.5 for l in lengths]
    cell = np.diag(lengths).tolist()
    if kind.startswith("mono"):  # centred lattice in a monoclinic (non-orthogonal) cell
        cell = (np.diag(lengths) + np.array([[0, 0, 0], [0, 0, 0], [rng.uniform(0.3, 0.9), 0, 0]])).tolist()
    if kind == "triclinic":
        cell = (np.diag(lengths) + np.array([[0, 0, 0], [rng.uniform(-.8, .8), 0, 0], [rng.uniform(-.8, .8), rng.uniform(-.8, .8), 0]])).tolist()
    out = dict(kind=kind, cell=cell, numbers=numbers, scaled=scaled, g_max=rng.choice([1.0, 1.25, 1.5]),
               sigma=rng.choice([0.0, 0.05, 0.1]), occ=rng.choice([1.0, 1.0, 0.5]), cutoff=rng.choice(["taper", "hard"]))
    props = props or rng.choice(["scalar", "scalar", "per-basis", "per-element", "broken"])
    nb_all = len(basis)
    if props == "per-basis":  # one value per basis atom, repeated over the lattice translates (the centering survives)
        sg = [rng.choice([0.0, 0.04, 0.09]) for _ in range(nb_all)]
        oc = [rng.choice([1.0, 0.7, 0.4]) for _ in range(nb_all)]
        extra = len(numbers) - len(lat) * nb_all
        out["sigma"] = [sg[i % nb_all] for i in range(len(lat) * nb_all)] + [0.05] * extra
        out["occ"] = [oc[i % nb_all] for i in range(len(lat) * nb_all)] + [1.0] * extra
    elif props == "per-element":
        from ase.data import chemical_symbols

        out["sigma"] = {chemical_symbols[z]: rng.choice([0.0, 0.04, 0.09]) for z in set(numbers)}
        out["occ"] = {chemical_symbols[z]: rng.choice([1.0, 0.7]) for z in set(numbers)}
    elif props == "broken" and len(numbers) > 1:  # per-atom values that differ between translates: the true lattice is primitive
        out["sigma"] = [rng.choice([0.0, 0.05, 0.12, 0.2]) for _ in numbers]
        out["occ"] = [rng.choice([1.0, 0.8, 0.5, 0.3]) for _ in numbers]
        if len(set(zip(out["sigma"], out["occ"]))) == 1:
            out["occ"][0] = 0.25
    else:
        props = "scalar"
    out["props"] = props
    return out


def build_sf(case, centering="P", lazy=False):
    import abtem

    atoms = make_atoms(case)
    sf = abtem.StructureFactor(atoms, g_max=case["g_max"], thermal_sigma=case["sigma"], occupancy=case["occ"],
                               cutoff=case["cutoff"], centering=centering)
    return sf


def F_dict(sf):
    arr = np.asarray(sf.build(lazy=False).array)
    return {tuple(int(x) for x in h): complex(v) for h, v in zip(sf.hkl, arr)}, arr


class C27(Property):
    id = "C27"
    props_file = "AbtemVerif/Props/C27.lean"
    drive_file = "AbtemVerif/Drive/C27.lean"
    trusted = [
        "FFT: numpy `ifftn` of the 3-D structure-factor array samples the plane-wave sum of `planeWaveSum` on the grid "
        "(the realness/periodicity theorems are about that sum; the array placement is `wrap_is_fftfreq_position`)",
        "IEEE: complex64/float32 evaluation of `exp(-2πi p·h)` and of the sums (compared with 3e-6·Σ|f|/V tolerance against the exact "
        "Gaussian-rational model on quarter positions)",
        "`np.linalg.solve` returns the scaled positions; ASE `Atoms` cell/positions/get_scaled_positions semantics",
        "scattering factors f_j(h) (parametrization × Debye–Waller × occupancy × cutoff) enter the theorems as an arbitrary real "
        "table `w j h`, even in `h` for Friedel (they are functions of |g| in the code: hand-read, checked by the Friedel oracle)",
        "hand models `reflectionMask`, `selectHkl`, `sfQ`, `autoDetect`, `wrapIndex` around the generated definitions "
        "(tied by correspondence; `autoDetect` is correspondence-only, no theorem rests on it)",
    ]
    assumptions = ["orthogonal cells for the auto-detection correspondence (the orthogonality guards of auto_detect_centering are not modelled)"]
    rule = ("correspondence: random (N,3) Miller-index arrays × valid/invalid/upper/lower centering symbols; crystals = centering lattice "
            "(standard tables, axis-halved, supercells, generic, triclinic) ⊗ 1-3 basis atoms on eighths/quarters of an orthorhombic cell; "
            "distinct = distinct case JSON; non-trivial = non-P centering or ≥2 atoms")

    # ------------------------------------------------------------------ correspondence
    def correspondence(self, ctx: Ctx):
        from abtem.bloch.utils import (auto_detect_centering, calculate_g_vec, get_reflection_condition, make_hkl_grid,
                                       relative_positions_for_centering)
        from abtem.bloch.dynamical import (calculate_scattering_factors, calculate_structure_factors, structure_factor_1d_to_3d)
        import abtem

        rng = ctx.rng
        lines, todo = [], []

        def ask(line, fn):
            lines.append(line)
            todo.append(fn)

        # A. get_reflection_condition ------------------------------------------------
        syms = CENTERINGS + [c.lower() for c in CENTERINGS] + ["X", "R", "FF", "ab", "H", "pp"]
        for _ in range(ctx.n(150, 2500)):
            n = rng.choice([0, 1, 2, 3, 5, 8, 12])
            hkl = [[rng.randint(-6, 6) for _ in range(3)] for _ in range(n)]
            c = rng.choice(syms)
            case = dict(kind="refl", centering=c, hkl=hkl)

            def check(out, case=case):
                try:
                    m = get_reflection_condition(np.array(case["hkl"], dtype=int).reshape(-1, 3), case["centering"])
                    impl = ["ok"] + [bool(x) for x in m]
                except Exception as e:  # noqa
                    impl = ["err", err_kind(e)]
                t = out.split()
                model = ["err", t[1]] if t[0] == "err" else ["ok"] + [x == "T" for x in parse_list(t[1], str)]
                ctx.agree("get_reflection_condition", case, model, impl)
                ctx.count(f"refl:{case['centering'].upper() if case['centering'].upper() in CENTERINGS else 'invalid'}:{impl[0]}")
                ctx.case(case, nontrivial=case["centering"].lower() != "p" and len(case["hkl"]) > 0)

            ask(f"refl s:{c} {triples_s(hkl)}", check)

        # B. centering table ------------------------------------------------------------
        def check_table(out):
            impl = {k: [[Fraction(float(x)) for x in row] for row in v] for k, v in relative_positions_for_centering().items()}
            model = {}
            for part in out.split()[1].split("|"):
                k, v = part.split("=")
                model[k] = [[Fraction(x) for x in r.split(",")] for r in v.split(";")]
            ctx.agree("relative_positions_for_centering", {"kind": "table"}, {k: [[str(x) for x in r] for r in v] for k, v in model.items()},
                      {k: [[str(x) for x in r] for r in v] for k, v in impl.items()})
            ctx.case({"kind": "table"})

        ask("table", check_table)

        # C. hkl selection of StructureFactor.__init__ ------------------------------------
        for _ in range(ctx.n(24, 300)):
            cr = gen_crystal(ctx, kind=rng.choice(CENTERINGS))
            cr["g_max"] = rng.choice([0.6, 0.8, 1.0])
            c = rng.choice(CENTERINGS + ["f", "i", "a", "X"])
            grid = make_hkl_grid(make_atoms(cr).cell, cr["g_max"])
            case = dict(cr, kind="select", centering=c)

            def check(out, case=case, grid=grid):
                try:
                    impl = ["ok", [[int(x) for x in r] for r in build_sf(case, centering=case["centering"]).hkl]]
                except Exception as e:  # noqa
                    impl = ["err", err_kind(e)]
                t = out.split()
                model = ["err", t[1]] if t[0] == "err" else ["ok", parse_triples(t[1])]
                ctx.agree("StructureFactor.hkl (centering filter)", case, model, impl)
                ctx.count(f"select:{case['centering']}:{impl[0]}")
                ctx.case(case, nontrivial=case["centering"].lower() != "p")

            ask(f"select s:{c} {triples_s(grid.tolist())}", check)

        # D. calculate_structure_factors on quarter positions --------------------------------
        for _ in range(ctx.n(40, 600)):
            cr = gen_crystal(ctx, kind=rng.choice(CENTERINGS + ["halfx", "generic"]))
            if cr["kind"] == "generic":
                cr["scaled"] = [[rng.randint(0, 3) / 4 for _ in range(3)] for _ in cr["scaled"]]
            else:
                cr["scaled"] = [[round(x * 4) / 4 for x in p] for p in cr["scaled"]]
            atoms = make_atoms(cr)
            grid = make_hkl_grid(atoms.cell, cr["g_max"])
            sel = grid[ctx.nprng.choice(len(grid), size=min(len(grid), rng.randint(1, 10)), replace=False)]
            fe = calculate_scattering_factors(calculate_g_vec(sel, atoms.cell), atoms, "lobato", cr["g_max"], cr["sigma"], cr["occ"], cr["cutoff"])
            w = np.asarray(fe).real.astype(np.float64)
            vol = Fraction(1)
            for a in range(3):
                vol *= Fraction(cr["cell"][a][a])
            qs = [[int(round(x * 4)) for x in p] for p in cr["scaled"]]
            case = dict(cr, kind="sf", hkl=sel.tolist())

            def check(out, case=case, atoms=atoms, sel=sel, w=w, vol=vol):
                impl = np.asarray(calculate_structure_factors(sel, atoms, "lobato", case["g_max"], case["sigma"], case["occ"], case["cutoff"]))
                t = out.split()
                model = np.array([complex(float(Fraction(r.split(",")[0])), float(Fraction(r.split(",")[1]))) for r in t[1].split(";")])
                scale = np.abs(w).sum(axis=0) / float(vol)
                ok = bool(np.all(np.abs(impl - model) <= 3e-6 * scale + 1e-9))
                ctx.agree("calculate_structure_factors (quarter positions)", case, [[z.real, z.imag] for z in model.tolist()],
                          [[z.real, z.imag] for z in impl.tolist()], ok=ok)
                ctx.count(f"sf:{case['kind']}:atoms={len(case['numbers'])}")
                ctx.case(case, nontrivial=len(case["numbers"]) > 1)

            ask(f"sf {rat_s(vol)} {triples_s(qs)} {triples_s(sel.tolist())} {listlist_s(w.tolist(), rat_s)}", check)

        # E. auto_detect_centering (orthogonal cells, eighth positions) ------------------------
        for _ in range(ctx.n(60, 800)):
            cr = gen_crystal(ctx, kind=rng.choice(CENTERINGS + ["halfx", "halfy", "halfz", "super211", "super221", "super222",
                                                                  "dopantF", "dopantI", "dopantC"]))
            if rng.random() < 0.2 and len(cr["numbers"]) > 1:  # break the symmetry: drop one atom
                k = rng.randrange(len(cr["numbers"]))
                cr["numbers"].pop(k)
                cr["scaled"].pop(k)
            n_at = len(cr["numbers"])
            if isinstance(cr["sigma"], list) and len(cr["sigma"]) != n_at:  # an atom was dropped above
                cr["sigma"], cr["occ"], cr["props"] = 0.05, 1.0, "scalar"
            per_atom = isinstance(cr["sigma"], list)
            keys = [(z, cr["occ"][i], cr["sigma"][i]) if per_atom else (z,) for i, z in enumerate(cr["numbers"])]
            species = "|".join(triples_s([p for p, kk in zip(cr["scaled"], keys) if kk == key], rat_s) for key in sorted(set(keys)))
            case = dict(cr, kind="detect")

            def check(out, case=case, per_atom=per_atom):
                if per_atom:
                    impl = auto_detect_centering(make_atoms(case), site_properties=np.c_[case["occ"], case["sigma"]])
                else:
                    impl = auto_detect_centering(make_atoms(case))
                ctx.agree("auto_detect_centering", case, out.split()[1], impl)
                ctx.count(f"detect:{case['lattice_kind']}:{case['props']}->{impl}")
                ctx.case(case, nontrivial=impl != "P")

            case["lattice_kind"] = cr["kind"]
            ask(f"detect {species}", check)

        # F. placement in the 3-D array ---------------------------------------------------------
        for _ in range(ctx.n(10, 100)):
            m = [rng.randint(0, 4) for _ in range(3)]
            hkl = np.array([[rng.randint(-m[a], m[a]) for a in range(3)] for _ in range(rng.randint(1, 8))])
            hkl = np.unique(hkl, axis=0)
            gpts = tuple(2 * x + 1 for x in m)
            vals = (np.arange(len(hkl)) + 1).astype(complex)
            arr3 = structure_factor_1d_to_3d(vals, hkl, gpts)
            for row, v in zip(hkl, vals):
                pos = [int(x) for x in np.argwhere(arr3 == v)[0]]
                freqs = [int(np.fft.fftfreq(gpts[a], d=1 / gpts[a]).astype(int)[pos[a]]) for a in range(3)]
                for a in range(3):
                    case = dict(kind="wrap", h=int(row[a]), m=m[a])

                    def check(out, case=case, p=pos[a], f=freqs[a]):
                        t = out.split()
                        ctx.agree("structure_factor_1d_to_3d index / fftfreq", case, [int(t[1]), int(t[2])], [p, f])
                        ctx.case(case, nontrivial=case["h"] < 0)

                    ask(f"wrap {int(row[a])} {m[a]}", check)

        # malformed requests must be rejected by the driver
        bad = ["refl F 1,1,1", "refl s:F 1,1", "sf 0 0,0,0 1,0,0 1", "select s:F", "wrap x 1", "detect 1,2"]
        outs = LeanDriver(self.drive_file).query(lines + bad)
        for fn, out in zip(todo, outs):
            fn(out)
        for b, out in zip(bad, outs[len(lines):]):
            ctx.agree("driver rejects malformed request", b, out, "bad-op")
        ctx.traces += len(lines)

    # ------------------------------------------------------------------ conformance (implementation only)
    def oracle(self, ctx: Ctx, case):
        from abtem.bloch.utils import auto_detect_centering, get_reflection_condition

        kind = case["check"]
        atoms = make_atoms(case)
        if kind == "friedel":
            sf = build_sf(case, "P")
            F, arr = F_dict(sf)
            scale = max(np.abs(arr).max(), 1e-30)
            worst = 0.0
            for h, v in F.items():
                mh = (-h[0], -h[1], -h[2])
                if mh not in F:
                    ctx.violation("hkl-grid-not-closed-under-negation", case, {"h": h})
                    return
                worst = max(worst, abs(F[mh] - np.conj(v)))
            if not (worst <= 2e-5 * scale):
                ctx.violation("friedel-symmetry-broken", case, {"max |F(-h) - conj F(h)|": worst, "max |F|": scale})
            lazy = np.asarray(sf.build(lazy=True).compute().array)
            if not np.allclose(lazy, arr, rtol=1e-6, atol=1e-7 * scale):
                ctx.violation("structure-factor-lazy-differs-from-eager", case, {"max diff": float(np.abs(lazy - arr).max())})
        elif kind == "extinction":
            # whatever centering the code detects (or is told), the reflections it removes must have zero structure factor
            sfP = build_sf(case, "P")
            F, arr = F_dict(sfP)
            scale = max(np.abs(arr).max(), 1e-30)
            cents = []
            try:
                cents.append(("auto", build_sf(case, "auto").centering))  # detection as StructureFactor runs it (with sigma / occupancy)
            except Exception as e:  # noqa
                ctx.violation("auto-detect-centering-raises", case, {"error": repr(e)})
            declared = case["kind"][-1] if case["kind"].startswith("mono") else case["kind"]
            if declared in CENTERINGS and case.get("props") != "broken":
                cents.append(("declared", declared))
                if case["kind"] in CENTERINGS and cents[0][0] == "auto" and cents[0][1] != case["kind"] and case.get("generic_basis"):
                    ctx.violation(f"auto-detect-misses-{case['kind']}-centering", case, {"detected": cents[0][1]})
            for how, c in cents:
                try:
                    mask = np.asarray(get_reflection_condition(sfP.hkl, c))
                except Exception as e:  # noqa
                    ctx.violation(f"reflection-condition-raises-{c}-centering", case, {"error": repr(e), "centering": c, "how": how})
                    continue
                if mask.shape != (len(sfP.hkl),):
                    ctx.violation(f"reflection-condition-shape-{c}-centering", case, {"shape": list(mask.shape)})
                    continue
                worst = float(np.abs(arr[~mask]).max()) if (~mask).any() else 0.0
                if not (worst <= 2e-5 * scale):
                    h = sfP.hkl[~mask][int(np.argmax(np.abs(arr[~mask])))]
                    ctx.violation(f"{how}-{c}-centering-removes-nonzero-reflection", case,
                                  {"centering": c, "hkl": [int(x) for x in h], "|F|": worst, "max |F|": scale})
                try:
                    sfc = build_sf(case, c if how == "declared" else "auto")
                    kept = {tuple(int(x) for x in r) for r in sfc.hkl}
                    want = {tuple(int(x) for x in r) for r in sfP.hkl[mask]}
                    if kept != want:
                        ctx.violation(f"structure-factor-hkl-not-filtered-by-{c}-condition", case, {"kept": len(kept), "expected": len(want)})
                except Exception as e:  # noqa
                    ctx.violation(f"structure-factor-raises-{how}-{c}-centering", case, {"error": repr(e)})
        elif kind == "translation":
            import abtem

            # float64 precision: positions and phases are then exact to 1e-16·|p·h|, so the tolerance can be as tight as the
            # extinction tolerance scale (float32 positions would need ~5e-4·max|F|)
            with abtem.config.set({"precision": "float64"}):
                sf = build_sf(case, "P")
                _, arr = F_dict(sf)
                scale = max(np.abs(arr).max(), 1e-30)
                shifted = dict(case, scaled=[[p[a] + n[a] for a in range(3)] for p, n in zip(case["scaled"], case["shifts"])])
                _, arr2 = F_dict(build_sf(shifted, "P"))
            d = float(np.abs(arr2 - arr).max())
            if not (d <= 1e-9 * scale):
                ctx.violation("lattice-translation-changes-structure-factor", case, {"max diff": d, "max |F|": scale})
            # default float32 path, shifts of at most two cells: rounding of the positions only (measured 8e-7·max|F|)
            _, a32 = F_dict(build_sf(case, "P"))
            small = dict(case, scaled=[[p[a] + max(-2, min(2, n[a])) for a in range(3)] for p, n in zip(case["scaled"], case["shifts"])])
            _, b32 = F_dict(build_sf(small, "P"))
            d32 = float(np.abs(b32 - a32).max())
            if not (d32 <= 2e-5 * max(np.abs(a32).max(), 1e-30)):
                ctx.violation("lattice-translation-changes-structure-factor-float32", case, {"max diff": d32})
        elif kind == "potential":
            sfa = build_sf(case, "P").build(lazy=False)
            arr3 = np.asarray(sfa.to_3d_array())
            pot = np.fft.ifftn(arr3)
            scale = max(np.abs(pot.real).max(), 1e-30)
            if not (np.abs(pot.imag).max() <= 2e-5 * scale):
                ctx.violation("potential-not-real", case, {"max imag": float(np.abs(pot.imag).max()), "max real": float(scale)})
            p0 = np.asarray(sfa.get_potential_3d())
            # one grid pixel along axis `ax`: the potential must come back rolled (periodic wrap-around)
            ax = case["axis"]
            n = p0.shape[ax]
            shifted = dict(case, scaled=[[p[a] + (1.0 / n if a == ax else 0.0) for a in range(3)] for p in case["scaled"]])
            p1 = np.asarray(build_sf(shifted, "P").build(lazy=False).get_potential_3d())
            ptp = max(float(p0.max() - p0.min()), 1e-30)
            d = float(np.abs(np.roll(p0, 1, axis=ax) - p1).max())
            if not (d <= 2e-3 * ptp):
                ctx.violation("potential-not-periodic-under-pixel-shift", case, {"max diff": d, "ptp": ptp})
            whole = dict(case, scaled=[[p[a] + (1.0 if a == ax else 0.0) for a in range(3)] for p in case["scaled"]])
            p2 = np.asarray(build_sf(whole, "P").build(lazy=False).get_potential_3d())
            d2 = float(np.abs(p2 - p0).max())
            if not (d2 <= 2e-3 * ptp):
                ctx.violation("potential-changes-under-lattice-translation", case, {"max diff": d2, "ptp": ptp})
        else:
            raise ValueError(kind)

    def conformance(self, ctx: Ctx):
        rng = ctx.rng
        for _ in range(ctx.n(10, 120)):
            case = dict(gen_crystal(ctx, kind=rng.choice(["generic", "triclinic", "F", "I"])), check="friedel")
            self.oracle(ctx, case)
            ctx.case(case)
        kinds = CENTERINGS + ["halfx", "halfy", "halfz", "super211", "super221", "super222", "generic",
                              "dopantF", "dopantI", "dopantA", "dopantB", "dopantC", "monoI", "monoC", "monoA", "monoF"]
        for i in range(ctx.n(66, 660)):
            k = kinds[i % len(kinds)]
            cr = gen_crystal(ctx, kind=k, eighths=False)
            cr["generic_basis"] = True
            case = dict(cr, check="extinction")
            self.oracle(ctx, case)
            ctx.count(f"extinction:{k}")
            ctx.case(case)
        for _ in range(ctx.n(8, 100)):
            cr = gen_crystal(ctx, kind=rng.choice(["generic", "triclinic", "I"]))
            case = dict(cr, check="translation", shifts=[[rng.randint(-2, 2) for _ in range(3)] for _ in cr["numbers"]])
            self.oracle(ctx, case)
            ctx.case(case)
        for _ in range(ctx.n(6, 60)):
            cr = gen_crystal(ctx, kind=rng.choice(["generic", "F", "C"]))
            case = dict(cr, check="potential", axis=rng.randrange(3))
            self.oracle(ctx, case)
            ctx.case(case)

    def replay(self, ctx: Ctx, case):
        self.oracle(ctx, case)


if __name__ == "__main__":
    sys.exit(run_property(C27()))
