"""C38 — results do not depend on the FFT back end or the precision setting (abtem/core/fft.py, get_dtype)."""
import sys
from contextlib import contextmanager

import numpy as np

from common import (Ctx, LeanDriver, Property, bool_s, err_kind, run_property)

NAMES = ["fft2", "ifft2", "fftn", "ifftn"]
CFGS = ["numpy", "fftw", "mkl", "foo", "", "FFTW", "np"]
PRECS = ["float32", "float64", "float16", "", "double", "complex64"]
DT = {"complex64": 1, "complex128": 2}


def s_(x):
    return "s:" + x


def rand(rs, shape, dtype):
    return (rs.normal(size=shape) + 1j * rs.normal(size=shape)).astype(dtype)


@contextmanager
def libs(has_fftw=True, has_mkl=None):
    """hide pyfftw (and show/hide mkl_fft with a stand-in delegating to numpy) inside abtem.core.fft for this process"""
    import abtem.core.fft as F

    old = (F.pyfftw, F.mkl_fft)
    if not has_fftw:
        F.pyfftw = None
    if has_mkl is True and F.mkl_fft is None:
        class _Mkl:  # stand-in with mkl_fft's call signature
            def __getattr__(self, name):
                return lambda x, overwrite_x=False, **kw: getattr(np.fft, name)(x, **kw)
        F.mkl_fft = _Mkl()
    elif has_mkl is False:
        F.mkl_fft = None
    try:
        yield
    finally:
        F.pyfftw, F.mkl_fft = old


@contextmanager
def traced():
    """record which library entry point `_fft_dispatch` reaches and how many FFTW plans are created"""
    import abtem.core.fft as F

    log = {"backend": [], "plans": 0}
    o_fftw, o_mkl, o_new = F._fftw_dispatch, F._mkl_fft_dispatch, F._new_fftw_object

    def w_fftw(x, func_name, overwrite_x, **kw):
        if F.pyfftw is not None:
            log["backend"].append("fftw")
        return o_fftw(x, func_name, overwrite_x, **kw)

    def w_mkl(x, func_name, overwrite_x, **kw):
        if F.mkl_fft is not None:
            log["backend"].append("mkl")
        return o_mkl(x, func_name, overwrite_x, **kw)

    def w_new(*a, **kw):
        log["plans"] += 1
        return o_new(*a, **kw)

    F._fftw_dispatch, F._mkl_fft_dispatch, F._new_fftw_object = w_fftw, w_mkl, w_new
    try:
        yield log
    finally:
        F._fftw_dispatch, F._mkl_fft_dispatch, F._new_fftw_object = o_fftw, o_mkl, o_new


def observe_call(fn, x):
    x0 = x.copy()
    try:
        r = fn(x)
        return ["ok", bool(np.shares_memory(r, x)), not np.array_equal(x, x0), r]
    except Exception as e:  # noqa
        return ["err", err_kind(e)]


class C38(Property):
    id = "C38"
    props_file = "AbtemVerif/Props/C38.lean"
    drive_file = "AbtemVerif/Drive/C38.lean"
    trusted = [
        "FFT: numpy.fft and pyFFTW compute the same discrete Fourier pair (Lib/DFT.lean `FourierPair`); the theorems say that any two "
        "back ends with the same forward transform give identical convolutions — that the libraries do so, to rounding, is validated "
        "numerically by the oracle (not proved)",
        "IEEE: float32 results are within 2e-5 relative L2 of the float64 results for the small pipelines of the oracle",
        "hand model `Fft.dispatch/getDtype/fftCall/convolve/cachedStep` of the branch bodies around the generated `if` tests (tied by "
        "trace correspondence: library reached, aliasing of the result with the input, modification of the input, result dtype, "
        "number of FFTW plans created; fingerprints reported)",
        "mkl_fft is not installed: the `mkl` branch is exercised with a stand-in that delegates to numpy (dispatch only)",
    ]
    assumptions = ["arrays are at least 2x2 and non-zero, so that an in-place transform is observable as a modified input",
                   "GPU (cupy) paths are not exercised"]
    rule = ("exhaustive dispatch table (7 config strings x library availability), precision table (6 strings x complex flag), "
            "transform calls (4 names x back ends x overwrite), convolutions (back ends x overwrite x broadcasting kernel), random "
            "call histories of the cached FFTW convolution (shape/dtype switches); oracle: numeric agreement across "
            "fft in {numpy, fftw} x planning effort x precision for transforms, convolutions, lazy arrays and small multislice pipelines")

    # ------------------------------------------------------------------ correspondence
    def correspondence(self, ctx: Ctx):
        import abtem
        import abtem.core.fft as F
        from abtem.core.utils import get_dtype

        drv = LeanDriver(self.drive_file)
        rng = ctx.rng
        rs = np.random.default_rng(ctx.seed + 38)
        cases = [dict(op="defaults")]
        for cfg in CFGS:
            for hf in (True, False):
                for hm in (True, False):
                    cases.append(dict(op="dispatch", cfg=cfg, has_fftw=hf, has_mkl=hm))
                    for isnp in (True, False):
                        cases.append(dict(op="route", cfg=cfg, has_fftw=hf, has_mkl=hm, numpy_array=isnp))
        for p in PRECS:
            for c in (True, False):
                cases.append(dict(op="dtype", precision=p, complex=c))
        for b in ("numpy", "fftw", "mkl"):
            for name in NAMES:
                for ow in (True, False):
                    for dt in ("complex64", "complex128"):
                        cases.append(dict(op="fft", backend=b, name=name, overwrite=ow, dtype=dt, shape=[rng.randint(2, 6), rng.randint(2, 6)]))
            for ow in (True, False):
                for bc in (True, False):
                    cases.append(dict(op="convolve", backend=b, overwrite=ow, broadcast=bc, dtype=rng.choice(["complex64", "complex128"]),
                                      shape=[rng.randint(2, 6), rng.randint(2, 6)]))
        for _ in range(ctx.n(40, 800)):
            shapes = [[rng.randint(2, 5), rng.randint(2, 5)] for _ in range(2)]
            hist = [dict(shape=rng.choice(shapes), dtype=rng.choice(["complex64", "complex64", "complex128"]), overwrite=rng.random() < 0.4)
                    for _ in range(rng.randint(1, 6))]
            cases.append(dict(op="cached", history=hist, effort=rng.choice(["FFTW_ESTIMATE", "FFTW_MEASURE", "FFTW_PATIENT"])))
        lines = []
        for c in cases:
            if c["op"] == "defaults":
                lines.append("defaults")
            elif c["op"] == "dispatch":
                lines.append(f"dispatch {s_(c['cfg'])} {bool_s(c['has_fftw'])} {bool_s(c['has_mkl'])}")
            elif c["op"] == "route":
                lines.append(f"route {s_(c['cfg'])} {bool_s(c['has_fftw'])} {bool_s(c['has_mkl'])} {bool_s(c['numpy_array'])}")
            elif c["op"] == "dtype":
                lines.append(f"dtype {s_(c['precision'])} {bool_s(c['complex'])}")
            elif c["op"] == "fft":
                lines.append(f"fft {c['backend']} {s_(c['name'])} {bool_s(c['overwrite'])}")
            elif c["op"] == "convolve":
                lines.append(f"convolve {c['backend']} {bool_s(c['overwrite'])} {bool_s(not c['broadcast'])}")
            else:
                toks = {}
                hist = ";".join(f"{toks.setdefault(tuple(h['shape']), len(toks) + 1)},{DT[h['dtype']]}" for h in c["history"])
                lines.append(f"cached F {hist}")
        bad = ["dispatch fftw T F", "dtype s:float32", "fft cupy s:fft2 T", "cached F 1;2", "convolve fftw T"]
        outs = drv.query(lines + bad)
        for l, o in zip(bad, outs[len(lines):]):
            ctx.agree("driver rejects malformed request", l, o, "bad-op")
        for c, out in zip(cases, outs):
            t = out.split()
            if c["op"] == "defaults":
                import yaml  # noqa
                from pathlib import Path

                d = yaml.safe_load((Path(F.__file__).parent / "abtem.yaml").read_text())
                ctx.agree("abtem.yaml defaults", c, t[1:], [d["fft"], d["precision"]])
            elif c["op"] == "dispatch":
                x = rand(rs, (4, 4), np.complex64)
                with libs(c["has_fftw"], c["has_mkl"]), traced() as log, abtem.config.set({"fft": c["cfg"]}):
                    try:
                        r = F.fft2(x)
                        got = ["ok", log["backend"][0] if log["backend"] else "numpy"]
                        ok_val = np.abs(r - np.fft.fft2(x)).max() < 1e-4
                        ctx.agree("dispatched transform computes fft2", c, True, bool(ok_val))
                    except Exception as e:  # noqa
                        got = ["err", err_kind(e)]
                ctx.agree("_fft_dispatch", c, t, got)
                ctx.count(f"dispatch:{got[1]}")
            elif c["op"] == "route":
                from abtem.multislice import FresnelPropagator

                used = []
                orig_call = F.CachedFFTWConvolution.__call__

                def spy(self_, array, kernel, overwrite_x):
                    used.append("cached-fftw")
                    return orig_call(self_, array, kernel, overwrite_x)

                F.CachedFFTWConvolution.__call__ = spy
                try:
                    with libs(c["has_fftw"], c["has_mkl"]), traced() as log, abtem.config.set({"fft": c["cfg"]}):
                        try:
                            w = abtem.PlaneWave(energy=100e3, gpts=8, extent=4.0).build(lazy=not c["numpy_array"])
                            out = FresnelPropagator().propagate(w, 1.0)
                            if not c["numpy_array"]:
                                out.compute()
                            got = ["ok", used[0] if used else (log["backend"][0] if log["backend"] else "numpy")]
                        except Exception as e:  # noqa
                            got = ["err", err_kind(e)]
                finally:
                    F.CachedFFTWConvolution.__call__ = orig_call
                ctx.agree("FresnelPropagator.propagate route", c, t, got)
                ctx.count(f"route:{got[1]}")
            elif c["op"] == "dtype":
                with abtem.config.set({"precision": c["precision"]}):
                    try:
                        got = ["ok", np.dtype(get_dtype(complex=c["complex"])).name]
                    except Exception as e:  # noqa
                        got = ["err", err_kind(e)]
                ctx.agree("get_dtype", c, t, got)
                ctx.count(f"dtype:{got[1]}")
            elif c["op"] in ("fft", "convolve"):
                x = rand(rs, tuple(c["shape"]), c["dtype"])
                with libs(True, True if c["backend"] == "mkl" else None), abtem.config.set(
                        {"fft": c["backend"], "fftw.planning_effort": ["FFTW_ESTIMATE", "FFTW_MEASURE", "FFTW_PATIENT"][sum(c["shape"]) % 3]}):
                    if c["op"] == "fft":
                        obs = observe_call(lambda a: getattr(F, c["name"])(a, overwrite_x=c["overwrite"]), x)
                    else:
                        k = rand(rs, ((3,) if c["broadcast"] else ()) + tuple(c["shape"]), c["dtype"])
                        obs = observe_call(lambda a: F.fft2_convolve(a, k, overwrite_x=c["overwrite"]), x)
                if c["backend"] == "mkl":
                    # the stand-in delegates to numpy and never works in place: only the value/dtype are compared for mkl
                    ctx.agree(f"{c['op']} via mkl stand-in succeeds", c, t[0], obs[0])
                else:
                    ctx.agree("result aliases input / input modified (" + c["op"] + ")", c, t[:3], [obs[0], bool_s(obs[1]), bool_s(obs[2])] if obs[0] == "ok" else obs)
                    if obs[0] == "ok":
                        ctx.agree("result dtype = input dtype", c, c["dtype"], obs[3].dtype.name)
                ctx.count(f"{c['op']}:{c['backend']}:ow={c['overwrite']}")
            else:
                conv = F.CachedFFTWConvolution()
                trace, err = [], None
                with traced() as log, abtem.config.set({"fft": "fftw", "fftw.planning_effort": c["effort"]}):
                    for h in c["history"]:
                        a = rand(rs, tuple(h["shape"]), h["dtype"]); k = rand(rs, tuple(h["shape"]), h["dtype"]); a0 = a.copy()
                        try:
                            r = conv(a, k, h["overwrite"])
                        except Exception as e:  # noqa
                            err = err_kind(e); break
                        trace.append(log["plans"])
                        ref = np.fft.ifft2(np.fft.fft2(a0.astype(np.complex128)) * k.astype(np.complex128))
                        tol = 1e-4 if h["dtype"] == "complex64" else 1e-10
                        ctx.agree("cached convolution value / dtype / aliasing", h,
                                  [True, h["dtype"], h["overwrite"], h["overwrite"]],
                                  [bool(np.abs(r - ref).max() <= tol * max(1.0, np.abs(ref).max())), r.dtype.name, bool(np.shares_memory(r, a)),
                                   not np.array_equal(a, a0)])
                model = ["err", t[1]] if t[0] == "err" else ["ok", [int(v) for v in t[1].split(",")]]
                ctx.agree("CachedFFTWConvolution plan creations", c, model, ["err", err] if err else ["ok", trace])
                ctx.count(f"cached:len={len(c['history'])}")
            ctx.case(c, nontrivial=c["op"] != "defaults")
        ctx.traces += len(cases)

    # ------------------------------------------------------------------ conformance
    def run_pipeline(self, c, fft, effort, precision, lazy):
        import abtem
        from ase import Atoms

        with abtem.config.set({"fft": fft, "fftw.planning_effort": effort, "precision": precision, "dask.lazy": lazy}):
            rs = np.random.default_rng(c["seed"])
            L = c["extent"]
            pos = rs.random((c["natoms"], 3)) * [L, L, c["depth"]]
            atoms = Atoms(numbers=[c["z"]] * c["natoms"], positions=pos, cell=[L, L, c["depth"]])
            pot = abtem.Potential(atoms, gpts=c["gpts"], slice_thickness=c["depth"] / c["slices"], projection=c.get("projection", "infinite"),
                                  parametrization="kirkland")
            extra = []
            if c["source"] == "prism":
                s_matrix = abtem.SMatrix(potential=pot, energy=c["energy"], semiangle_cutoff=20, interpolation=1)
                built = s_matrix.build(lazy=lazy)
                extra.append(("s-matrix-dtype", np.dtype(built.array.dtype).name))
                dp = s_matrix.scan(abtem.CustomScan([[L / 3, L / 2]]), detectors=abtem.PixelatedDetector(max_angle=None))
                dp = dp.compute() if lazy else dp
                a = np.asarray(dp.array, dtype=np.float64)
                return a, a, dp.array.dtype.name, extra
            if c["source"] == "probe":
                probe = abtem.Probe(energy=c["energy"], semiangle_cutoff=20, defocus=c["defocus"])
                probe.grid.match(pot)
                exit_wave = probe.multislice(pot, scan=abtem.CustomScan([[L / 3, L / 2]]))
            else:
                wave = abtem.PlaneWave(energy=c["energy"])
                wave.grid.match(pot)
                exit_wave = wave.multislice(pot)
            extra.append(("exit-wave-dtype", np.dtype(exit_wave.array.dtype).name))
            dp = exit_wave.diffraction_patterns(max_angle=None)
            img = exit_wave.intensity()
            tr = c.get("transform")
            if tr == "ctf":
                img = exit_wave.apply_ctf(defocus=30.0, semiangle_cutoff=25).intensity()
            elif tr == "interpolate":
                img = img.interpolate(sampling=L / c["gpts"] / 1.5)
            elif tr == "gaussian":
                img = img.gaussian_filter(0.4)
            elif tr == "diffractograms":
                img = img.diffractograms()
            if lazy:
                dp, img = dp.compute(), img.compute()
            return np.asarray(dp.array, dtype=np.float64), np.asarray(img.array, dtype=np.float64), dp.array.dtype.name, extra

    def oracle(self, ctx: Ctx, c):
        try:
            self._oracle(ctx, c)
        except Exception as e:  # noqa — a configuration under which the computation cannot run at all is a violation of the property
            ctx.violation(f"{c['kind']}-raises", c, {"raised": err_kind(e), "message": str(e)[:200]})

    def _oracle(self, ctx: Ctx, c):
        import abtem
        import abtem.core.fft as F

        kind = c["kind"]
        rs = np.random.default_rng(c["seed"])
        if kind == "transform":
            x = rand(rs, tuple(c["shape"]), c["dtype"])
            k = rand(rs, tuple(c["shape"]), c["dtype"])
            tol = 2e-5 if c["dtype"] == "complex64" else 1e-12
            ref = {n: getattr(np.fft, n)(x.astype(np.complex128), axes=(-2, -1) if n.endswith("2") else None) for n in NAMES}
            ref["conv"] = np.fft.ifft2(np.fft.fft2(x.astype(np.complex128)) * k)
            for fft in ("numpy", "fftw"):
                for effort in (("FFTW_ESTIMATE", "FFTW_MEASURE", "FFTW_PATIENT") if fft == "fftw" else ("FFTW_MEASURE",)):
                    with abtem.config.set({"fft": fft, "fftw.planning_effort": effort}):
                        for ow in (False, True):
                            for n in NAMES + ["conv"]:
                                a = x.copy()
                                r = F.fft2_convolve(a, k, overwrite_x=ow) if n == "conv" else getattr(F, n)(a, overwrite_x=ow)
                                err = np.linalg.norm(r - ref[n]) / max(np.linalg.norm(ref[n]), 1e-30)
                                if not (err <= tol) or r.dtype != x.dtype:
                                    ctx.violation(f"{n}-differs-{fft}", c, {"fft": fft, "effort": effort, "overwrite_x": ow, "rel_l2": float(err),
                                                                        "dtype": r.dtype.name})
                                if not ow and not np.array_equal(a, x):
                                    ctx.violation(f"{n}-modifies-input-{fft}", c, {"fft": fft, "effort": effort})
                        # views and awkward buffers: a member / strided selection of an odd-sized batch, a read-only array, real input
                        stack = np.stack([x, 2 * x, 3 * x])
                        ro = x.copy(); ro.setflags(write=False)
                        for label, make, refv in (("batch-member", lambda: stack.copy()[1], 2 * ref["fft2"]), ("strided", lambda: stack.copy()[::2], None),
                                                  ("read-only", lambda: ro, ref["fft2"]), ("real", lambda: np.ascontiguousarray(x.real), None)):
                            for ow in (False, True):
                                a = make()
                                want = refv if refv is not None else np.fft.fft2(a.astype(np.complex128) if np.iscomplexobj(a) else a.astype(np.float64))
                                try:
                                    r = F.fft2(a, overwrite_x=ow)
                                except Exception as e:  # noqa
                                    ctx.violation(f"fft2-raises-on-{label}-input-{fft}", c, {"overwrite_x": ow, "raised": f"{type(e).__name__}: {e}"[:120]})
                                    continue
                                err = np.linalg.norm(r - want) / max(np.linalg.norm(want), 1e-30)
                                if not (err <= tol):
                                    ctx.violation(f"fft2-differs-on-{label}-input-{fft}", c, {"overwrite_x": ow, "rel_l2": float(err)})
                        # lazy arrays go through the same dispatch block by block
                        import dask.array as da

                        xl = da.from_array(np.stack([x, x * 2]), chunks=(1,) + x.shape)
                        lz = F.fft2(xl)
                        r = lz.compute()
                        if lz.dtype != r.dtype or r.dtype != x.dtype:
                            ctx.violation(f"lazy-fft2-dtype-{fft}", c, {"declared": str(lz.dtype), "computed": str(r.dtype), "input": str(x.dtype)})
                        e = np.linalg.norm(r[1] - 2 * ref["fft2"]) / max(np.linalg.norm(ref["fft2"]) * 2, 1e-30)
                        if not (e <= tol):
                            ctx.violation(f"lazy-fft2-differs-{fft}", c, {"rel_l2": float(e)})
        elif kind == "cached":
            conv = F.CachedFFTWConvolution()
            with abtem.config.set({"fft": "fftw", "fftw.planning_effort": c.get("effort", "FFTW_MEASURE")}):
                for shape, dt, ow in c["history"]:
                    a = rand(rs, tuple(shape), dt); k = rand(rs, tuple(shape), dt); a0 = a.copy()
                    try:
                        r = conv(a, k, ow)
                    except Exception as e:  # noqa
                        ctx.violation("cached-convolution-raises-after-switch", c, {"raised": err_kind(e), "at": [shape, dt, ow]}); return
                    ref = np.fft.ifft2(np.fft.fft2(a0.astype(np.complex128)) * k.astype(np.complex128))
                    tol = 2e-5 if dt == "complex64" else 1e-12
                    err = np.linalg.norm(r - ref) / max(np.linalg.norm(ref), 1e-30)
                    if not (err <= tol) or r.dtype.name != dt:
                        ctx.violation("cached-convolution-wrong-after-switch", c, {"rel_l2": float(err), "dtype": r.dtype.name, "at": [shape, dt, ow]}); return
        elif kind == "pipeline":
            ref_dp, ref_img, _, _ = self.run_pipeline(c, "numpy", "FFTW_MEASURE", "float64", False)
            ctx.count(f"pipeline:{c['source']}:{c.get('projection', 'infinite')}:{c.get('transform')}")
            scale_dp, scale_img = np.linalg.norm(ref_dp), np.linalg.norm(ref_img)
            for fft, effort, prec, lazy in c["configs"]:
                dp, img, dtn, extra = self.run_pipeline(c, fft, effort, prec, lazy)
                for what, name in extra:  # complex intermediates must carry the configured precision too (not only the label of the result)
                    if name != {"float32": "complex64", "float64": "complex128"}[prec]:
                        ctx.violation(f"pipeline-{what}-not-configured-precision", c, {"config": [fft, effort, prec, lazy], "dtype": name})
                tol = 5e-5 if prec == "float32" else 1e-10
                e1, e2 = np.linalg.norm(dp - ref_dp) / scale_dp, np.linalg.norm(img - ref_img) / scale_img
                if dtn != prec:
                    ctx.violation("pipeline-dtype-not-configured-precision", c, {"config": [fft, effort, prec, lazy], "dtype": dtn})
                if not (e1 <= tol and e2 <= tol):
                    ctx.violation(f"pipeline-differs-{fft}-{prec}", c, {"config": [fft, effort, prec, lazy], "rel_l2_diffraction": float(e1),
                                                                        "rel_l2_intensity": float(e2), "tolerance": tol})
        elif kind == "invalid":
            with abtem.config.set({c["key"]: c["value"]}):
                try:
                    if c["key"] == "fft":
                        F.fft2(rand(rs, (4, 4), np.complex64))
                    else:
                        from abtem.core.utils import get_dtype

                        get_dtype()
                    ctx.violation(f"invalid-{c['key']}-accepted", c, {})
                except RuntimeError:
                    pass

    def gen(self, ctx: Ctx):
        rng = ctx.rng
        out = []
        for _ in range(ctx.n(12, 240)):
            out.append(dict(kind="transform", seed=rng.randint(0, 2**31), shape=[rng.randint(2, 17), rng.randint(2, 17)],
                            dtype=rng.choice(["complex64", "complex128"])))
        for _ in range(ctx.n(10, 200)):
            shapes = [[rng.randint(2, 9), rng.randint(2, 9)] for _ in range(2)]
            out.append(dict(kind="cached", seed=rng.randint(0, 2**31), effort=rng.choice(["FFTW_ESTIMATE", "FFTW_MEASURE", "FFTW_PATIENT"]),
                            history=[[rng.choice(shapes), rng.choice(["complex64", "complex128"]), rng.random() < 0.5] for _ in range(rng.randint(2, 6))]))
        efforts = ("FFTW_ESTIMATE", "FFTW_MEASURE", "FFTW_PATIENT")
        allcfg = [(f, e, p, l) for f in ("numpy", "fftw") for e in (efforts if f == "fftw" else ("FFTW_MEASURE",))
                  for p in ("float32", "float64") for l in (False, True)]
        for _ in range(ctx.n(3, 40)):
            out.append(dict(kind="pipeline", seed=rng.randint(0, 2**31), gpts=rng.choice([16, 24, 32]), extent=rng.choice([6.0, 8.0]), depth=4.0,
                            slices=rng.choice([2, 4]), natoms=rng.randint(1, 4), z=rng.choice([6, 14, 29]), energy=rng.choice([80e3, 200e3]),
                            defocus=rng.choice([0.0, 40.0]), source=rng.choice(["probe", "plane"]),
                            transform=rng.choice([None, "ctf", "interpolate", "gaussian", "diffractograms"]),
                            configs=rng.sample(allcfg, ctx.n(5, 12))))
        f64 = [cfg for cfg in allcfg if cfg[2] == "float64" and cfg[0] == "fftw"]
        for source, projection in (("prism", "infinite"), ("probe", "finite")):  # PRISM and finite projection, always incl. a float64 FFTW run
            for _ in range(ctx.n(1, 8)):
                out.append(dict(kind="pipeline", seed=rng.randint(0, 2**31), gpts=rng.choice([16, 24]), extent=6.0, depth=4.0, slices=2, natoms=rng.randint(1, 3),
                                z=rng.choice([6, 14]), energy=100e3, defocus=0.0, source=source, projection=projection, transform=None,
                                configs=[rng.choice(f64)] + rng.sample(allcfg, ctx.n(3, 8))))
        import abtem.core.fft as F

        for key, value in (("fft", "foo"), ("fft", "mkl"), ("precision", "float16"), ("precision", "complex64")):
            if value == "mkl" and F.mkl_fft is not None:
                continue
            out.append(dict(kind="invalid", seed=1, key=key, value=value))
        return out

    def conformance(self, ctx: Ctx):
        for c in self.gen(ctx):
            self.oracle(ctx, c)
            ctx.case(c, nontrivial=c["kind"] != "invalid")

    def replay(self, ctx: Ctx, case):
        self.oracle(ctx, case)


if __name__ == "__main__":
    sys.exit(run_property(C38()))
