"""C32 — API calls do not modify caller-owned inputs."""
import copy
import json
import sys
import warnings

import numpy as np

from common import LEAN_DIR, Ctx, Property, run_property

warnings.filterwarnings("ignore")

ATOM_CALLS = ["Potential.finite.build", "Potential.generate_slices", "Potential(AtomsEnsemble)", "DummyFrozenPhonons", "AtomsEnsemble",
              "FrozenPhonons.randomize", "PlaneWave.multislice(atoms)", "Probe.scan(atoms)", "SMatrix(atoms)", "CrystalPotential",
              "Potential.to_images", "flip_atoms", "merge_close_atoms", "orthogonalize_cell", "orthogonalize_cell_origin", "orthogonalize_cell_plane", "standardize_cell", "Potential", "Potential.build",
              "FrozenPhonons", "FrozenPhonons.build", "StructureFactor", "BlochWaves", "pad_atoms", "cut_cell", "rotate_atoms_to_plane",
              "atoms_in_cell", "wrapped", "shrink_cell", "is_cell_orthogonal", "rotate_atoms",
              "SlicedAtoms", "SliceIndexedAtoms", "ChargeDensityPotential.build", "show_atoms"]
# structures each entry point is fed (default: all families); an entry point that never succeeds in a run fails the check
ATOM_KINDS = ["graphene", "hex-bulk", "fcc-primitive", "mos2", "sheared", "cubic", "cubic-permuted", "cubic-rotated"]
ATOM_KINDS_FOR = {"standardize_cell": ["cubic", "cubic-permuted", "cubic-rotated", "cubic-rotated"],
                  "rotate_atoms_to_plane": ["hex-bulk", "fcc-primitive", "sheared", "cubic", "cubic-permuted"],
                  "FrozenPhonons.build": ["graphene", "hex-bulk", "fcc-primitive", "mos2", "cubic"],
                  "shrink_cell": ["graphene", "hex-bulk", "fcc-primitive", "sheared", "cubic"],
                  "SlicedAtoms": ["cubic", "cubic", "graphene"], "SliceIndexedAtoms": ["cubic", "cubic", "graphene"],
                  "ChargeDensityPotential.build": ["cubic", "cubic-permuted"]}
MEAS_METHODS = ["real", "imag", "phase", "abs", "intensity", "interpolate", "crop", "gaussian_filter", "tile", "mean", "sum",
                "to_cpu", "copy", "poisson_noise", "__getitem__", "squeeze", "expand_dims", "__add__", "__mul__", "normalize_ensemble",
                "relative_difference", "interpolate_line_at_position", "center_of_mass", "integrate_radial", "block_direct",
                "std", "min", "max", "__sub__", "__truediv__", "__pow__", "apply_func", "rechunk", "reduce_ensemble",
                "integrated_center_of_mass", "gaussian_source_size", "azimuthal_average", "polar_binning", "radial_binning",
                "bandlimit", "integrate_disc", "diffractograms", "integrate", "to_diffraction_patterns_noop"]


def meas_applicable(method, kind):
    """the (method, measurement kind) pairs that exist and are meant to work; only these are generated"""
    base, val = kind.split("-")
    if method in ("real", "imag", "phase", "intensity"):
        return val == "complex"
    if method in ("poisson_noise", "relative_difference"):
        return val == "real"
    if method in ("crop", "tile"):
        return base == "Images"
    if method in ("gaussian_filter", "interpolate_line_at_position"):
        return base in ("Images", "DiffractionPatterns")
    if method in ("center_of_mass", "block_direct", "integrated_center_of_mass", "gaussian_source_size", "azimuthal_average",
                  "polar_binning", "radial_binning", "bandlimit"):
        return base == "DiffractionPatterns"
    if method in ("diffractograms", "integrate_disc"):
        return base == "Images"
    if method == "integrate":
        return base == "PolarMeasurements"
    if method == "to_diffraction_patterns_noop":
        return False
    if method == "integrate_radial":
        return base in ("DiffractionPatterns", "PolarMeasurements")
    if method == "interpolate":
        return base != "PolarMeasurements"
    return True


# ------------------------------------------------------------------ atoms
def gen_atoms(rng, kind):
    from ase import Atoms
    from ase.build import bulk, graphene, mx2
    if kind == "graphene":
        a = graphene(vacuum=2.0)
    elif kind == "hex-bulk":
        a = bulk("Mg", "hcp", a=3.2, c=5.2)
    elif kind == "fcc-primitive":
        a = bulk("Cu", "fcc", a=3.6)
    elif kind == "mos2":
        a = mx2(vacuum=2.0)
    elif kind == "sheared":
        a = bulk("Si", cubic=True)
        c = a.cell.array.copy()
        c[1, 0] = 0.5 * c[0, 0]
        a.set_cell(c, scale_atoms=True)
    elif kind == "cubic-permuted":
        a = bulk("Si", cubic=True)
        c = a.cell.array.copy()
        a.set_cell(c[[1, 0, 2]] * np.array([[1.0], [-1.0], [1.0]]), scale_atoms=False)
    elif kind == "cubic-rotated":
        a = bulk("Si", cubic=True)
        a.rotate(rng.choice([30.0, 45.0, -60.0]), "z", rotate_cell=True)
    else:
        a = bulk("Si", cubic=True)
    a = a * (rng.randint(1, 2), rng.randint(1, 2), 1)
    # state beyond positions/cell/numbers that a call might touch
    a.set_tags(list(range(len(a))))
    a.set_initial_charges([0.25 * (i % 3) for i in range(len(a))])
    a.set_momenta(np.full((len(a), 3), 0.5))
    a.info["note"] = {"k": [1, 2, 3]}
    if rng.random() < 0.5:
        from ase.constraints import FixAtoms
        a.set_constraint(FixAtoms(indices=[0]))
    if True:  # always at least one atom outside the cell (wrapping is the commonest way an input gets modified)
        idx = rng.randrange(len(a))
        a.positions[idx] += np.array([rng.choice([-1, 1, 2]) * a.cell.lengths()[0] * 1.25, rng.choice([-7.0, 0.0, 9.5]), rng.choice([0.0, -3.0])])
    if rng.random() < 0.3:
        a.positions += rng.choice([11.0, -4.0])
    return a


def snapshot_atoms(a):
    s = {"cell": a.cell.array.copy(), "pbc": a.pbc.copy(), "celldisp": np.array(a.get_celldisp()).copy(),
         "array-keys": sorted(a.arrays.keys()), "info": repr(copy.deepcopy(a.info)), "constraints": repr(a.constraints),
         "calc": repr(a.calc)}
    for k, v in a.arrays.items():   # positions, numbers, tags, momenta, initial_charges, …
        s["arrays." + k] = np.array(v, copy=True)
    return s


def same_atoms(s, a):
    t = snapshot_atoms(a)
    return [k for k in sorted(set(s) | set(t))
            if k not in s or k not in t or not (np.array_equal(s[k], t[k]) if isinstance(s[k], np.ndarray) else s[k] == t[k])]


def call_atoms(name, a, rng):
    import abtem
    from abtem import atoms as AT
    if name == "Potential.finite.build":
        return abtem.Potential(a, sampling=0.4, slice_thickness=2.0, projection="finite").build(lazy=False)
    if name == "Potential.generate_slices":
        return list(abtem.Potential(a, sampling=0.4, slice_thickness=2.0, projection="infinite").generate_slices())
    if name == "Potential(AtomsEnsemble)":
        from abtem.inelastic.phonons import AtomsEnsemble
        return abtem.Potential(AtomsEnsemble([a, a.copy()]), sampling=0.4, slice_thickness=2.0, projection="infinite").build(lazy=False)
    if name == "DummyFrozenPhonons":
        from abtem.inelastic.phonons import DummyFrozenPhonons
        fp = DummyFrozenPhonons(a)
        return fp.randomize(a), fp.atoms, len(fp)
    if name == "AtomsEnsemble":
        from abtem.inelastic.phonons import AtomsEnsemble
        e = AtomsEnsemble([a, a.copy()])
        return e[0], e.trajectory if hasattr(e, "trajectory") else None
    if name == "FrozenPhonons.randomize":
        fp = abtem.FrozenPhonons(a, num_configs=2, sigmas=0.1, seed=3)
        return fp.randomize(a), [c for c in fp]
    if name == "PlaneWave.multislice(atoms)":
        return abtem.PlaneWave(energy=100e3, sampling=0.4).multislice(a, lazy=False)
    if name == "Probe.scan(atoms)":
        return abtem.Probe(energy=100e3, semiangle_cutoff=20, sampling=0.4).scan(a, scan=abtem.GridScan(gpts=2), lazy=False)
    if name == "SMatrix(atoms)":
        return abtem.SMatrix(potential=a, energy=100e3, semiangle_cutoff=10, sampling=0.4).build(lazy=False)
    if name == "CrystalPotential":
        pot = abtem.Potential(a, sampling=0.4, slice_thickness=2.0, projection="infinite")
        return abtem.CrystalPotential(pot, repetitions=(1, 1, 2)).build(lazy=False)
    if name == "Potential.to_images":
        return abtem.Potential(a, sampling=0.4, slice_thickness=2.0, projection="infinite").build(lazy=False).to_images()
    if name == "flip_atoms":
        return AT.flip_atoms(a)
    if name == "merge_close_atoms":
        return AT.merge_close_atoms(a)
    if name == "orthogonalize_cell":
        return AT.orthogonalize_cell(a, max_repetitions=3)
    if name == "orthogonalize_cell_origin":
        return AT.orthogonalize_cell(a, max_repetitions=3, origin=(0.5, 0.25, 0.0))
    if name == "orthogonalize_cell_plane":
        return AT.orthogonalize_cell(a, max_repetitions=3, plane="xz")
    if name == "standardize_cell":
        return AT.standardize_cell(a)
    if name == "Potential":
        return abtem.Potential(a, sampling=0.4, slice_thickness=2.0)
    if name == "Potential.build":
        return abtem.Potential(a, sampling=0.4, slice_thickness=2.0, projection="infinite").build(lazy=False)
    if name == "FrozenPhonons":
        return abtem.FrozenPhonons(a, num_configs=2, sigmas=0.1, seed=1)
    if name == "FrozenPhonons.build":
        fp = abtem.FrozenPhonons(a, num_configs=2, sigmas=0.1, seed=1)
        return abtem.Potential(fp, sampling=0.4, slice_thickness=2.0, projection="infinite").build(lazy=False)
    if name == "StructureFactor":
        return abtem.bloch.StructureFactor(a, g_max=2.0)
    if name == "BlochWaves":
        sf = abtem.bloch.StructureFactor(a, g_max=2.0)
        return abtem.bloch.BlochWaves(structure_factor=sf, energy=100e3, sg_max=0.1)
    if name == "pad_atoms":
        return AT.pad_atoms(a, margins=1.0)
    if name == "cut_cell":
        return AT.cut_cell(a, cell=(4.0, 4.0, 4.0), origin=(0.5, 0.0, 0.0), margin=0.5)
    if name == "rotate_atoms_to_plane":
        return AT.rotate_atoms_to_plane(a, rng.choice(["xy", "xz", "yz"]))
    if name == "atoms_in_cell":
        return AT.atoms_in_cell(a, margin=0.5)
    if name == "wrapped":
        return AT.wrap_with_tolerance(a)
    if name == "shrink_cell":
        return AT.shrink_cell(a)
    if name == "is_cell_orthogonal":
        return AT.is_cell_orthogonal(a)
    if name == "rotate_atoms":
        return AT.rotate_atoms(a, axes="zxz", angles=(0.3, 0.1, 0.0))
    if name in ("SlicedAtoms", "SliceIndexedAtoms"):
        # direct users of the slicing classes hand over their own object: it is stored without a copy (`self._atoms = atoms`)
        from abtem import slicing as SL
        sl = getattr(SL, name)(a, 1.0 if name == "SlicedAtoms" else 2.0)
        n = len(sl)
        out = [sl.get_atoms_in_slices(0, n - 1), sl.get_atoms_in_slices(0), list(sl.generate_atoms_in_slices()), sl[0:max(n - 1, 1)]]
        out.append((sl.slice_limits, sl.slice_thickness, sl.box, sl.num_slices))
        got = sl.get_atoms_in_slices(0, n - 1)          # the returned slab must not be a view of the caller's arrays either
        if len(got):
            got.positions[:] += 1.0
            got.numbers[:] = 1
        return out
    if name == "ChargeDensityPotential.build":
        from abtem.potentials.charge_density import ChargeDensityPotential
        import numpy as np
        rho = np.abs(np.asarray(rng.random() + np.arange(6 * 6 * 8, dtype=float).reshape(6, 6, 8) % 5)) * 1e-2
        return ChargeDensityPotential(a, charge_density=rho, sampling=0.5, slice_thickness=2.0).build(lazy=False)
    if name == "show_atoms":
        import matplotlib
        matplotlib.use("Agg")
        import matplotlib.pyplot as plt
        try:
            return [abtem.show_atoms(a, plane=pl, merge=mg, legend=lg) for pl, mg, lg in (("xy", 0.1, False), ("xz", 0.0, True), ("yz", 0.5, False))]
        finally:
            plt.close("all")
    raise ValueError(f"unknown entry point {name}")


# ------------------------------------------------------------------ measurements
def gen_measurement(rng, kind, force_ens=False, lazy=False, scan=False):
    from abtem import measurements as M
    from abtem.core import axes as A
    nprng = np.random.default_rng(rng.randint(0, 10**6))
    ens = [A.ParameterAxis(label="C10", values=(1.0, 2.0), units="Å")] if (rng.random() < 0.5 or force_ens) else []
    if scan:   # 4-D STEM-like: two scan axes in front
        ens = ens + [A.ScanAxis(label="x", sampling=0.5, units="Å"), A.ScanAxis(label="y", sampling=0.5, units="Å")]
    es = tuple(2 if isinstance(a, A.ParameterAxis) else 3 for a in ens)
    cplx = kind.endswith("-complex")
    base = kind.split("-")[0]

    def arr(shape):
        a = nprng.random(shape).astype(np.float32)
        return (a + 1j * nprng.random(shape)).astype(np.complex64) if cplx else a
    md = {"label": "orig", "units": "e", "energy": 100e3, "note": (1, 2)}
    if base == "DiffractionPatterns":   # metadata values may be numpy arrays (mutable), e.g. a cutoff computed with numpy
        md["semiangle_cutoff"] = np.array(10.0)
    m = _make_measurement(M, base, arr, es, ens, md)
    return m.ensure_lazy() if lazy else m


def _make_measurement(M, base, arr, es, ens, md):
    if base == "Images":
        return M.Images(arr(es + (6, 6)), sampling=0.2, ensemble_axes_metadata=ens, metadata=md)
    if base == "DiffractionPatterns":
        return M.DiffractionPatterns(arr(es + (6, 6)), sampling=0.05, fftshift=True, ensemble_axes_metadata=ens, metadata=md)
    if base == "RealSpaceLineProfiles":
        return M.RealSpaceLineProfiles(arr(es + (8,)), sampling=0.2, ensemble_axes_metadata=ens, metadata=dict(md, start=(0.0, 0.0), end=(1.0, 1.0)))
    if base == "ReciprocalSpaceLineProfiles":
        return M.ReciprocalSpaceLineProfiles(arr(es + (8,)), sampling=0.05, ensemble_axes_metadata=ens, metadata=md)
    if base == "PolarMeasurements":
        return M.PolarMeasurements(arr(es + (4, 4)), radial_sampling=1.0, azimuthal_sampling=0.5, ensemble_axes_metadata=ens, metadata=md)
    raise ValueError(kind)


MEAS_KINDS = ["Images-complex", "Images-real", "DiffractionPatterns-complex", "DiffractionPatterns-real", "RealSpaceLineProfiles-complex",
              "RealSpaceLineProfiles-real", "ReciprocalSpaceLineProfiles-real", "PolarMeasurements-real", "PolarMeasurements-complex"]


def snapshot_meas(m):
    return {"array": np.array(m.compute().array if m.is_lazy else m.array, copy=True), "lazy": m.is_lazy, "metadata": copy.deepcopy(m.metadata),
            "axes": [copy.deepcopy(a) for a in m.axes_metadata], "kwargs": repr(sorted(m._copy_kwargs(exclude=("array",)).keys()))}


def changed_meas(s, m):
    out = []
    now = np.asarray(m.compute().array if m.is_lazy else m.array)
    if m.is_lazy != s["lazy"] or not np.array_equal(s["array"], now, equal_nan=True) or s["array"].dtype != now.dtype:
        out.append("array")
    if list(s["metadata"]) != list(m.metadata) or any(
            not np.array_equal(np.asarray(s["metadata"][k], dtype=object), np.asarray(m.metadata[k], dtype=object)) for k in s["metadata"]):
        out.append("metadata")
    if len(s["axes"]) != len(m.axes_metadata) or any(not (a == b) for a, b in zip(s["axes"], m.axes_metadata)):
        out.append("axes")
    return out


def call_meas(name, m, rng):
    if name in ("real", "imag", "phase", "abs", "intensity", "copy", "to_cpu", "squeeze", "center_of_mass", "integrate_radial",
                "diffraction_patterns", "normalize_ensemble", "integrated_intensity"):
        f = getattr(m, name, None)
        if f is None:
            return "n/a"
        if name == "integrate_radial":
            return f(0.0, 0.1)
        return f()
    if name == "interpolate":
        return m.interpolate(sampling=0.1) if hasattr(m, "interpolate") else "n/a"
    if name == "crop":
        return m.crop(extent=(0.6, 0.6)) if hasattr(m, "crop") and m.base_dims == 2 else "n/a"
    if name == "gaussian_filter":
        return m.gaussian_filter(0.3) if hasattr(m, "gaussian_filter") else "n/a"
    if name == "tile":
        return m.tile((2, 1)) if hasattr(m, "tile") and m.base_dims == 2 else "n/a"
    if name in ("mean", "sum", "std", "min", "max"):
        return getattr(m, name)(axis=0) if m.ensemble_shape else "n/a"
    if name == "__sub__":
        return m - m
    if name == "__truediv__":
        return m / 2.0
    if name == "__pow__":
        return m ** 2
    if name == "apply_func":
        return m.apply_func(lambda a: a * 2)
    if name == "rechunk":
        return m.ensure_lazy().rechunk("auto")
    if name == "reduce_ensemble":
        return m.reduce_ensemble()
    if name == "integrated_center_of_mass":
        return m.integrated_center_of_mass()
    if name == "gaussian_source_size":
        return m.gaussian_source_size(0.3)
    if name == "azimuthal_average":
        return m.azimuthal_average()
    if name == "polar_binning":
        return m.polar_binning(nbins_radial=2, nbins_azimuthal=2, inner=0.0, outer=5.0)
    if name == "radial_binning":
        return m.radial_binning(step_size=1.0, inner=0.0, outer=5.0)
    if name == "bandlimit":
        return m.bandlimit(0.0, 4.0)
    if name == "integrate_disc":
        return m.integrate_disc(position=(0.5, 0.5), radius=0.3)
    if name == "diffractograms":
        return m.diffractograms()
    if name == "integrate":
        return m.integrate(radial_limits=(0.0, 2.0))
    if name == "poisson_noise":
        return m.poisson_noise(total_dose=1e4, seed=1) if not np.iscomplexobj(m.array) and hasattr(m, "poisson_noise") else "n/a"
    if name == "__getitem__":
        return m[0] if m.ensemble_shape else "n/a"
    if name == "expand_dims":
        return m.expand_dims(0)
    if name == "__add__":
        return m + m
    if name == "__mul__":
        return m * 2.0
    if name == "relative_difference":
        return m.relative_difference(m) if not np.iscomplexobj(m.array) else "n/a"
    if name == "interpolate_line_at_position":
        return m.interpolate_line_at_position(center=(0.5, 0.5), angle=0.0, extent=0.4) if hasattr(m, "interpolate_line_at_position") else "n/a"
    if name == "block_direct":
        return m.block_direct() if hasattr(m, "block_direct") else "n/a"
    return "n/a"


def static_tables():
    """the generated write-set tables, read back from Gen/Writes.lean (what the theorems are about)"""
    import re
    src = (LEAN_DIR / "AbtemVerif" / "Gen" / "Writes.lean").read_text()
    out = {}
    for name, ws in re.findall(r'\("([^"]+)", \[(.*?)\]\)', src):
        out[name] = re.findall(r'"([^"]*)"', ws)
    return out


class C32(Property):
    id = "C32"
    props_file = "AbtemVerif/Props/C32.lean"
    drive_file = None
    trusted = [
        "tools/py2lean_writes.py: the write-set extraction (AST walk in statement order, aliases, `.copy()` freshness, list of mutating "
        "method names) — an over-approximation of direct writes in the listed function bodies; it does not see writes inside callees",
        "ASE: Atoms.copy() returns an object sharing no arrays with the original",
        "the snapshots of the conformance oracle (positions, cell, numbers, pbc, array keys; array, metadata, axes metadata)",
    ]
    assumptions = ["dynamic part: inputs drawn from eight structure families (incl. non-orthogonal cells, atoms outside the cell, shifted "
                   "origins) and nine measurement kinds; a mutation that needs other inputs would be missed by the snapshots",
                   "to_data_array needs xarray (not installed): its fix is covered by the static table only"]
    rule = ("atoms calls: 31 entry points (potential build finite/infinite, slices, ensembles, frozen phonons, multislice/scan/SMatrix with bare atoms, cell utilities), each fed structure families it accepts and each required to succeed at least once per run x random structures (graphene, hcp, fcc primitive, MoS2, sheared and cubic Si; repeated; "
            "atoms outside the cell; shifted) ; measurement methods: 25 methods on the measurement kinds they exist for (applicability table `meas_applicable`), each required to succeed at least once per run; 9 measurement kinds (real/complex, with/without ensemble "
            "axis); distinct = distinct (call, input) JSON; non-trivial = the call returned without raising")

    # static facts vs dynamic observation ------------------------------------------------
    def correspondence(self, ctx: Ctx):
        tbl = static_tables()
        rng = ctx.rng
        from abtem import atoms as AT
        # every atoms function the static table calls clean must be observed clean; every offender must be observed (or be a setter)
        for name in ["orthogonalize_cell", "standardize_cell", "rotate_atoms_to_plane", "pad_atoms", "cut_cell"]:
            if not hasattr(AT, name) and name != "cut_cell":
                continue
            static_clean = tbl.get(name if name != "cut_cell" else "cut_cell", tbl.get("cut", [])) == []
            dyn_clean, succeeded = True, 0
            for _ in range(ctx.n(8, 40)):
                a = gen_atoms(rng, rng.choice(ATOM_KINDS_FOR.get(name, ATOM_KINDS)))
                s = snapshot_atoms(a)
                try:
                    call_atoms(name, a, rng)
                    succeeded += 1
                except Exception:  # noqa
                    pass
                if same_atoms(s, a):
                    dyn_clean = False
            if not succeeded:
                raise RuntimeError(f"{name} never succeeded in the static-vs-dynamic comparison")
            ctx.agree(f"static write set vs observed mutation: atoms.{name}", name, static_clean, dyn_clean)
            ctx.case({"static-vs-dynamic": name})
        for meth in ["real", "imag", "phase", "abs", "intensity"]:
            static_clean = tbl.get(f"BaseMeasurements.{meth}") == []
            dyn_clean = True
            for kind in MEAS_KINDS:
                m = gen_measurement(rng, kind)
                s = snapshot_meas(m)
                try:
                    call_meas(meth, m, rng)
                except Exception:  # noqa
                    pass
                if changed_meas(s, m):
                    dyn_clean = False
            ctx.agree(f"static write set vs observed mutation: BaseMeasurements.{meth}", meth, static_clean, dyn_clean)
            ctx.case({"static-vs-dynamic": meth})
        ctx.count(f"static-table-rows:{len(tbl)}")
        ctx.count(f"static-offenders:{sum(1 for v in tbl.values() if v)}")

    # the property itself ---------------------------------------------------------------------
    def oracle(self, ctx: Ctx, case):
        import random
        rng = random.Random(case["seed"])
        if case["what"] == "atoms":
            a = gen_atoms(rng, case["kind"])
            s = snapshot_atoms(a)
            try:
                call_atoms(case["call"], a, rng)
                outcome = "ok"
            except Exception as e:  # noqa
                outcome = "raised:" + type(e).__name__
            diff = same_atoms(s, a)
            if diff:
                ctx.violation(f"{case['call']}-mutates-caller-atoms", case, {"changed": diff, "outcome": outcome})
            return outcome
        m = gen_measurement(rng, case["kind"], force_ens=case["call"] in ("mean", "sum", "std", "min", "max", "__getitem__"),
                            lazy=case.get("lazy", False), scan=case.get("scan", False))
        s = snapshot_meas(m)
        try:
            r = call_meas(case["call"], m, rng)
            if isinstance(r, str) and r == "n/a":
                raise RuntimeError(f"{case['call']} does not exist for {case['kind']} (recipe table out of date)")
            outcome = "ok"
        except Exception as e:  # noqa
            outcome = "raised:" + type(e).__name__
        diff = changed_meas(s, m)
        if diff:
            ctx.violation(f"{case['call']}-mutates-receiver-{'-'.join(diff)}", case, {"changed": diff, "outcome": outcome,
                                                                                       "metadata_before": repr(s["metadata"])[:150],
                                                                                       "metadata_after": repr(m.metadata)[:150]})
        return outcome

    def conformance(self, ctx: Ctx):
        rng = ctx.rng
        succeeded = {}
        # every entry point on every structure family it accepts (a mutation path may need one particular family, e.g. an
        # orthogonal cell equal to the box), repeated with fresh random structures in the thorough tier
        atom_pairs = [(c, k) for c in ATOM_CALLS for k in dict.fromkeys(ATOM_KINDS_FOR.get(c, ATOM_KINDS))]
        for i in range(len(atom_pairs) * ctx.n(1, 8)):
            call, kind = atom_pairs[i % len(atom_pairs)]
            case = {"what": "atoms", "call": call, "kind": kind, "seed": rng.randint(0, 10**6)}
            out = self.oracle(ctx, case)
            succeeded[("atoms", call)] = succeeded.get(("atoms", call), 0) + (out == "ok")
            ctx.count(f"atoms:{call}:{out.split(':')[0]}")
            ctx.case(case, nontrivial=out == "ok")
        pairs = [(m, k) for m in MEAS_METHODS for k in MEAS_KINDS if meas_applicable(m, k)]
        for i in range(ctx.n(len(pairs) * 2, len(pairs) * 20)):
            meth, kind = pairs[i % len(pairs)]
            scan = meth in ("integrated_center_of_mass", "gaussian_source_size") or (kind.startswith("DiffractionPatterns") and rng.random() < 0.4)
            case = {"what": "measurement", "call": meth, "kind": kind, "seed": rng.randint(0, 10**6), "lazy": rng.random() < 0.4,
                    "scan": scan and kind.startswith("DiffractionPatterns")}
            out = self.oracle(ctx, case)
            succeeded[("measurement", meth)] = succeeded.get(("measurement", meth), 0) + (out == "ok")
            ctx.count(f"meas:{meth}:{out.split(':')[0]}")
            ctx.case(case, nontrivial=out == "ok")
        never = sorted(f"{w}:{c}" for (w, c), n in succeeded.items() if n == 0)
        if never:  # an entry point that is never exercised successfully is not covered: the check must not pass silently
            raise RuntimeError("entry points never exercised successfully in this run: " + ", ".join(never))

    def replay(self, ctx: Ctx, case):
        self.oracle(ctx, case)


if __name__ == "__main__":
    sys.exit(run_property(C32()))
