"""C26 — Bloch-wave dynamical diffraction conserves intensity (abtem/bloch/dynamical.py)."""
import struct
import sys
import warnings
from fractions import Fraction

import numpy as np

from common import Ctx, LeanDriver, Property, err_kind, list_s, rat_s, run_property

warnings.filterwarnings("ignore")


def bits(x) -> str:
    return str(struct.unpack("<Q", struct.pack("<d", float(x)))[0])


def unbits(s) -> float:
    return struct.unpack("<d", struct.pack("<Q", int(s)))[0]


def triples_s(rows):
    rows = list(rows)
    return ";".join(",".join(str(int(x)) for x in r) for r in rows) if rows else "~"


def crystal(name):
    from ase import Atoms
    from ase.build import bulk

    if name == "Si":
        return bulk("Si", cubic=True)
    if name == "Cu":
        return bulk("Cu", cubic=True)
    if name == "Fe":
        return bulk("Fe", cubic=True)
    if name == "GaAs":
        return bulk("GaAs", crystalstructure="zincblende", a=5.65, cubic=True)
    if name == "SrTiO3":
        a = 3.905
        return Atoms("SrTiO3", scaled_positions=[(0, 0, 0), (.5, .5, .5), (.5, .5, 0), (.5, 0, .5), (0, .5, .5)], cell=[a, a, a], pbc=True)
    if name == "ortho":
        return Atoms("AuCu", scaled_positions=[(0, 0, 0), (.5, .5, .37)], cell=[3.0, 3.6, 4.4], pbc=True)
    if name == "Mg":  # hexagonal close packed (non-orthogonal cell)
        return bulk("Mg")
    if name == "graphite":
        a, c = 2.46, 6.70
        return Atoms("C4", scaled_positions=[(0, 0, 0), (1 / 3, 2 / 3, 0), (0, 0, .5), (2 / 3, 1 / 3, .5)],
                     cell=[[a, 0, 0], [-a / 2, a * np.sqrt(3) / 2, 0], [0, 0, c]], pbc=True)
    if name in ("Ccentred", "Acentred", "Bcentred"):  # base-centred orthorhombic host, two species
        t = {"Ccentred": (.5, .5, 0), "Acentred": (0, .5, .5), "Bcentred": (.5, 0, .5)}[name]
        basis = [(0.0, 0.0, 0.0, "Au"), (0.21, 0.33, 0.4, "Cu")]
        pos = [((x + d[0]) % 1, (y + d[1]) % 1, (z + d[2]) % 1) for d in ((0, 0, 0), t) for x, y, z, _ in basis]
        return Atoms([e for _ in range(2) for *_, e in basis], scaled_positions=pos, cell=[3.4, 3.9, 4.6], pbc=True)
    raise ValueError(name)


def m_reference(hkl, cell, energy):
    """M and g_z recomputed independently of abtem.bloch: g = hkl·(cell⁻¹)ᵀ, M = 1/√(1 + g_z λ)"""
    from abtem.core.energy import energy2wavelength

    gz = (np.asarray(hkl, dtype=float) @ np.linalg.inv(np.asarray(cell, dtype=float)).T)[:, 2]
    return 1.0 / np.sqrt(1.0 + gz * energy2wavelength(energy)), gz


def exceeds(x, tol) -> bool:
    """NaN-safe `x > tol` (NaN counts as exceeding)"""
    return not (float(x) <= tol)


_SF = {}


def bloch(case):
    from abtem.bloch import BlochWaves, StructureFactor

    key = (case["crystal"], case["g_max"], case["sigma"], case.get("precision", "float32"))
    if key not in _SF:
        _SF[key] = StructureFactor(crystal(case["crystal"]), g_max=2 * case["g_max"], thermal_sigma=case["sigma"])
    source = _SF[key]
    if case.get("input") == "array-lazy":
        source = source.build(lazy=True)
    elif case.get("input") == "array-eager":
        source = source.build(lazy=False)
    bw = BlochWaves(source, energy=case["energy"], sg_max=case["sg_max"], g_max=case["g_max"],
                    **({"centering": _SF[key].centering} if case.get("input") else {}))
    rx, ry = case["rot"]
    if rx or ry:
        bw = bw.rotate("x", rx, "y", ry)
    return bw


class C26(Property):
    id = "C26"
    props_file = "AbtemVerif/Props/C26.lean"
    drive_file = "AbtemVerif/Drive/C26.lean"
    trusted = [
        "EIGH: numpy.linalg.eigh returns real eigenvalues v and C with CᴴC = 1, A = C diag(v) Cᴴ (hypothesis `Eigh` of every theorem; "
        "`eigh_exists` shows it is satisfiable for every Hermitian matrix)",
        "EXPM: scipy.linalg.expm computes the matrix exponential (`NormedSpace.exp` in `scatteringMatrix`)",
        "IEEE: complex64/complex128 evaluation; the Float twin `dynScatter` is compared at 1e-11, the exact structure-matrix model at 3e-6 (complex64)",
        "DASK: `map_blocks` calls the block function once with the whole array (lazy = eager is observed by the oracle only)",
        "pandas label lookup / numpy ravel_multi_index semantics as modelled by `retrieve` / `ravelHkl` (tied by correspondence)",
        "hand models `structureMatrix`, `dynScatter` of the control flow around the generated scalar expressions (tied by correspondence)",
    ]
    assumptions = ["no absorption (real potential): the structure matrix is Hermitian, which follows from Friedel symmetry (C27) — theorem "
                   "structure_matrix_isHermitian; observed on the real matrices by the oracle"]
    rule = ("correspondence: random grids/reflection lists (in range, out of range, missing labels) for ravel/structure matrix; random Hermitian "
            "matrices n=2..6 with real cells/energies for the post-eigh arithmetic; conformance: Si, Cu, Fe, GaAs, SrTiO3, orthorhombic AuCu × "
            "energies 60-300 keV × sg_max × small tilts × thickness lists; distinct = distinct case JSON")

    # ------------------------------------------------------------------ correspondence
    def correspondence(self, ctx: Ctx):
        from abtem.bloch.dynamical import (calculate_dynamical_scattering, calculate_M_matrix, calculate_structure_matrix)
        from abtem.bloch.utils import calculate_g_vec, excitation_errors, ravel_hkl
        from abtem.core.constants import kappa
        from abtem.core.energy import energy2sigma, energy2wavelength

        rng, nprng = ctx.rng, ctx.nprng
        lines, todo = [], []

        def ask(line, fn):
            lines.append(line)
            todo.append(fn)

        # A. ravel_hkl ---------------------------------------------------------------------
        for _ in range(ctx.n(60, 1000)):
            gpts = tuple(rng.choice([1, 3, 4, 5, 7]) for _ in range(3))
            spread = rng.choice([0, 0, 1])
            hkl = [[rng.randint(-(gpts[a] // 2) - spread, (gpts[a] - 1) // 2 + spread) for a in range(3)] for _ in range(rng.randint(1, 6))]
            case = dict(kind="ravel", gpts=gpts, hkl=hkl)

            def check(out, case=case):
                try:
                    impl = ["ok"] + [int(x) for x in ravel_hkl(np.array(case["hkl"]), tuple(case["gpts"]))]
                except Exception as e:  # noqa
                    impl = ["err", err_kind(e)]
                t = out.split()
                model = ["err", t[1]] if t[0] == "err" else ["ok"] + [int(x) for x in t[1].split(",")]
                ctx.agree("ravel_hkl", case, model, impl)
                ctx.count(f"ravel:{impl[0]}")
                ctx.case(case, nontrivial=True)

            ask(f"ravel {','.join(map(str, gpts))} {triples_s(hkl)}", check)

        # B. calculate_structure_matrix -------------------------------------------------------
        for _ in range(ctx.n(40, 600)):
            m = [rng.randint(1, 3) for _ in range(3)]
            gpts = tuple(2 * x + 1 for x in m)
            full = [(h, k, l) for h in range(-m[0], m[0] + 1) for k in range(-m[1], m[1] + 1) for l in range(-m[2], m[2] + 1)]
            mode = rng.choice(["ok", "ok", "ok", "missing", "outside"])
            src = list(full)
            if mode == "missing":
                drop = set(rng.sample(full, max(1, len(full) // 3)))
                src = [h for h in full if h not in drop]
            rng.shuffle(src)
            re = nprng.integers(-64, 64, len(src)) / 64.0
            im = nprng.integers(-64, 64, len(src)) / 64.0
            vals = (re + 1j * im).astype(np.complex64)
            half = [max(1, x // 2) if mode != "outside" else x for x in m]
            pool = [(h, k, l) for h in range(-half[0], half[0] + 1) for k in range(-half[1], half[1] + 1) for l in range(-half[2], half[2] + 1)]
            if mode != "outside":  # keep all differences inside the grid
                pool = [p for p in pool if all(abs(p[a]) * 2 <= m[a] for a in range(3))] or [(0, 0, 0)]
            sel = rng.sample(pool, min(len(pool), rng.randint(1, 5)))
            cell = np.diag([rng.choice([3.0, 4.0, 5.5]) for _ in range(3)])
            if rng.random() < 0.5:
                cell = cell + np.array([[0, 0, 0.3], [0, 0, -0.2], [0.1, 0, 0]])
            energy = rng.choice([60e3, 100e3, 200e3, 300e3])
            case = dict(kind="smatrix", gpts=gpts, src=src, vals=[[float(v.real), float(v.imag)] for v in vals], sel=sel,
                        cell=cell.tolist(), energy=energy, mode=mode)
            wl = energy2wavelength(energy)
            pref = energy2sigma(energy) / (kappa * energy2wavelength(energy) * np.pi)
            M = m_reference(np.array(sel), cell, energy)[0]
            sg = excitation_errors(calculate_g_vec(np.array(sel), cell), energy)

            def check(out, case=case, vals=vals, cell=cell):
                try:
                    A = calculate_structure_matrix(vals.copy(), np.array(case["src"]), np.array(case["sel"]), cell, case["energy"], tuple(case["gpts"]))
                    impl = ["ok", np.asarray(A).reshape(-1)]
                except Exception as e:  # noqa
                    impl = ["err", err_kind(e)]
                t = out.split()
                if t[0] == "err" or impl[0] == "err":
                    ctx.agree("calculate_structure_matrix", case, t[:2], [impl[0], impl[1]] if impl[0] == "err" else ["ok", "…"])
                else:
                    model = np.array([complex(float(Fraction(r.split(",")[0])), float(Fraction(r.split(",")[1]))) for r in t[1].split(";")])
                    ok = model.shape == impl[1].shape and bool(np.all(np.abs(impl[1] - model) <= 3e-6 * np.abs(model) + 1e-9))
                    ctx.agree("calculate_structure_matrix", case, [[z.real, z.imag] for z in model.tolist()],
                              [[z.real, z.imag] for z in impl[1].tolist()], ok=ok)
                ctx.count(f"smatrix:{case['mode']}:{impl[0]}:{impl[1] if impl[0] == 'err' else 'n=%d' % len(case['sel'])}")
                ctx.case(case, nontrivial=len(case["sel"]) > 1)

            ask("smatrix {} {} {} {} {} {} {} {}".format(
                ",".join(map(str, gpts)), triples_s(src), ";".join(f"{rat_s(v.real)},{rat_s(v.imag)}" for v in vals), triples_s(sel),
                rat_s(pref), rat_s(wl), list_s(M, rat_s), list_s(sg, rat_s)), check)

        # C. calculate_dynamical_scattering after eigh -------------------------------------------
        for _ in range(ctx.n(40, 600)):
            n = rng.randint(2, 6)
            zolz = rng.random() < 0.4
            pool = [(h, k, l) for h in range(-2, 3) for k in range(-2, 3) for l in ([0] if zolz else range(-1, 2)) if (h, k, l) != (0, 0, 0)]
            hkl = [(0, 0, 0)] + rng.sample(pool, n - 1)
            rng.shuffle(hkl)
            i0 = hkl.index((0, 0, 0))
            cell = np.diag([rng.choice([3.0, 4.0, 5.5]) for _ in range(3)])
            if not zolz and rng.random() < 0.5:
                cell = cell + np.array([[0, 0, 0.4], [0, 0, -0.3], [0.2, 0, 0]])
            energy = rng.choice([20e3, 60e3, 100e3, 300e3])
            X = nprng.normal(size=(n, n)) + 1j * nprng.normal(size=(n, n))
            A = (X + X.conj().T) / 2
            scalar = rng.random() < 0.25
            ts = [rng.choice([0.0, 1.5, 10.0, 37.25, 120.0]) for _ in range(1 if scalar else rng.randint(1, 3))]
            v, C = np.linalg.eigh(A)
            M = m_reference(np.array(hkl), cell, energy)[0]
            wl = energy2wavelength(energy)
            case = dict(kind="dyn", hkl=hkl, cell=cell.tolist(), energy=energy, A=[[[z.real, z.imag] for z in row] for row in A.tolist()],
                        ts=ts, scalar=scalar)

            def check(out, case=case, A=A, cell=cell, ts=ts, scalar=scalar, n=n, M=M):
                impl = np.asarray(calculate_dynamical_scattering(A.copy(), np.array(case["hkl"]), cell, case["energy"], ts[0] if scalar else ts))
                impl = impl.reshape(-1)
                t = out.split()
                model = np.array([complex(unbits(r.split(",")[0]), unbits(r.split(",")[1])) for r in t[1].split(";")])
                ok = model.shape == impl.shape and bool(np.all(np.abs(impl - model) <= 1e-11 * max(1.0, np.abs(model).max())))
                ctx.agree("calculate_dynamical_scattering (post-eigh arithmetic)", case, [[z.real, z.imag] for z in model.tolist()],
                          [[z.real, z.imag] for z in impl.tolist()], ok=ok)
                ctx.count(f"dyn:n={n}:{'scalar' if scalar else 'list'}:{'tilted' if np.abs(M - 1).max() > 1e-12 else 'M=1'}")
                ctx.case(case, nontrivial=True)

            ask("dyn {} {} {} {} {} {} {}".format(
                n, ";".join(f"{bits(z.real)},{bits(z.imag)}" for z in C.reshape(-1)), list_s(v, bits), list_s(M, bits), bits(wl),
                list_s(ts, bits), i0), check)

        # C'. calculate_M_matrix against the Float twin of the generated `mii`/`k0Of`, g_z recomputed here as hkl·(cell⁻¹)ᵀ
        for _ in range(ctx.n(40, 400)):
            cell = np.diag([rng.choice([3.0, 4.0, 5.5]) for _ in range(3)]) + (
                np.array([[0, 0, 0.4], [0.3, 0, -0.3], [0.2, 0.1, 0]]) if rng.random() < 0.6 else 0)
            hkl = [[rng.randint(-3, 3) for _ in range(3)] for _ in range(rng.randint(1, 4))]
            energy = rng.choice([20e3, 60e3, 100e3, 200e3, 300e3])
            gz = (np.array(hkl, dtype=float) @ np.linalg.inv(cell).T)[:, 2]
            wl = energy2wavelength(energy)
            impl_M = np.asarray(calculate_M_matrix(np.array(hkl), cell, energy), dtype=float)
            for j in range(len(hkl)):
                case = dict(kind="mii", hkl=hkl[j], cell=cell.tolist(), energy=energy)

                def check(out, case=case, want=float(impl_M[j])):
                    model = unbits(out.split()[1])
                    ctx.agree("calculate_M_matrix (Float twin, independent g_z)", case, model, want, ok=abs(model - want) <= 1e-13 * abs(want))
                    ctx.count("mii:" + ("gz=0" if case["hkl"][2] == 0 and abs(case["cell"][0][2]) + abs(case["cell"][1][2]) == 0 else "gz≠0"))
                    ctx.case(case)

                ask(f"mii {bits(gz[j])} {bits(wl)}", check)

        # D. eager ensemble assembly, traced: the per-orientation kernel is replaced by a tagging kernel inside this process, the
        #    real loop of BlochwaveEnsemble._calculate_diffraction_intensities runs unchanged
        import types

        import abtem.bloch.dynamical as dyn

        for _ in range(ctx.n(3, 30)):
            case = dict(kind="ens", crystal=rng.choice(["Si", "Cu", "Fe"]), g_max=1.0, sigma=0.0, energy=200e3, sg_max=rng.choice([0.03, 0.06]),
                        rot=[0.0, 0.0], rx=[round(rng.uniform(-0.04, 0.04), 4) for _ in range(rng.randint(1, 3))],
                        ry=[round(rng.uniform(-0.04, 0.04), 4) for _ in range(rng.randint(1, 2))], nt=rng.randint(1, 2))
            ens = bloch(case).rotate("x", np.array(case["rx"]), "y", np.array(case["ry"]))
            mask = ens.get_ensemble_hkl_mask()
            width = int(mask.sum())
            rows, counter = [], [0]

            def fake(self, thicknesses, return_complex=False, lazy=True, rows=rows, counter=counter, mask=mask):
                m = counter[0]
                counter[0] += 1
                n = len(self)
                arr = np.array([[(m + 1) * 4096 + t * 1024 + k for k in range(n)] for t in range(len(thicknesses))], dtype=np.float32)
                pos = np.where(self.hkl_mask[mask])[0].tolist()
                for t in range(len(thicknesses)):
                    rows.append((pos, [int(x) for x in arr[t]]))
                return types.SimpleNamespace(array=arr)

            orig = dyn.BlochWaves.calculate_diffraction_patterns
            dyn.BlochWaves.calculate_diffraction_patterns = fake
            try:
                out = ens._calculate_diffraction_intensities(thicknesses=np.arange(case["nt"], dtype=np.float32), return_complex=False, pbar=False)
            finally:
                dyn.BlochWaves.calculate_diffraction_patterns = orig
            impl = [[int(x) for x in r] for r in np.asarray(out).reshape(-1, width)]

            def check(out_line, case=case, impl=impl):
                t = out_line.split()
                model = [] if t[1] == "~" else [[] if r == "_" else [int(x) for x in r.split(",")] for r in t[1].split(";")]
                ctx.agree("BlochwaveEnsemble eager assembly (traced)", case, model, impl)
                ctx.count(f"ens:members={len(case['rx']) * len(case['ry'])}")
                ctx.case(case, nontrivial=len(case["rx"]) * len(case["ry"]) > 1)

            ask("ens {} {} {}".format(width, ";".join(list_s(p) for p, _ in rows) if rows else "~",
                                      ";".join(list_s(v) for _, v in rows) if rows else "~"), check)

        bad = ["ravel 3,3 0,0,0", "smatrix 3,3,3 0,0,0 1,0 0,0,0 1 1 1", "dyn 2 1,1 1,1 1,1 1 1 5", "nonsense"]
        outs = LeanDriver(self.drive_file).query(lines + bad)
        for fn, out in zip(todo, outs):
            fn(out)
        for b, out in zip(bad, outs[len(lines):]):
            ctx.agree("driver rejects malformed request", b, out, "bad-op")
        ctx.traces += len(lines)

    # ------------------------------------------------------------------ conformance (implementation only)
    def oracle(self, ctx: Ctx, case):
        import abtem

        # float64 runs make the numerical noise (complex64 eigh ≈ 1e-6) small enough to see first-order effects of M ≠ 1
        with abtem.config.set({"precision": case.get("precision", "float32")}):
            self._oracle(ctx, case)

    def _ensemble_oracle(self, ctx: Ctx, case):
        """a BlochwaveEnsemble over orientations: every member equals the individual BlochWaves run, lazy = eager.
        `ry` may be a list (second series) or a number (fixed angle next to the series); `sg_edge` puts sg_max exactly on the
        excitation error of a reflection (inclusive limit in both the member and the ensemble filter)."""
        base = dict(case, rot=[0.0, 0.0])
        ts = case["thicknesses"]
        if case.get("sg_edge"):
            from abtem.bloch.utils import excitation_errors
            from abtem.core.energy import energy2wavelength

            b0 = bloch(dict(base, sg_max=1.0))
            allh = np.asarray(b0.structure_factor.hkl)
            g = allh @ np.linalg.inv(np.asarray(b0.cell)).T
            lam = energy2wavelength(case["energy"])
            sg_member = np.abs(np.asarray(excitation_errors(g, case["energy"])))          # what the single-orientation filter compares
            sg_mask = np.abs(-g[:, 2] - 0.5 * lam * (g ** 2).sum(-1))                      # what the ensemble mask compares (R = identity)
            okc = (np.linalg.norm(g, axis=1) <= case["g_max"]) & (sg_member > 0.02) & (sg_member < 0.3) & (sg_member == sg_mask)
            cand = np.sort(sg_member[okc])
            if len(cand):
                base["sg_max"] = float(cand[len(cand) // 3])
        series_y = isinstance(case["ry"], list)
        ry_arg = np.array(case["ry"]) if series_y else float(case["ry"])
        try:
            ens = bloch(base).rotate("x", np.array(case["rx"]), "y", ry_arg)
            dp = ens.calculate_diffraction_patterns(ts, lazy=False)
            E = np.asarray(dp.array, dtype=float)
            hkl = [tuple(int(x) for x in h) for h in dp.miller_indices]
        except Exception as e:  # noqa
            ctx.violation("bloch-ensemble-call-raises", case, {"error": f"{type(e).__name__}: {e}", "sg_max": base["sg_max"]})
            return
        try:
            L = np.asarray(ens.calculate_diffraction_patterns(ts, lazy=True).compute().array, dtype=float)
            if L.shape != E.shape or exceeds(np.abs(L - E).max(), 1e-5):
                ctx.violation("ensemble-lazy-differs-from-eager", case, {"max diff": float(np.abs(L - E).max()) if L.shape == E.shape else "shape"})
        except Exception as e:  # noqa
            ctx.violation("bloch-ensemble-lazy-call-raises", case, {"error": f"{type(e).__name__}: {e}"})
        worst = 0.0
        for i, rx in enumerate(case["rx"]):
            for j, ry in enumerate(case["ry"] if series_y else [case["ry"]]):
                b1 = bloch(base).rotate("x", float(rx), "y", float(ry))
                I = np.asarray(b1.calculate_diffraction_patterns(ts, lazy=False).array, dtype=float)
                d = {tuple(int(x) for x in h): I[:, k] for k, h in enumerate(b1.hkl)}
                row = E[i, j] if series_y else E[i]
                for k, h in enumerate(hkl):
                    worst = max(worst, float(np.abs(row[:, k] - d.get(h, np.zeros(len(ts)))).max()))
                if not np.isfinite(I).all():
                    worst = float("nan")
        if exceeds(worst, 1e-5):
            ctx.violation("ensemble-member-differs-from-individual-run", case, {"max diff": worst})

    def _oracle(self, ctx: Ctx, case):
        from abtem.bloch.dynamical import calculate_M_matrix

        if case.get("check") == "ensemble":
            return self._ensemble_oracle(ctx, case)
        try:
            bw = bloch(case)
            hkl = bw.hkl
            n = len(hkl)
            if n == 0:
                return
            ts = case["thicknesses"]
            dp = bw.calculate_diffraction_patterns(ts, lazy=False)
            I = np.asarray(dp.array, dtype=float)
        except Exception as e:  # noqa
            ctx.violation("bloch-dynamical-call-raises", case, {"error": f"{type(e).__name__}: {e}"})
            return
        i0 = int(np.where((hkl == 0).all(axis=1))[0][0])
        # M is recomputed here from hkl, cell and energy alone; the code's own calculate_M_matrix must agree with it, and the
        # reference (not the code's value) classifies the case and forms the weighted sum and the bounds
        M, gz = m_reference(hkl, np.asarray(bw.cell), bw.energy)
        M_code = np.asarray(calculate_M_matrix(hkl, bw.cell, bw.energy), dtype=float)
        if exceeds(np.abs(M_code - M).max(), 1e-12):
            ctx.violation("M-matrix-differs-from-1-over-sqrt-1-plus-gz-lambda", case, {"max diff": float(np.abs(M_code - M).max())})
        zone_axis = bool(np.abs(gz).max() < 1e-12)
        tol = 3e-5 if case.get("precision", "float32") == "float32" else 1e-8
        ctx.count("oracle:" + case.get("precision", "float32") + ":" + ("M=1" if zone_axis else "M≠1") + f":n<={10 * (n // 10 + 1)}"
                  + (":" + case["input"] if case.get("input") else ""))
        # structure matrix Hermitian
        A = np.asarray(bw.calculate_structure_matrix(lazy=False))
        if exceeds(np.abs(A - A.conj().T).max(), 2e-6 * max(np.abs(A).max(), 1e-30)):
            ctx.violation("structure-matrix-not-hermitian", case, {"max |A - A^H|": float(np.abs(A - A.conj().T).max())})
        # zero thickness = direct beam
        for k, t in enumerate(ts):
            if t == 0.0:
                e0 = np.zeros(n)
                e0[i0] = 1.0
                if exceeds(np.abs(I[k] - e0).max(), tol / 100):
                    ctx.violation("zero-thickness-not-direct-beam", case, {"max deviation": float(np.abs(I[k] - e0).max())})
        # flux conservation
        w = (I / M ** 2).sum(axis=-1)
        if exceeds(np.abs(w - 1).max(), tol):
            ctx.violation("flux-weighted-intensity-not-conserved", case, {"weighted sums": w.tolist()})
        s = I.sum(axis=-1)
        if zone_axis:
            if exceeds(np.abs(s - 1).max(), tol):
                ctx.violation("intensity-sum-not-one-on-zone-axis", case, {"sums": s.tolist()})
        elif not ((s >= (M ** 2).min() - tol).all() and (s <= (M ** 2).max() + tol).all()):
            ctx.violation("intensity-sum-outside-flux-bounds", case, {"sums": s.tolist(), "M2 range": [float((M ** 2).min()), float((M ** 2).max())]})
        elif exceeds(np.abs(s - 1).max(), tol) and np.abs(w - 1).max() <= tol:
            # recorded deviation from the statement: with g_z ≠ 0 reflections the flux-weighted sum is one (verified just above), the plain
            # sum is not (it stays inside the proved [min M², max M²] bounds, verified above) — see scatter_plain_sum_not_one_counterexample; M is the independent reference
            ctx.violation("plain-intensity-sum-differs-from-one-with-holz-or-tilt", case,
                          {"plain sums": s.tolist(), "flux-weighted sums": w.tolist(), "max |M-1|": float(np.abs(M - 1).max())})
        # reflection selection (filter_reciprocal_space_vectors), recomputed independently
        from abtem.core.energy import energy2wavelength

        allh = np.asarray(bw.structure_factor.hkl)
        gall = allh @ np.linalg.inv(np.asarray(bw.cell)).T
        lam = energy2wavelength(bw.energy)
        sg_all = (-2 * gall[:, 2] - lam * (gall ** 2).sum(-1)) / 2
        hh, kk, ll = allh[:, 0], allh[:, 1], allh[:, 2]
        cent = {"P": np.ones(len(allh), bool), "I": (hh + kk + ll) % 2 == 0, "A": (kk + ll) % 2 == 0, "B": (hh + ll) % 2 == 0,
                "C": (hh + kk) % 2 == 0, "F": ((hh % 2 == kk % 2) & (kk % 2 == ll % 2))}[bw._centering.upper()]  # International Tables
        want = (np.abs(sg_all) <= case["sg_max"]) & (np.linalg.norm(gall, axis=1) <= bw.g_max) & cent
        # only float rounding of the two recomputations is excused at a limit (the limits themselves are inclusive in the code)
        edge = (np.abs(np.abs(sg_all) - case["sg_max"]) < 1e-13) | (np.abs(np.linalg.norm(gall, axis=1) - bw.g_max) < 1e-13)
        got = np.asarray(bw.hkl_mask)
        if ((want != got) & ~edge).any() or not got[(allh == 0).all(axis=1)].all():
            ctx.violation("reflection-selection-differs-from-sg-gmax-centering-rule", case, {"selected": int(got.sum()), "expected": int(want.sum())})
        # lazy = eager
        try:
            L = np.asarray(bw.calculate_diffraction_patterns(ts, lazy=True).compute().array, dtype=float)
            if L.shape != I.shape or exceeds(np.abs(L - I).max(), tol / 10):
                ctx.violation("lazy-differs-from-eager", case, {"max diff": float(np.abs(L - I).max()) if L.shape == I.shape else "shape"})
        except Exception as e:  # noqa
            ctx.violation("bloch-dynamical-lazy-call-raises", case, {"error": f"{type(e).__name__}: {e}"})
        # matrix-exponential path
        if case.get("expm", True) and n <= 150:
            for k, t in enumerate(ts):
                try:
                    S = np.asarray(bw.calculate_scattering_matrix(float(t)))
                except Exception as e:  # noqa
                    ctx.violation("scattering-matrix-call-raises", case, {"error": f"{type(e).__name__}: {e}"})
                    break
                IS = np.abs(S[:, i0]) ** 2
                if exceeds(np.abs(IS - I[k]).max(), tol):
                    ctx.violation("expm-path-differs-from-eig-path", case, {"thickness": t, "max |I_expm - I_eig|": float(np.abs(IS - I[k]).max())})
                    break
        # scalar thickness = first row of the list result
        I1 = np.asarray(bw.calculate_diffraction_patterns(float(ts[-1]), lazy=False).array, dtype=float)
        if I1.shape != (n,) or exceeds(np.abs(I1 - I[-1]).max(), tol / 10):
            ctx.violation("scalar-thickness-differs-from-list", case, {"shape": list(I1.shape)})

    def gen(self, ctx: Ctx):
        rng = ctx.rng
        name = rng.choice(["Si", "Cu", "Fe", "GaAs", "SrTiO3", "ortho", "Mg", "graphite", "Ccentred", "Acentred", "Bcentred"])
        tilt = rng.choice(["none", "none", "small", "large"])
        rot = {"none": [0.0, 0.0], "small": [round(rng.uniform(-0.03, 0.03), 4), round(rng.uniform(-0.03, 0.03), 4)],
               "large": [round(rng.uniform(-0.3, 0.3), 3), round(rng.uniform(-0.3, 0.3), 3)]}[tilt]
        return dict(crystal=name, g_max=rng.choice([1.0, 1.5]), sigma=rng.choice([0.0, 0.08]), energy=rng.choice([60e3, 100e3, 200e3, 300e3]),
                    sg_max=rng.choice([0.05, 0.1, 0.3, 0.6]), rot=rot, precision=rng.choice(["float32", "float64", "float64"]),
                    **({"input": rng.choice(["array-lazy", "array-eager"])} if rng.random() < 0.25 else {}), thicknesses=[0.0, rng.choice([10.0, 55.5]), rng.choice([200.0, 431.0])])

    def conformance(self, ctx: Ctx):
        for _ in range(ctx.n(10, 150)):
            case = self.gen(ctx)
            self.oracle(ctx, case)
            ctx.case(case)
        rng = ctx.rng
        for _i in range(ctx.n(6, 42)):
            case = dict(check="ensemble", crystal=rng.choice(["Si", "Cu", "SrTiO3"]), g_max=1.0, sigma=0.08, energy=rng.choice([100e3, 200e3]),
                        sg_max=rng.choice([0.05, 0.1]), precision="float32", thicknesses=[0.0, rng.choice([40.0, 120.0])],
                        rx=[0.0] + [round(rng.uniform(-0.03, 0.03), 4) for _ in range(rng.randint(1, 2))],
                        ry=[round(rng.uniform(-0.03, 0.03), 4) for _ in range(rng.randint(1, 2))])
            variant = ["fixed-y", "sg-edge", "series", "array-lazy", "array-eager", "series"][_i % 6]  # every variant in every run
            if variant == "fixed-y":
                case["ry"] = round(rng.uniform(-0.03, 0.03), 4)
            elif variant == "sg-edge":
                case["sg_edge"] = True
                case["rx"][0] = 0.0
                case["ry"] = [0.0] + case["ry"][1:]  # member (0, 0) is the unrotated crystal, for which sg_max sits exactly on |s_g|
            elif variant.startswith("array"):
                case["input"] = variant
            self.oracle(ctx, case)
            ctx.count("ensemble:" + variant)
            ctx.case(case)

    def replay(self, ctx: Ctx, case):
        self.oracle(ctx, case)


if __name__ == "__main__":
    sys.exit(run_property(C26()))
