"""C06 — PRISM reduction reproduces conventional multislice probes.

Correspondence: the Lean model of the crop index arithmetic (`wrapped_slices`,
`wrapped_crop_2d`, `minimum_crop`, `batch_crop_2d`) and of the coefficient normalisation
against the real functions.  Conformance (independent of the model): `SMatrix.reduce`
against `Probe.multislice/scan` through the same potential (interpolation 1) and against an
independently cropped window of the full superposition (interpolation > 1).
"""
import sys
from fractions import Fraction

import numpy as np

from common import (Ctx, LeanDriver, Property, dyadic, err_kind, list_s, listlist_s, rat_s, run_property)

ENERGY = 100e3
TOL = 2e-5  # relative (to the max modulus) L-infinity; float32 paths agree to ~5e-7


# --------------------------------------------------------------------------- building blocks
def make_atoms(case):
    import ase

    return ase.Atoms(case["symbols"], positions=case["positions"], cell=case["cell"], pbc=True)


def potentials(case):
    """list of (full potential passed to SMatrix, [single-configuration potentials for the reference])"""
    from abtem import FrozenPhonons, Potential

    if case["potential"] == "none":
        return None, [None]
    atoms = make_atoms(case)
    kw = dict(gpts=tuple(case["gpts"]), slice_thickness=case["cell"][2] / case["nslices"], projection="infinite")
    if case["potential"] == "atoms":
        p = Potential(atoms, **kw)
        return p, [p]
    fp = FrozenPhonons(atoms, case["nconf"], sigmas=0.1, seed=case["fpseed"])
    return Potential(fp, **kw), [Potential(a, **kw) for a in FrozenPhonons(atoms, case["nconf"], sigmas=0.1, seed=case["fpseed"])]


def make_scan(case):
    from abtem import CustomScan, GridScan, LineScan

    s = case["scan"]
    if s["kind"] == "none":       # the default of SMatrix.reduce: one probe at the centre of the cell, positions axis removed
        return None
    if s["kind"] == "position":   # a bare (x, y): one probe, positions axis removed
        return tuple(s["position"])
    if s["kind"] == "custom":
        return CustomScan(np.array(s["positions"], dtype=float))
    if s["kind"] == "grid":
        return GridScan(start=tuple(s["start"]), end=tuple(s["end"]), gpts=tuple(s["gpts"]), endpoint=False)
    return LineScan(start=tuple(s["start"]), end=tuple(s["end"]), gpts=s["gpts"], endpoint=False)


def make_detector(case):
    from abtem import AnnularDetector, PixelatedDetector

    from abtem import FlexibleAnnularDetector, SegmentedDetector

    d = case["detector"]
    if d == "waves":
        return None
    if d == "annular":
        return AnnularDetector(5, 18)
    if d == "flexible":
        return FlexibleAnnularDetector(step_size=2.0, inner=2.0, outer=20.0)
    if d == "segmented":
        return SegmentedDetector(nbins_radial=2, nbins_azimuthal=3, inner=4.0, outer=20.0)
    if d == "multi":
        return [AnnularDetector(5, 18), PixelatedDetector(max_angle=None)]
    return PixelatedDetector(max_angle=None)


def energy(case):
    return case.get("energy", ENERGY)


def smatrix(case, pot):
    from abtem import SMatrix

    kw = dict(potential=pot) if pot is not None else dict(extent=tuple(case["cell"][:2]), gpts=tuple(case["gpts"]))
    if case.get("store_on_host"):
        kw["store_on_host"] = True
    return SMatrix(energy=energy(case), semiangle_cutoff=case["cutoff"], interpolation=tuple(case["interpolation"]),
                   downsample=False, **kw)


def arr(m, lazy):
    if lazy:
        m = m.compute()
    if isinstance(m, (list, tuple)):  # several detectors: one flat vector, in detector order
        return np.concatenate([np.asarray(x.array).reshape(-1) for x in m])
    return np.asarray(m.array)


def rel(a, b):
    a = np.asarray(a)
    b = np.asarray(b)
    if a.shape != b.shape:
        return float("inf")
    s = float(np.abs(b).max()) or 1.0
    d = float(np.abs(a - b).max()) / s
    return d if d == d else float("inf")


# --------------------------------------------------------------------------- generators
def gen_common(ctx: Ctx):
    rng = ctx.rng
    gpts = [rng.choice([12, 16, 20]), rng.choice([12, 16, 20])]
    cell = [dyadic(rng, 3.5, 5.5, 2), dyadic(rng, 3.5, 5.5, 2), dyadic(rng, 2, 4, 1)]
    nat = rng.randint(1, 3)
    case = dict(gpts=gpts, cell=cell, symbols=[rng.choice(["Si", "C", "O", "Au"]) for _ in range(nat)],
                positions=[[dyadic(rng, 0, cell[0] - 0.25, 3), dyadic(rng, 0, cell[1] - 0.25, 3), dyadic(rng, 0.25, cell[2] - 0.25, 3)]
                           for _ in range(nat)],
                nslices=rng.randint(1, 3), cutoff=rng.choice([15, 20, 25]), nconf=2, fpseed=rng.randint(0, 999))
    ab = {}
    kind = rng.choice(["plain", "defocus", "mixed", "mixed"])
    if kind != "plain":
        ab["C10"] = dyadic(rng, -60, 60, 1) or 25.0
    if kind == "mixed":
        ab["C12"] = dyadic(rng, 0, 40, 1)
        ab["phi12"] = dyadic(rng, -1, 1, 3)
        ab["C30"] = float(rng.choice([0, 1e4, -2e4]))
        if rng.random() < 0.5:
            ab["C21"] = dyadic(rng, 0, 200, 0)
            ab["phi21"] = dyadic(rng, -1, 1, 3)
    case["aberrations"] = ab
    return case


def gen_scan(ctx: Ctx, case, outside=False, single=False):
    rng = ctx.rng
    a, b = case["cell"][0], case["cell"][1]
    k = rng.choice(["custom", "custom", "grid", "line"]) if not single else "custom"
    if k == "custom":
        n = 1 if single else rng.randint(1, 3)
        pos = [[dyadic(rng, 0, a - 0.125, 3), dyadic(rng, 0, b - 0.125, 3)] for _ in range(n)]
        if outside:
            pos = [[x + rng.randint(-3, 3) * a, y + rng.randint(-3, 3) * b] for x, y in pos]
        return dict(kind="custom", positions=pos)
    ox = rng.randint(-3, 3) * a if outside else 0.0
    oy = rng.randint(-3, 3) * b if outside else 0.0
    if k == "grid":
        return dict(kind="grid", start=[ox + dyadic(rng, 0, a / 2, 2), oy + dyadic(rng, 0, b / 2, 2)],
                    end=[ox + dyadic(rng, a / 2, a, 2), oy + dyadic(rng, b / 2, b, 2)], gpts=[rng.randint(1, 3), rng.randint(1, 3)])
    return dict(kind="line", start=[ox + dyadic(rng, 0, a / 2, 2), oy + dyadic(rng, 0, b / 2, 2)],
                end=[ox + dyadic(rng, a / 2, a, 2), oy + dyadic(rng, b / 2, b, 2)], gpts=rng.randint(2, 4))


def gen_interp1(ctx: Ctx):
    rng = ctx.rng
    c = gen_common(ctx)
    c.update(oracle="interp1", interpolation=[1, 1], potential=rng.choice(["none", "atoms", "atoms", "fp"]),
             lazy=rng.random() < 0.5, detector=rng.choice(["waves", "waves", "annular", "pixelated", "flexible", "segmented", "multi"]))
    c["nconf"] = rng.randint(2, 3)
    c["energy"] = rng.choice([100e3, 100e3, 60e3, 200e3, 300e3])
    c["store_on_host"] = rng.random() < 0.2
    c["scan"] = gen_scan(ctx, c, outside=rng.random() < 0.2)
    k = rng.random()
    if k < 0.12:
        c["scan"] = dict(kind="none")
    elif k < 0.24:
        c["scan"] = dict(kind="position", position=[dyadic(rng, 0, c["cell"][0] - 0.125, 3), dyadic(rng, 0, c["cell"][1] - 0.125, 3)])
    if c["detector"] != "multi" and rng.random() < 0.25:
        c["ctf_series"] = {"C10": [dyadic(rng, -40, 40, 1) for _ in range(rng.randint(2, 3))]}
    return c


def gen_window(ctx: Ctx):
    rng = ctx.rng
    c = gen_common(ctx)
    if rng.random() < 0.3:  # grids that the interpolation does not divide (window = ceil(n / f) pixels, not one period), odd grids
        c["gpts"] = [rng.choice([13, 14, 15, 18]), rng.choice([13, 14, 17, 18])]
    c["energy"] = rng.choice([100e3, 100e3, 80e3, 200e3])
    c.update(oracle="window", interpolation=rng.choice([[2, 2], [2, 1], [1, 2], [4, 2], [2, 4]]),
             potential=rng.choice(["none", "atoms"]), lazy=rng.random() < 0.4, detector="waves")
    out = rng.random() < 0.5
    c["scan"] = gen_scan(ctx, c, outside=out, single=rng.random() < 0.5)
    c["outside"] = out
    # ensemble axes in front of the position axes: frozen phonons (S-matrix ensemble) and/or a CTF parameter series
    if rng.random() < 0.3:
        c["potential"] = "fp"
    if rng.random() < 0.3:
        c["ctf_series"] = {"C10": [dyadic(rng, -40, 40, 1) for _ in range(rng.randint(2, 3))]}
    return c


# --------------------------------------------------------------------------- oracles (implementation only)
def reference_interp1(case):
    """Probe.multislice / Probe.scan through each single configuration, eagerly (one configuration per call)."""
    from abtem import Probe

    _, singles = potentials(case)
    scan = make_scan(case)
    if case["scan"]["kind"] == "none":  # Probe's own default position differs (origin): give the S-matrix default explicitly
        scan = (case["cell"][0] / 2, case["cell"][1] / 2)
    det = make_detector(case)
    probe = Probe(energy=energy(case), semiangle_cutoff=case["cutoff"], gpts=tuple(case["gpts"]), extent=tuple(case["cell"][:2]),
                  **case["aberrations"])
    series = case.get("ctf_series") or {}
    nser = len(next(iter(series.values()))) if series else 1
    per_member = []
    for j in range(nser):  # one scalar CTF per member of the series: member j of the ensemble == scalar run j
        abj = dict(case["aberrations"])
        abj.update({k: v[j] for k, v in series.items()})
        probe = Probe(energy=energy(case), semiangle_cutoff=case["cutoff"], gpts=tuple(case["gpts"]), extent=tuple(case["cell"][:2]), **abj)
        outs = []
        for p in singles:
            if p is None:
                w = probe.build(scan=scan, lazy=False)
                m = [d.detect(w) for d in det] if isinstance(det, list) else det.detect(w) if det is not None else w
            elif det is None:
                m = probe.multislice(potential=p, scan=scan, lazy=False)
            else:
                m = probe.scan(potential=p, scan=scan, detectors=det, lazy=False)
            outs.append(arr(m, False))
        if case["potential"] != "fp":
            per_member.append(outs[0])
        else:
            per_member.append(np.stack(outs) if det is None else np.mean(outs, axis=0))
    if not series:
        return per_member[0]
    # the CTF axis comes after the frozen-phonon axis (if that axis survives) and before the scan axes
    st = np.stack(per_member)
    return np.moveaxis(st, 0, 1) if (case["potential"] == "fp" and det is None) else st


def key_interp1(case, shape_mismatch):
    if shape_mismatch and case["potential"] == "fp" and case["detector"] == "waves" and not case["lazy"]:
        return "eager-frozen-phonon-exit-waves-averaged"
    return "reduce-ne-probe:%s:%s:%s:%s" % (case["potential"], case["detector"], "lazy" if case["lazy"] else "eager",
                                           "aberrated" if case["aberrations"] else "plain")


def oracle_interp1(ctx: Ctx, case):
    from abtem import CTF

    pot, _ = potentials(case)
    ab = dict(case["aberrations"])
    ab.update({k: np.array(v, dtype=float) for k, v in (case.get("ctf_series") or {}).items()})
    ctf = CTF(semiangle_cutoff=case["cutoff"], energy=energy(case), **ab)
    got = arr(smatrix(case, pot).reduce(scan=make_scan(case), ctf=ctf, detectors=make_detector(case), lazy=case["lazy"]),
              case["lazy"])
    exp = reference_interp1(case)
    d = rel(got, exp)
    if not d <= TOL:
        ctx.violation(key_interp1(case, got.shape != exp.shape), case,
                      {"what": "SMatrix.reduce differs from Probe multislice through the same potential",
                       "rel_linf": d, "shape_reduce": list(got.shape), "shape_probe": list(exp.shape)})
    return d


def expected_windows(case, sa, ctf, scan):
    """independent re-computation: full-size superposition with l2-normalised CTF coefficients and float64 position
    phases, then the wrapped window of `window_gpts` pixels whose corner is rint(position/sampling - window_gpts//2)"""
    k = np.asarray(sa.wave_vectors, dtype=np.float64)
    alpha = np.sqrt(k[:, 0] ** 2 + k[:, 1] ** 2) * ctf.wavelength
    phi = np.arctan2(k[:, 1], k[:, 0])
    a = np.asarray(ctf._evaluate_from_angular_grid(alpha.astype(np.float32), phi.astype(np.float32))).astype(np.complex128)
    a = a / np.linalg.norm(a)
    pos = np.asarray(scan.get_positions(), dtype=np.float64)
    flat = pos.reshape(-1, 2)
    c = np.exp(-2j * np.pi * (flat[:, 0, None] * k[None, :, 0] + flat[:, 1, None] * k[None, :, 1])) * a[None]
    full = np.tensordot(c, np.asarray(sa.array).astype(np.complex128), axes=[-1, -3])
    wg = sa.window_gpts
    n0, n1 = full.shape[-2:]
    out = []
    corners = []
    for q, f in zip(flat, full):
        c0 = np.rint(q / np.asarray(sa.sampling, dtype=np.float64) - np.array([wg[0] // 2, wg[1] // 2])).astype(int)
        ix = (c0[0] + np.arange(wg[0])) % n0
        iy = (c0[1] + np.arange(wg[1])) % n1
        out.append(f[ix][:, iy])
        corners.append(c0)
    return np.array(out).reshape(pos.shape[:-1] + tuple(wg)), np.array(corners)


def near_half(case, sa, scan):
    """a window corner within 1e-3 pixel of a rounding tie is decided by float rounding: not compared"""
    pos = np.asarray(scan.get_positions(), dtype=np.float64).reshape(-1, 2)
    wg = sa.window_gpts
    t = pos / np.asarray(sa.sampling, dtype=np.float64) - np.array([wg[0] // 2, wg[1] // 2])
    return bool((np.abs(np.abs(t - np.floor(t)) - 0.5) < 1e-3).any())


def oracle_window(ctx: Ctx, case):
    from abtem import CTF, Probe

    pot, singles = potentials(case)
    series = case.get("ctf_series") or {}
    ab = dict(case["aberrations"])
    ab.update({k: np.array(v, dtype=float) for k, v in series.items()})
    ctf = CTF(semiangle_cutoff=case["cutoff"], energy=energy(case), **ab)
    scan = make_scan(case)
    sm = smatrix(case, pot)
    sa = sm.build(lazy=False)
    ctf.grid.match(sa.dummy_probes())
    if near_half(case, sa, scan):
        ctx.boundary += 1
        return None
    where = "outside" if case.get("outside") else "inside"
    ensemble = case["potential"] == "fp" or bool(series)
    if ensemble:
        where += ":ensemble"
    try:
        got = arr(sm.build(lazy=case["lazy"]).reduce(scan=scan, ctf=ctf), case["lazy"])
    except Exception as e:  # noqa
        ctx.violation(f"window-crop-raises:{where}-cell", case, {"what": "SMatrixArray.reduce raised", "error": f"{type(e).__name__}: {e}"[:300]})
        return float("inf")
    if ensemble:
        # member (configuration i, CTF j) of the ensemble == the scalar run with configuration i and CTF j
        nser = len(next(iter(series.values()))) if series else 1
        members = []
        for p1 in singles:
            sa1 = smatrix(case, p1).build(lazy=False)
            for j in range(nser):
                abj = dict(case["aberrations"])
                abj.update({k: v[j] for k, v in series.items()})
                ctfj = CTF(semiangle_cutoff=case["cutoff"], energy=energy(case), **abj)
                ctfj.grid.match(sa1.dummy_probes())
                members.append(expected_windows(case, sa1, ctfj, scan)[0])
        lead = ((len(singles),) if case["potential"] == "fp" else ()) + ((nser,) if series else ())
        exp = np.array(members).reshape(lead + members[0].shape)
        corners = None
    else:
        exp, corners = expected_windows(case, sa, ctf, scan)
    d = rel(got, exp)
    if not d <= TOL:
        ctx.violation(f"window-crop-wrong:{where}-cell", case,
                      {"what": "reduced window differs from the wrapped window of the full superposition", "rel_linf": d,
                       "shape_reduce": list(got.shape), "shape_expected": list(exp.shape)})
        return d
    if ensemble:
        return d
    # one position at a time gives the same windows as the batch (the crop of one probe does not depend on the others)
    if scan.shape and int(np.prod(scan.shape)) > 1:
        try:
            one = arr(sa.reduce(scan=scan, ctf=ctf, max_batch_reduction=1), False)
            d1 = rel(one, exp)
        except Exception as e:  # noqa
            d1 = float("inf")
        if not d1 <= TOL:
            ctx.violation(f"window-crop-batch-dependent:{where}-cell", case,
                          {"what": "reducing one position per batch differs from the expected windows", "rel_linf": d1})
            return d1
    # vacuum: the window is the probe of the window-sized cell (same reciprocal lattice points), at the shifted position —
    # only when the interpolation divides the grid: otherwise the window of ceil(n / f) pixels is not one period of the
    # superposition and no cell of whole pixels has the same reciprocal lattice
    divisible = all(n % f == 0 for n, f in zip(sa.gpts, case["interpolation"]))
    if case["potential"] == "none" and divisible:
        wext = sa.window_extent
        flat = np.asarray(scan.get_positions(), dtype=np.float64).reshape(-1, 2)
        probe = Probe(energy=energy(case), semiangle_cutoff=case["cutoff"], gpts=tuple(sa.window_gpts), extent=tuple(wext),
                      **case["aberrations"])
        from abtem import CustomScan

        shifted = flat - corners * np.asarray(sa.sampling, dtype=np.float64)
        ref = np.asarray(probe.build(scan=CustomScan(shifted), lazy=False).array).reshape(exp.shape)
        d2 = rel(got, ref)
        if not d2 <= 5 * TOL:
            ctx.violation("window-ne-window-cell-probe:vacuum", case,
                          {"what": "vacuum reduced window differs from the probe built on the window-sized cell", "rel_linf": d2})
            return d2
    return d


def oracle_exit_planes(ctx: Ctx, case):
    """S-matrix over a potential with several exit planes (thickness series).  On the current tree every mode raises (known
    findings); the key is only emitted after checking independently that (a) the same S-matrix without exit planes reduces
    fine and (b) the exception is the recorded one.  If the call succeeds it is compared with Probe.multislice."""
    from abtem import CTF, Potential, Probe

    atoms = make_atoms(case)
    kw = dict(gpts=tuple(case["gpts"]), slice_thickness=case["cell"][2] / case["nslices"], projection="infinite")
    ctf = CTF(semiangle_cutoff=case["cutoff"], energy=energy(case), **case["aberrations"])
    scan = make_scan(case)
    mode = "lazy" if case["lazy"] else "eager"
    plain = arr(smatrix(case, Potential(atoms, **kw)).reduce(scan=scan, ctf=ctf, lazy=case["lazy"]), case["lazy"])
    pot = Potential(atoms, exit_planes=case["exit_planes"], **kw)
    probe = Probe(energy=energy(case), semiangle_cutoff=case["cutoff"], gpts=tuple(case["gpts"]), extent=tuple(case["cell"][:2]),
                  **case["aberrations"])
    exp = np.asarray(probe.multislice(potential=pot, scan=scan, lazy=False).array)
    try:
        got = arr(smatrix(case, pot).reduce(scan=scan, ctf=ctf, lazy=case["lazy"]), case["lazy"])
    except Exception as e:  # noqa
        msg = f"{type(e).__name__}: {e}"
        recorded = (mode == "eager" and isinstance(e, ValueError) and "could not broadcast input array" in str(e)) or \
                   (mode == "lazy" and isinstance(e, RuntimeError) and "number of array dimensions" in str(e))
        ok_plain = np.isfinite(plain).all() and rel(plain, exp[-1]) <= TOL
        key = f"s-matrix-over-exit-planes-raises:{mode}" if (recorded and ok_plain and exp.shape[0] > 1) else \
            f"s-matrix-over-exit-planes-raises:{mode}:unrecorded:{type(e).__name__}"
        ctx.violation(key, case, {"what": "SMatrix.reduce over a potential with several exit planes raised", "error": msg[:300],
                                  "planes": int(exp.shape[0])})
        return float("inf")
    d = rel(got, exp)
    if not d <= TOL:
        ctx.violation(f"exit-planes-reduce-ne-probe:{mode}", case, {"what": "S-matrix thickness series differs from Probe.multislice", "rel_linf": d,
                                                                   "shapes": [list(got.shape), list(exp.shape)]})
    return d


ORACLES = {"interp1": oracle_interp1, "window": oracle_window, "exit_planes": oracle_exit_planes}


class C06(Property):
    id = "C06"
    props_file = "AbtemVerif/Props/C06.lean"
    drive_file = "AbtemVerif/Drive/C06.lean"
    trusted = [
        "FFT: numpy/pyFFTW fft2/ifft2 form a FourierPair; plane_waves(k)/N is F^-1 delta_k (proved for Mathlib's ZMod.dft, 1-D and 2-D zmodPair2); "
        "the identification of PRISM wave vectors with grid frequencies (frequency <-> index assignment of fftfreq) is validated by the conformance oracle only",
        "pointwise reading of array expressions by the translator: broadcasting, tensordot over the wave-vector axis, moveaxis, dask blocking are covered by "
        "correspondence (K-plane _reduce_to_waves, batch_crop_2d with batch axes) and conformance",
        "Model/Prism.lean is a hand model of numpy semantics (slice clamping, .size == 0 shortcuts, concatenate, np.pad(mode='wrap'), advanced indexing) "
        "around generated integer expressions; Model/PrismEnsemble.lean (eager frozen-phonon loop) and its reference are both hand models tied by row correspondence",
        "the CTF value a_k = aperture * aberration factor at (lambda |k|, atan2(ky, kx)) is taken from CTF._evaluate_from_angular_grid (property C21); "
        "complex_exponential = exp(i x) (C04); Probe.build's order of operations (C05 probeArray, imported)",
        "IEEE float32 evaluation (oracle tolerance 2e-5 of the array maximum); window corners within 1e-3 px of a rounding tie are not compared numerically "
        "(they are compared exactly in unit correspondence: mincrop 'tie' bucket)",
    ]
    assumptions = ["downsample=False (S-matrix downsampling not modelled, not exercised)", "orthogonal cells",
                   "GPU paths and the commented-out rechunk reduction schemes are not exercised"]

    def correspondence(self, ctx: Ctx):
        from abtem.prism.utils import minimum_crop, plane_waves, wrapped_crop_2d, wrapped_slices

        rng = ctx.rng
        drv = LeanDriver(self.drive_file)
        lines, todo = [], []

        def add(line, fn, case, impl):
            lines.append(line)
            todo.append((fn, case, impl))

        # 1. wrapped_slices --------------------------------------------------------------------------
        for _ in range(ctx.n(300, 5000)):
            n = rng.randint(1, 12)
            start = rng.randint(-4 * n, 4 * n)
            size = rng.choice([0, 1, rng.randint(0, n), rng.randint(0, 3 * n)])
            case = dict(fn="wrapped_slices", start=start, stop=start + size, n=n)
            try:
                a, b = wrapped_slices(start, start + size, n)
                ar = np.arange(n)
                impl = ["ok", ar[a].tolist(), ar[b].tolist()]
            except Exception as e:  # noqa
                impl = ["err", err_kind(e)]
            add(f"wslices {start} {start + size} {n}", "wrapped_slices", case, impl)
            ctx.count("wrapped_slices:" + ("raise" if impl[0] == "err" else "wrap" if impl[2] else "plain"))
        # 2. wrapped_crop_2d on an iota array ---------------------------------------------------------
        for _ in range(ctx.n(300, 5000)):
            n0, n1 = rng.randint(1, 7), rng.randint(1, 7)
            c0, c1 = rng.randint(-3 * n0, 3 * n0), rng.randint(-3 * n1, 3 * n1)
            s0 = rng.choice([1, rng.randint(1, n0), rng.randint(1, 3 * n0), 0])
            s1 = rng.choice([1, rng.randint(1, n1), rng.randint(1, 3 * n1), 0])
            case = dict(fn="wrapped_crop_2d", n=[n0, n1], corner=[c0, c1], size=[s0, s1])
            x = np.arange(n0 * n1).reshape(1, n0, n1)
            try:
                r = wrapped_crop_2d(x, (c0, c1), (s0, s1))[0]
                impl = ["ok", r.shape[0] if r.size else 0, r.reshape(-1).tolist()]
            except Exception as e:  # noqa
                impl = ["err", err_kind(e)]
            add(f"wcrop {n0} {n1} {c0} {c1} {s0} {s1}", "wrapped_crop_2d", case, impl)
            ctx.count("wrapped_crop_2d:" + ("empty" if s0 * s1 == 0 else "big" if s0 > n0 or s1 > n1 else "window"))
        # 3. minimum_crop -----------------------------------------------------------------------------
        for _ in range(ctx.n(200, 3000)):
            w = (rng.randint(1, 9), rng.randint(1, 9))
            pos = [[dyadic(rng, -30, 30, rng.choice([0, 1, 1, 3])), dyadic(rng, -30, 30, rng.choice([0, 1, 1, 3]))]
                   for _ in range(rng.randint(1, 4))]
            case = dict(fn="minimum_crop", w=list(w), positions=pos)
            cc, size, corners = minimum_crop(np.array(pos, dtype=np.float64), w)
            impl = ["ok", [int(v) for v in cc], [int(v) for v in size], np.asarray(corners).astype(int).tolist()]
            add(f"mincrop {w[0]} {w[1]} " + listlist_s(pos, rat_s), "minimum_crop", case, impl)
            ctx.count("minimum_crop:" + ("tie" if any((2 * v) % 2 == 1 for p in pos for v in p) else "no-tie"))
        # 4. the real call site: SMatrixArray._reduce_to_waves on an iota plane -----------------------------
        from abtem import SMatrix

        for _ in range(ctx.n(40, 400)):
            f0, f1 = rng.choice([(2, 2), (2, 1), (1, 2), (4, 2), (2, 4), (3, 3)])
            n0, n1 = f0 * rng.randint(2, 5), f1 * rng.randint(2, 5)
            smp = rng.choice([0.25, 0.5, 0.125])
            sm = SMatrix(energy=ENERGY, semiangle_cutoff=20, interpolation=(f0, f1), downsample=False,
                         extent=(n0 * smp, n1 * smp), gpts=(n0, n1))
            sa = sm.build(lazy=False)
            if tuple(sa.gpts) != (n0, n1) or tuple(sa.window_gpts) != (n0 // f0, n1 // f1):
                ctx.count("reduce_to_waves:skipped-grid-adjusted")
                continue
            w = tuple(sa.window_gpts)
            far = rng.random() < 0.5
            pix = [[dyadic(rng, -3 * n0 if far else 0, 4 * n0 if far else n0, rng.choice([0, 1, 2])),
                    dyadic(rng, -3 * n1 if far else 0, 4 * n1 if far else n1, rng.choice([0, 1, 2]))]
                   for _ in range(rng.randint(1, 4))]
            shape = rng.choice(["flat", "grid"]) if len(pix) in (2, 4) else "flat"
            K = len(sa.wave_vectors)
            arr_ = np.zeros((K, n0, n1), dtype=np.complex64)
            arr_[0] = np.arange(n0 * n1).reshape(n0, n1)
            positions = np.array(pix, dtype=np.float64) * smp
            coeff = np.zeros((len(pix), K), dtype=np.complex64)
            coeff[:, 0] = 1
            if shape == "grid":
                positions = positions.reshape(len(pix) // 2, 2, 2)
                coeff = coeff.reshape(len(pix) // 2, 2, K)
            case = dict(fn="_reduce_to_waves", n=[n0, n1], w=list(w), pixel=pix, sampling=smp, shape=shape)
            try:
                r = np.asarray(sa._reduce_to_waves(arr_, positions, coeff))
                r = r.reshape((len(pix),) + w)
                impl = ["ok"] + [np.rint(q.real).astype(int).reshape(-1).tolist() for q in r]
            except Exception as e:  # noqa
                impl = ["err", err_kind(e)]
            add(f"windows {n0} {n1} {w[0]} {w[1]} " + listlist_s(pix, rat_s), "_reduce_to_waves", case, impl)
            for i, p in enumerate(pix):  # the specification used by the theorems, against numpy's own periodic take
                c0 = int(np.rint(p[0] - w[0] // 2)); c1 = int(np.rint(p[1] - w[1] // 2))
                ref = np.arange(n0 * n1).reshape(n0, n1).take(np.arange(c0, c0 + w[0]), axis=0, mode="wrap") \
                    .take(np.arange(c1, c1 + w[1]), axis=1, mode="wrap")
                add(f"expect {n0} {n1} {w[0]} {w[1]} " + listlist_s([p], rat_s), "expectedWindow(spec)", dict(case, i=i),
                    ["ok", ref.reshape(-1).tolist()])
            ctx.count(f"reduce_to_waves:{'far' if far else 'in-cell'}:{shape}:npos={len(pix)}")
        # 4a. batch_crop_2d with leading batch axes (ensemble axes in front of the positions): member (b, p) uses corner p
        from abtem.prism.utils import batch_crop_2d

        for _ in range(ctx.n(40, 400)):
            s0, s1 = rng.randint(2, 7), rng.randint(2, 7)
            w = (rng.randint(1, s0), rng.randint(1, s1))
            B = rng.choice([(), (2,), (3,), (2, 2)])
            P = rng.choice([(1,), (2,), (3,), (2, 2)])
            nP, nB = int(np.prod(P)), int(np.prod(B)) if B else 1
            oob = False  # corners are always inside the block in the pipeline (Props/C06 minimumCrop_spec)
            corners = np.array([[rng.randint(0, s0 - w[0] + (2 if oob else 0)), rng.randint(0, s1 - w[1])] for _ in range(nP)]).reshape(P + (2,))
            base = np.arange(s0 * s1).reshape(s0, s1)
            a = np.stack([base + 1000 * q for q in range(nB * nP)]).reshape(B + P + (s0, s1))
            case = dict(fn="batch_crop_2d", block=[s0, s1], w=list(w), batch=list(B), positions=list(P), corners=corners.reshape(-1, 2).tolist())
            try:
                r = np.asarray(batch_crop_2d(a, corners, w)).reshape((nB * nP,) + w)
                impl = ["ok"] + [(r[q] - 1000 * q).reshape(-1).tolist() for q in range(nB * nP)]
            except Exception as e:  # noqa
                impl = ["err", err_kind(e)]
            for q in range(nB * nP):
                c0, c1 = corners.reshape(-1, 2)[q % nP]
                add(f"bcrop {s0} {s1} {w[0]} {w[1]} {c0} {c1}", "batch_crop_2d", dict(case, member=q),
                    impl if impl[0] == "err" else ["ok", impl[1 + q]])
            ctx.count(f"batch_crop_2d:batch={len(B)}d:pos={len(P)}d:{'oob' if oob else 'in'}")
        # 4b. the same call site with K planes and integer coefficients per position (crop, tensordot, batch crop in the code's order)
        for _ in range(ctx.n(30, 300)):
            f0, f1 = rng.choice([(2, 2), (2, 1), (1, 2), (3, 3)])
            n0, n1 = f0 * rng.randint(2, 4), f1 * rng.randint(2, 4)
            smp = rng.choice([0.25, 0.5])
            sm = SMatrix(energy=ENERGY, semiangle_cutoff=20, interpolation=(f0, f1), downsample=False,
                         extent=(n0 * smp, n1 * smp), gpts=(n0, n1))
            sa = sm.build(lazy=False)
            K = len(sa.wave_vectors)
            if tuple(sa.gpts) != (n0, n1) or tuple(sa.window_gpts) != (n0 // f0, n1 // f1) or K < 2:
                ctx.count("reduce_to_waves(K planes):skipped-grid-adjusted-or-one-plane")
                continue
            w = tuple(sa.window_gpts)
            Kuse = min(K, rng.randint(2, 4))
            npos = rng.choice([1, 2, 3, 4])
            pix = [[dyadic(rng, -2 * n0, 3 * n0, rng.choice([0, 1])), dyadic(rng, -2 * n1, 3 * n1, rng.choice([0, 1]))] for _ in range(npos)]
            cs = [[rng.randint(-3, 3) for _ in range(Kuse)] for _ in range(npos)]
            arr_ = np.zeros((K, n0, n1), dtype=np.complex64)
            for k in range(Kuse):
                arr_[k] = np.arange(n0 * n1).reshape(n0, n1) + 1000 * k
            coeff = np.zeros((npos, K), dtype=np.complex64)
            coeff[:, :Kuse] = np.array(cs)
            positions = np.array(pix, dtype=np.float64) * smp
            shape = "grid" if npos == 4 and rng.random() < 0.5 else "flat"
            if shape == "grid":
                positions = positions.reshape(2, 2, 2); coeff = coeff.reshape(2, 2, K)
            case = dict(fn="_reduce_to_waves(K planes)", n=[n0, n1], w=list(w), pixel=pix, coeffs=cs, shape=shape)
            try:
                r = np.asarray(sa._reduce_to_waves(arr_, positions, coeff)).reshape((npos,) + w)
                impl = ["ok"] + [np.rint(q.real).astype(int).reshape(-1).tolist() for q in r]
            except Exception as e:  # noqa
                impl = ["err", err_kind(e)]
            add(f"reducek {n0} {n1} {w[0]} {w[1]} {Kuse} " + listlist_s(pix, rat_s) + " " + listlist_s(cs), "_reduce_to_waves", case, impl)
            ctx.count(f"reduce_to_waves:K={Kuse}:{shape}:npos={npos}")
        # 5. phases and amplitude (numeric, float32 implementation) ---------------------------------------
        PI = rat_s(float(np.pi))
        phase_jobs = []
        for _ in range(ctx.n(6, 40)):
            n0, n1 = rng.choice([8, 12, 16]), rng.choice([8, 12, 16])
            ext = (dyadic(rng, 3, 6, 2), dyadic(rng, 3, 6, 2))
            f = rng.choice([(1, 1), (2, 2), (2, 1)])
            sm = SMatrix(energy=ENERGY, semiangle_cutoff=20, interpolation=f, downsample=False, extent=ext, gpts=(n0, n1))
            sa = sm.build(lazy=False)
            k = np.asarray(sa.wave_vectors, dtype=np.float64)
            from abtem import CustomScan, GridScan

            gs = GridScan(start=(dyadic(rng, 0, 1, 3), dyadic(rng, 0, 1, 3)), end=(dyadic(rng, 1, 3, 3), dyadic(rng, 1, 3, 3)),
                          gpts=(2, 3), endpoint=False)
            cg = np.asarray(sa._calculate_positions_coefficients(gs))
            xs, ys = np.asarray(gs._x_coordinates(), dtype=np.float64), np.asarray(gs._y_coordinates(), dtype=np.float64)
            cs_pos = np.array([[dyadic(rng, -2, 8, 3), dyadic(rng, -2, 8, 3)] for _ in range(2)])
            cc_ = np.asarray(sa._calculate_positions_coefficients(CustomScan(cs_pos)))
            pw = np.asarray(plane_waves(np.asarray(sa.wave_vectors), sa.extent, sa.gpts))
            xg = np.linspace(0, sa.extent[0], sa.gpts[0], endpoint=False, dtype=np.float32).astype(np.float64)
            yg = np.linspace(0, sa.extent[1], sa.gpts[1], endpoint=False, dtype=np.float32).astype(np.float64)
            for _ in range(6):
                m = rng.randrange(len(k)); i = rng.randrange(2); j = rng.randrange(3)
                phase_jobs.append(("grid", [f"phase gx {PI} {rat_s(xs[i])} {rat_s(k[m, 0])}", f"phase gy {PI} {rat_s(ys[j])} {rat_s(k[m, 1])}"],
                                   complex(cg[i, j, m]), dict(fn="positions_coefficients(grid)", x=xs[i], y=ys[j], k=k[m].tolist())))
                q = rng.randrange(2)
                phase_jobs.append(("custom", [f"phase cu {PI} {rat_s(cs_pos[q, 0])} {rat_s(cs_pos[q, 1])} {rat_s(k[m, 0])} {rat_s(k[m, 1])}"],
                                   complex(cc_[q, m]), dict(fn="positions_coefficients(custom)", pos=cs_pos[q].tolist(), k=k[m].tolist())))
                a, b = rng.randrange(sa.gpts[0]), rng.randrange(sa.gpts[1])
                phase_jobs.append(("pw", [f"phase px {PI} {rat_s(k[m, 0])} {rat_s(xg[a])}", f"phase py {PI} {rat_s(k[m, 1])} {rat_s(yg[b])}"],
                                   complex(pw[m, a, b]), dict(fn="plane_waves", k=k[m].tolist(), x=xg[a], y=yg[b])))
            amp = float(np.abs(np.asarray(sa.array)[0, 0, 0]))
            add(f"amp {f[0] * f[1]} {n0 * n1}", "_build_s_matrix amplitude", dict(fn="amp", interp=list(f), gpts=[n0, n1]), ("num", amp))
        # 6. ensemble bookkeeping of the eager path: rows of the measurement vs per-configuration results -------------
        from abtem import CTF, FrozenPhonons, Potential

        ens_jobs = []
        for t in range(ctx.n(4, 24)):
            c = gen_common(ctx)
            c.update(gpts=[12, 12], nconf=rng.randint(1, 3), interpolation=[1, 1])
            mean = (t % 2 == 0)
            det_kind = ["waves", "annular", "waves", "pixelated"][t % 4]
            c["detector"] = det_kind
            atoms = make_atoms(c)
            kw = dict(gpts=(12, 12), slice_thickness=c["cell"][2] / c["nslices"], projection="infinite")
            mk = lambda: FrozenPhonons(atoms, c["nconf"], sigmas=0.1, seed=c["fpseed"], ensemble_mean=mean)
            ctf = CTF(semiangle_cutoff=c["cutoff"], energy=ENERGY, **c["aberrations"])
            scan = make_scan(dict(scan=dict(kind="custom", positions=[[0.5, 0.75], [1.25, 2.0]])))
            full = np.asarray(smatrix(c, Potential(mk(), **kw)).reduce(scan=scan, ctf=ctf, detectors=make_detector(c), lazy=False).array)
            per = [np.asarray(smatrix(c, Potential(a, **kw)).reduce(scan=scan, ctf=ctf, detectors=make_detector(c), lazy=False).array)
                   for a in mk()]
            flat = lambda a: np.concatenate([np.real(a).reshape(-1), np.imag(a).reshape(-1)]).astype(np.float64)
            rs = [flat(a) for a in per]
            m = len(rs[0])
            rows = full.reshape(-1, per[0].size) if full.size != per[0].size else full.reshape(1, -1)
            impl_rows = [flat(r) for r in rows]
            case = dict(fn="_eager_build_s_matrix_detect", nconf=c["nconf"], ensemble_mean=mean, detector=det_kind,
                        shape_full=list(full.shape), shape_one=list(per[0].shape))
            ens_jobs.append((f"eager {'T' if mean else 'F'} {'T' if det_kind == 'waves' else 'F'} {m} " + listlist_s(rs, rat_s), case, impl_rows))
            ctx.count(f"eager-bookkeeping:{det_kind}:mean={mean}:nconf={c['nconf']}")
        plines = [l for job in phase_jobs for l in job[1]] + [j[0] for j in ens_jobs]
        outs = drv.query(lines + plines)
        k = 0
        for (fn, case, impl), out in zip(todo, outs[:len(lines)]):
            t = out.split()
            if isinstance(impl, tuple) and impl[0] == "num":
                model = float(Fraction(t[1])) if t[0] == "ok" else None
                ctx.agree(fn, case, model, impl[1], ok=model is not None and abs(model - impl[1]) <= 1e-6 * abs(impl[1]))
            elif t[0] == "err":
                ctx.agree(fn, case, ["err", t[1]], impl)
            elif fn == "wrapped_slices":
                from common import parse_list
                ctx.agree(fn, case, ["ok", parse_list(t[1]), parse_list(t[2])], impl)
            elif fn == "wrapped_crop_2d":
                from common import parse_list
                vals = parse_list(t[2])
                ctx.agree(fn, case, ["ok", int(t[1]) if vals else 0, vals], impl)
            elif fn == "minimum_crop":
                from common import parse_listlist
                ctx.agree(fn, case, ["ok", [int(t[1]), int(t[2])], [int(t[3]), int(t[4])], parse_listlist(t[5])], impl)
            elif fn == "_reduce_to_waves":
                from common import parse_list
                ctx.agree(fn, case, ["ok"] + [parse_list(w) for w in t[1].split(";")], impl)
            else:
                from common import parse_list
                ctx.agree(fn, case, ["ok", parse_list(t[1])], impl)
            ctx.case(case, nontrivial=True)
        pouts = outs[len(lines):]
        k = 0
        for kind, pl, val, case in phase_jobs:
            ph = sum(float(Fraction(pouts[k + i].split()[1])) for i in range(len(pl)))
            k += len(pl)
            model = complex(np.cos(ph), np.sin(ph))
            ctx.agree(case["fn"], case, [model.real, model.imag], [val.real, val.imag], ok=abs(model - val) <= 2e-4)
            ctx.case(case, nontrivial=True)
            ctx.count("phase:" + kind)
        for (line, case, impl_rows), out in zip(ens_jobs, pouts[k:]):
            t = out.split()
            model = [[float(Fraction(v)) for v in r.split(",")] for r in t[1].split(";")] if t[0] == "ok" and t[1] != "~" else []
            ok = len(model) == len(impl_rows) and all(
                len(a) == len(b) and float(np.abs(np.array(a) - b).max()) <= 1e-5 * (float(np.abs(b).max()) or 1.0)
                for a, b in zip(model, impl_rows))
            ctx.agree("_eager_build_s_matrix_detect(rows)", case, [len(model)] + [r[:3] for r in model],
                      [len(impl_rows)] + [r[:3].tolist() for r in impl_rows], ok=ok)
            ctx.case(case, nontrivial=True)
        ctx.traces += len(todo) + len(phase_jobs) + len(ens_jobs)

    def conformance(self, ctx: Ctx):
        # every (potential, evaluation mode, detector class) combination at least once, then random extra cases
        combos = [(p, lazy, d) for p in ("none", "atoms", "fp") for lazy in (False, True) for d in ("waves", "measurement")]
        for i in range(ctx.n(24, 200)):
            c = gen_interp1(ctx)
            if i < len(combos):
                c.pop("ctf_series", None)
                p, lazy, d = combos[i]
                c.update(potential=p, lazy=lazy, detector="waves" if d == "waves" else ctx.rng.choice(["annular", "pixelated", "flexible", "segmented", "multi"]))
                if p == "fp" and d != "waves" and not lazy:
                    # measurements without base axes on a custom scan: the un-squeezed ensemble axis of ArrayObject.squeeze lived here
                    a, b = c["cell"][0], c["cell"][1]
                    c["scan"] = dict(kind="custom", positions=[[dyadic(ctx.rng, 0, a - 0.125, 3), dyadic(ctx.rng, 0, b - 0.125, 3)]
                                                               for _ in range(2)])
                    c["detector"] = "annular"
            if len(combos) <= i < len(combos) + 4:  # scan=None / bare position, eager and lazy, waves and a base-axis-free detector
                j = i - len(combos)
                c.pop("ctf_series", None)
                c["scan"] = dict(kind="none") if j % 2 == 0 else dict(kind="position", position=[1.0, 2.0])
                c["lazy"] = j >= 2
                c["detector"] = ["waves", "annular", "annular", "waves"][j]
                c["store_on_host"] = (j == 0)
            self.run_oracle(ctx, c)
        for i in range(ctx.n(2, 12)):  # thickness series through the S-matrix, eager and lazy
            c = gen_interp1(ctx)
            c.pop("ctf_series", None)
            c.update(oracle="exit_planes", potential="atoms", detector="waves", lazy=(i % 2 == 1), nslices=4, exit_planes=2, store_on_host=False,
                     scan=dict(kind="custom", positions=[[0.5, 0.75], [1.25, 2.0]]))
            self.run_oracle(ctx, c)
        for i in range(ctx.n(20, 200)):
            c = gen_window(ctx)
            if i < 4:  # ensemble axes in front of several positions, eager and lazy
                c["scan"] = gen_scan(ctx, c, outside=(i % 2 == 1), single=False)
                c["scan"] = c["scan"] if c["scan"]["kind"] != "custom" or len(c["scan"]["positions"]) > 1 else dict(
                    kind="custom", positions=c["scan"]["positions"] + [[0.5, 0.75]])
                c["outside"] = (i % 2 == 1)
                c["potential"] = "fp" if i < 2 else c["potential"] if c["potential"] != "fp" else "atoms"
                c["ctf_series"] = {"C10": [10.0, -25.0, 30.5]} if i >= 2 else None
                c["lazy"] = (i in (1, 3))
            self.run_oracle(ctx, c)

    def run_oracle(self, ctx: Ctx, c):
        try:
            d = ORACLES[c["oracle"]](ctx, c)
        except Exception as e:  # noqa  — an exception of the implementation is a reported, replayable case, never a silent skip
            import traceback

            tb = traceback.extract_tb(e.__traceback__)
            where = next((f"{fr.filename.split('/')[-1]}:{fr.name}" for fr in reversed(tb) if "/abtem/" in fr.filename), "harness")
            ctx.violation("raises:%s:%s:%s:%s:%s" % (c["oracle"], c["potential"], c["detector"], "lazy" if c["lazy"] else "eager", where), c,
                          {"what": "the implementation raised", "error": f"{type(e).__name__}: {e}"[:300],
                           "frames": [f"{fr.filename.split('/')[-1]}:{fr.lineno}:{fr.name}" for fr in tb[-6:]]})
            d = float("inf")
        ctx.count("%s:%s:%s:interp=%s" % (c["oracle"], c["potential"], "lazy" if c["lazy"] else "eager",
                                          "x".join(map(str, c["interpolation"]))))
        ctx.case(c, nontrivial=bool(c["aberrations"]) or c["potential"] != "none")
        return d

    def replay(self, ctx: Ctx, case):
        ORACLES[case["oracle"]](ctx, case)


if __name__ == "__main__":
    sys.exit(run_property(C06()))
