"""C14 — diffraction pattern geometry: Fourier crop = centred crop, ifftshift, parity, block_direct."""
import sys
from fractions import Fraction
from types import SimpleNamespace

import numpy as np

from common import Ctx, LeanDriver, Property, bool_s, dyadic, err_kind, list_s, opt_s, rat_s, run_property

WL = 2.0 ** -5  # substituted wavelength [Å] for the *correspondence* only (exact arithmetic): 1e3 * WL = 31.25


def _bits(m):
    return "".join("1" if b else "0" for b in m) or "_"


def _flat(a):
    return [int(v) for v in np.asarray(a).reshape(-1)]


def _try(f):
    try:
        return f()
    except Exception as e:  # noqa
        return ["err", err_kind(e)]


class patched:
    """temporarily replace attributes of modules/classes (tracing substitution inside the harness process only)"""

    def __init__(self, *triples):
        self.triples = triples

    def __enter__(self):
        self.old = [(o, n, getattr(o, n)) for o, n, _ in self.triples]
        for o, n, v in self.triples:
            setattr(o, n, v)

    def __exit__(self, *a):
        for o, n, v in self.old:
            setattr(o, n, v)


# ----------------------------------------------------------------------------- correspondence cases
def impl_masks(n1, n2):
    from abtem.core.fft import _fft_interpolation_masks_1d

    m1, m2 = _fft_interpolation_masks_1d(n1, n2)
    return ["ok", _bits(m1), _bits(m2)]


def impl_crop1(c):
    from abtem.core.fft import fft_crop

    return _try(lambda: ["ok"] + _flat(fft_crop(np.array(c["x"], dtype=np.int64), (c["n2"],))))


def impl_crop2(c):
    from abtem.core.fft import fft_crop

    a = np.array(c["x"], dtype=np.int64).reshape(c["nx"], c["ny"])
    if c.get("batch"):
        return _try(lambda: ["ok"] + _flat(fft_crop(np.stack([a + 1000, a]), (c["mx"], c["my"]))[1]))
    return _try(lambda: ["ok"] + _flat(fft_crop(a, (c["mx"], c["my"]))))


def impl_dp(c):
    import abtem.waves as W

    a = np.array(c["x"], dtype=np.int64).reshape(c["nx"], c["ny"])
    with patched((W, "fft2", lambda x, overwrite_x=False: x)):
        return _try(lambda: ["ok"] + _flat(W.Waves._diffraction_pattern(
            a, new_gpts=(c["mx"], c["my"]), return_complex=True, fftshift=c["shift"], normalize=False)))


def impl_cropm(c):
    from abtem.measurements import DiffractionPatterns

    a = np.array(c["x"], dtype=np.int64).reshape(c["nx"], c["ny"])
    return _try(lambda: ["ok"] + _flat(DiffractionPatterns._crop(a, gpts=(c["mx"], c["my"]), fftshift=c["shifted"])))


def impl_parity(c):
    from abtem.waves import _ensure_parity

    return _try(lambda: ["ok", int(_ensure_parity(c["n"], c["even"], c["v"]))])


def impl_pgpts(c):
    from abtem.waves import _ensure_parity_of_gpts

    return _try(lambda: ["ok"] + [int(v) for v in _ensure_parity_of_gpts(tuple(c["new"]), tuple(c["old"]), c["parity"])])


def impl_within(c):
    from abtem.waves import BaseWaves

    stub = SimpleNamespace(angular_sampling=tuple(c.get("s", (1.0, 1.0))), _valid_gpts=tuple(c["old"]),
                           antialias_cutoff_gpts=tuple(c.get("g", (0, 0))), antialias_valid_gpts=tuple(c.get("g", (0, 0))))
    angle = {"full": "full", "none": None, "num": c.get("angle"), "cutoff": "cutoff", "valid": "valid"}[c["sel"]]
    return _try(lambda: ["ok"] + [int(v) for v in BaseWaves._gpts_within_angle(stub, angle, parity=c["parity"])])


def _patterns(c, arr=None):
    import abtem.measurements as M

    if arr is None:
        arr = np.array(c["x"], dtype=np.float64).reshape(c["nx"], c["ny"])
    md = {"energy": 100e3}
    if c.get("semi") is not None:
        md["semiangle_cutoff"] = c["semi"]
    return M.DiffractionPatterns(arr, sampling=(c["sx"], c["sy"]), fftshift=c["shifted"], metadata=md)


def impl_coords(c):
    import abtem.measurements as M

    with patched((M, "energy2wavelength", lambda e: WL)):
        d = _patterns(dict(c, nx=c["n"], ny=c["n"], sx=c["s"], sy=c["s"]), np.zeros((c["n"], c["n"])))
        return ["ok"] + [rat_s(float(v)) for v in d.angular_coordinates[0]]


def impl_radius(c):
    import abtem.measurements as M

    rec = []
    with patched((M, "energy2wavelength", lambda e: WL),
                 (M.DiffractionPatterns, "bandlimit", lambda self, inner, outer=np.inf: rec.append((inner, outer)))):
        d = _patterns(c, np.zeros((c["nx"], c["ny"])))
        d.block_direct(radius=c["radius"], margin=c["margin"])
    return float(rec[0][0]), rec[0][1]


def impl_block(c):
    import abtem.measurements as M

    with patched((M, "energy2wavelength", lambda e: WL)):
        d = _patterns(c)
        return _try(lambda: ["ok"] + [int(round(float(v))) for v in d.block_direct(radius=c["radius"], margin=c["margin"]).array.reshape(-1)])


# ----------------------------------------------------------------------------- conformance on real waves
def make_waves(c):
    import abtem

    rng = np.random.default_rng(c["aseed"])
    shape = tuple(c.get("ens", [])) + tuple(c["gpts"])
    arr = (rng.normal(size=shape) + 1j * rng.normal(size=shape)).astype(np.complex64)
    md = {}
    if c.get("semi") is not None:
        md["semiangle_cutoff"] = c["semi"]
    from abtem.core.axes import OrdinalAxis

    ens = [OrdinalAxis(values=tuple(range(n))) for n in c.get("ens", [])]
    w = abtem.Waves(arr, energy=c["energy"], sampling=tuple(c["sampling"]), ensemble_axes_metadata=ens, metadata=md)
    if c.get("lazy"):
        w = w.ensure_lazy() if hasattr(w, "ensure_lazy") else w
    return w


def centred_resize(full, m):
    """independent statement of the centred crop / zero pad of a centred (fftshift-ed) pattern"""
    n = full.shape[-2:]
    out = np.zeros(full.shape[:-2] + tuple(m), dtype=full.dtype)
    for i in range(m[0]):
        si = i - m[0] // 2 + n[0] // 2
        if not 0 <= si < n[0]:
            continue
        for j in range(m[1]):
            sj = j - m[1] // 2 + n[1] // 2
            if 0 <= sj < n[1]:
                out[..., i, j] = full[..., si, sj]
    return out


def arr_of(m):
    a = m.array
    return np.asarray(a.compute() if hasattr(a, "compute") else a)


class C14(Property):
    id = "C14"
    props_file = "AbtemVerif/Props/C14.lean"
    drive_file = "AbtemVerif/Drive/C14.lean"
    trusted = [
        "NUMPY-INDEXING: boolean-mask assignment `new[mask_out] = array[mask_in]` pairs the selected positions in row-major order; "
        "slice assignment follows Python slice semantics (`FftGeom.sliceBound`); np.fft.fftshift/ifftshift roll by ±n//2 "
        "(all three hand-modelled, tied by exhaustive / random differential correspondence)",
        "FFT: the transform itself is not part of this property (the crop acts on whatever fft2 returned; the harness substitutes "
        "the identity for fft2 in the unit correspondence and uses the real fft2 in the conformance oracle)",
        "IEEE: float32 angular coordinates and `sqrt(ax²+ay²) > r` agree with the exact rational predicate for the dyadic inputs "
        "generated (checked strictly, including pixels exactly on the blocking radius)",
        "energy2wavelength is replaced by the dyadic constant 2^-5 Å in the unit correspondence of coordinates/blocking only "
        "(the conformance oracle uses the real energy relation)",
    ]
    assumptions = ["`antialias_cutoff_gpts` / `antialias_valid_gpts` enter `gptsWithin` as given integers (keyword branch); "
                   "their own formulas are exercised only through the conformance oracle"]
    rule = ("masks: every (n1, n2) in [0..N]²; crops: random integer arrays (1-D ≤ 24, 2-D ≤ 9×9, with batch axis), shapes up and down; "
            "parity/gpts: random ints incl. invalid v/parity strings; coordinates/blocking: random sizes ≤ 9, dyadic samplings and radii, "
            "incl. radii exactly on pixel distances; conformance: random complex waves (gpts 6–20, optional ensemble axis), every "
            "max_angle kind × parity × fftshift; distinct = distinct case JSON; non-trivial = shape actually changes / radius blocks > 1 pixel")

    # ------------------------------------------------------------------ unit correspondence
    def correspondence(self, ctx: Ctx):
        rng = ctx.rng
        drv = LeanDriver(self.drive_file)
        jobs = []  # (name, case, line, impl thunk)

        N = ctx.n(40, 64)
        for n1 in range(N + 1):
            for n2 in range(N + 1):
                jobs.append(("_fft_interpolation_masks_1d", {"n1": n1, "n2": n2}, f"masks {n1} {n2}", lambda a=n1, b=n2: impl_masks(a, b)))
        for _ in range(ctx.n(150, 1500)):
            n1, n2 = rng.randint(0, 24), rng.randint(0, 24)
            if rng.random() < 0.8:
                n1, n2 = max(n1, 1), max(n2, 1)
            c = {"op": "crop1", "x": [rng.randint(-50, 50) for _ in range(n1)], "n2": n2}
            jobs.append(("fft_crop 1-D", c, f"crop1 {n2} {list_s(c['x'])}", lambda c=c: impl_crop1(c)))
        for _ in range(ctx.n(200, 2000)):
            nx, ny, mx, my = (rng.randint(1, 9) for _ in range(4))
            if rng.random() < 0.15:
                mx = nx
            c = {"op": "crop2", "nx": nx, "ny": ny, "mx": mx, "my": my, "x": [rng.randint(-99, 99) for _ in range(nx * ny)],
                 "batch": rng.random() < 0.4}
            jobs.append(("fft_crop 2-D", c, f"crop2 {nx} {ny} {mx} {my} {list_s(c['x'])}", lambda c=c: impl_crop2(c)))
            c2 = dict(c, op="dp", shift=rng.random() < 0.6)
            if rng.random() < 0.2:
                c2["mx"], c2["my"] = nx, ny
            jobs.append(("Waves._diffraction_pattern (fft2 := id)", c2,
                         f"dp {nx} {ny} {c2['mx']} {c2['my']} {bool_s(c2['shift'])} {list_s(c['x'])}", lambda c=c2: impl_dp(c)))
            c4 = dict(c, op="cropm", shifted=rng.random() < 0.5, batch=False)
            jobs.append(("DiffractionPatterns._crop", c4, f"cropm {nx} {ny} {mx} {my} {bool_s(c4['shifted'])} {list_s(c['x'])}",
                         lambda c=c4: impl_cropm(c)))
            c3 = {"op": "unshift", "nx": nx, "ny": ny, "x": c["x"]}
            jobs.append(("ifftshift 2-D", c3, f"unshift {nx} {ny} {list_s(c['x'])}",
                         lambda c=c3: ["ok"] + _flat(np.fft.ifftshift(np.array(c["x"]).reshape(c["nx"], c["ny"]), axes=(-2, -1)))))
        for _ in range(ctx.n(150, 1500)):
            c = {"op": "parity", "n": rng.randint(-5, 40), "even": rng.random() < 0.5, "v": rng.choice([1, 1, 1, -1, -1, 0, 2])}
            jobs.append(("_ensure_parity", c, f"parity {c['n']} {bool_s(c['even'])} {c['v']}", lambda c=c: impl_parity(c)))
            c = {"op": "pgpts", "new": [rng.randint(0, 40), rng.randint(0, 40)], "old": [rng.randint(1, 40), rng.randint(1, 40)],
                 "parity": rng.choice(["same", "odd", "even", "none", "bogus"])}
            jobs.append(("_ensure_parity_of_gpts", c, f"pgpts {c['new'][0]} {c['new'][1]} {c['old'][0]} {c['old'][1]} {c['parity']}",
                         lambda c=c: impl_pgpts(c)))
            sel = rng.choice(["full", "none", "num", "num", "num", "cutoff", "valid"])
            c = {"op": "within", "sel": sel, "old": [rng.randint(1, 40), rng.randint(1, 40)],
                 "parity": rng.choice(["same", "odd", "even", "none", "bogus"])}
            if sel == "num":
                c["s"] = [dyadic(rng, 0.25, 4, 2), dyadic(rng, 0.25, 4, 2)]
                k = rng.randint(0, 12)
                c["angle"] = rng.choice([k * c["s"][0], dyadic(rng, 0, 30, 3), float(rng.randint(0, 30)), -dyadic(rng, 0, 4, 2)])
                tok = f"num:{rat_s(c['angle'])}:{rat_s(c['s'][0])}:{rat_s(c['s'][1])}"
            elif sel in ("cutoff", "valid"):
                c["g"] = [rng.randint(0, 30), rng.randint(0, 30)]
                tok = f"kw:{c['g'][0]}:{c['g'][1]}"
            else:
                tok = "full"
            jobs.append(("BaseWaves._gpts_within_angle", c, f"within {tok} {c['old'][0]} {c['old'][1]} {c['parity']}",
                         lambda c=c: impl_within(c)))
        for _ in range(ctx.n(60, 600)):
            c = {"op": "coords", "n": rng.randint(1, 12), "s": dyadic(rng, 0.0625, 1, 4) or 0.0625, "shifted": rng.random() < 0.5}
            jobs.append(("DiffractionPatterns.angular_coordinates", c,
                         f"coords {c['n']} {rat_s(c['s'] * WL * 1e3)} {bool_s(c['shifted'])}", lambda c=c: impl_coords(c)))
        rad_jobs = []
        for _ in range(ctx.n(150, 1500)):
            nx, ny = rng.randint(1, 9), rng.randint(1, 9)
            sx, sy = (dyadic(rng, 0.0625, 0.5, 4) or 0.0625 for _ in range(2))
            if rng.random() < 0.5:
                sy = sx
            asx, asy = sx * WL * 1e3, sy * WL * 1e3
            kind = rng.choice(["pixel", "pixel", "dyadic", "none", "neg"])
            if kind == "pixel":  # exactly on a pixel distance whenever that distance is rational (3-4-5 triangles, axes)
                i, j = rng.choice([(0, 0), (1, 0), (0, 1), (2, 0), (3, 4), (4, 3), (0, 3)])
                radius = i * asx if j == 0 else j * asy if i == 0 else 5 * asx if sx == sy else i * asx
            elif kind == "dyadic":
                radius = dyadic(rng, 0, 12, 3)
            elif kind == "neg":
                radius = -dyadic(rng, 0.125, 2, 3)
            else:
                radius = None
            c = {"op": "block", "nx": nx, "ny": ny, "sx": sx, "sy": sy, "shifted": rng.random() < 0.5, "radius": radius,
                 "semi": rng.choice([None, None, dyadic(rng, 0, 8, 2)]), "margin": rng.choice([None, None, True, False]),
                 "x": [rng.randint(1, 99) for _ in range(nx * ny)]}
            rad_jobs.append((c, f"radius {opt_s(c['radius'], rat_s)} {opt_s(c['semi'], rat_s)} {opt_s(c['margin'], bool_s)} {rat_s(max(asx, asy))}"))

        outs = drv.query([j[2] for j in jobs] + [l for _, l in rad_jobs])
        for (name, c, line, thunk), out in zip(jobs, outs):
            t = out.split()
            if t[0] == "ok" and name.startswith("_fft_interpolation"):
                model = t
            elif t[0] == "ok" and c.get("op") == "coords":
                model = ["ok"] + ([] if t[1] == "_" else t[1].split(","))
            elif t[0] == "ok":
                model = ["ok"] + ([int(v) for v in t[1].split(",")] if len(t) == 2 and t[1] != "_" else [int(v) for v in t[1:]] if len(t) > 2 else [])
            else:
                model = t
            got = thunk()
            ctx.agree(name, c, model, got)
            ctx.count(f"{name}:{got[0]}")
            nontriv = True
            if "n1" in c:
                nontriv = c["n1"] != c["n2"] and min(c["n1"], c["n2"]) > 0
            ctx.case(c, nontrivial=nontriv)
        # effective radius, then the blocked array with that radius
        block_lines = []
        for (c, _), out in zip(rad_jobs, outs[len(jobs):]):
            r_model = Fraction(out.split()[1])
            r_impl, outer = impl_radius(c)
            exact = c["radius"] is not None or c["semi"] is not None
            ok = (Fraction(r_impl) == r_model) if exact else abs(r_impl - float(r_model)) <= 1e-12 * abs(r_impl)
            ctx.agree("DiffractionPatterns.block_direct effective radius", c, rat_s(r_model), r_impl, ok=ok and outer == np.inf)
            asx, asy = c["sx"] * WL * 1e3, c["sy"] * WL * 1e3
            block_lines.append(f"block {c['nx']} {c['ny']} {rat_s(asx)} {rat_s(asy)} {bool_s(c['shifted'])} {rat_s(r_impl)} {list_s(c['x'])}")
        bouts = drv.query(block_lines)
        for (c, _), out in zip(rad_jobs, bouts):
            t = out.split()
            model = ["ok"] + [int(v) for v in t[1].split(",")]
            got = impl_block(c)
            ctx.agree("DiffractionPatterns.block_direct", c, model, got)
            zeros = sum(1 for v in got[1:] if v == 0) if got[0] == "ok" else -1
            ctx.count(f"block:shifted={c['shifted']}:zeros={'0' if zeros == 0 else '1' if zeros == 1 else 'many'}")
            ctx.case(c, nontrivial=zeros > 1)
        ctx.traces += len(jobs) + len(rad_jobs)

    # ------------------------------------------------------------------ conformance
    def gen_conf(self, ctx: Ctx):
        rng = ctx.rng
        gpts = [rng.randint(6, 20), rng.randint(6, 20)]
        samp = rng.choice([0.1, 0.125, 0.2, 0.25])
        c = {"aseed": rng.randint(0, 10 ** 6), "gpts": gpts, "sampling": [samp, rng.choice([samp, samp, 0.15])],
             "energy": rng.choice([60e3, 100e3, 200e3, 300e3]), "ens": rng.choice([[], [], [2], [2, 2]]),
             "semi": rng.choice([None, None, 10.0, 25.0]), "lazy": rng.random() < 0.3,
             "parity": rng.choice(["odd", "odd", "even", "same", "none"]),
             "max_angle": rng.choice(["cutoff", "valid", "full", "num", "num", "numbig"])}
        c["angle_frac"] = dyadic(rng, 0.125, 1, 3)
        c["block"] = rng.choice(["none", "r", "r", "r_margin", "default", "default_margin", "kwTrue", "kwNpTrue", "kwFloat", "kwNpFloat"])
        c["block_frac"] = dyadic(rng, 0, 0.75, 3)
        return c

    def oracle(self, ctx: Ctx, c):
        w = make_waves(c)
        full = w.diffraction_patterns(max_angle="full", fftshift=True, parity=c["parity"])
        a_full = arr_of(full)
        if a_full.shape[-2:] != tuple(c["gpts"]):
            ctx.violation("full-pattern-shape", c, {"shape": list(a_full.shape)})
            return False
        amax = min(full.max_angles)
        ma = {"num": c["angle_frac"] * amax, "numbig": (1 + c["angle_frac"]) * 1.3 * max(full.max_angles)}.get(c["max_angle"], c["max_angle"])
        try:
            ds = w.diffraction_patterns(max_angle=ma, fftshift=True, parity=c["parity"])
            dn = w.diffraction_patterns(max_angle=ma, fftshift=False, parity=c["parity"])
        except ValueError as e:
            if c["parity"] == "none":
                ctx.violation("parity-none-rejected", c, {"error": str(e)})
                return False
            raise
        a_s, a_n = arr_of(ds), arr_of(dn)
        m = a_s.shape[-2:]
        ok = True
        if hasattr(ds.array, "dask") and hasattr(dn.array, "dask"):
            # lazy patterns that differ only in one option, computed in ONE graph (what ComputableList.compute / abtem.compute do), must be
            # what each gives on its own: dask merges tasks with equal names (round-3 seed C14-r3 named the task without `fftshift`)
            import dask
            j_s, j_n, j_f = dask.compute(ds.array, dn.array, full.array if hasattr(full.array, "dask") else a_full)
            ctx.count("conf-lazy-joint-graph")
            if not (np.array_equal(np.asarray(j_s), a_s) and np.array_equal(np.asarray(j_n), a_n) and np.array_equal(np.asarray(j_f), a_full)):
                ctx.violation("lazy-patterns-computed-in-one-graph-differ", c, {"shifted_equal": bool(np.array_equal(np.asarray(j_s), a_s)),
                                                                              "unshifted_equal": bool(np.array_equal(np.asarray(j_n), a_n))}); ok = False
        # requested parity (angle-limited patterns only)
        if c["max_angle"] != "full" and c["parity"] != "none":
            want = {"odd": (1, 1), "even": (0, 0), "same": (c["gpts"][0] % 2, c["gpts"][1] % 2)}[c["parity"]]
            if (m[0] % 2, m[1] % 2) != want:
                ctx.violation(f"parity-not-as-requested:{c['parity']}", c, {"shape": list(m)}); ok = False
        if c["max_angle"] in ("num", "numbig") and c["parity"] == "none":
            # a numeric limit must be inside the pattern: ceil(angle / sampling) pixels on either side of the centre
            need = [int(2 * np.ceil(ma / s)) + 1 for s in ds.angular_sampling]
            if list(m) != need:
                ctx.violation("numeric-angle-shape", c, {"shape": list(m), "expected": need}); ok = False
        # crop == centred crop / zero pad of the full centred pattern
        exp = centred_resize(a_full, m)
        if not np.array_equal(a_s, exp):
            ctx.violation("crop-not-centred", c, {"shape": list(m), "max_abs_diff": float(np.abs(a_s - exp).max())}); ok = False
        # un-shifted pattern == ifftshift of the shifted one
        if not np.array_equal(a_n, np.fft.ifftshift(a_s, axes=(-2, -1))):
            ctx.violation("unshifted-not-ifftshift", c, {"shape": list(m)}); ok = False
        if ds.fftshift is not True or dn.fftshift is not False:
            ctx.violation("fftshift-flag", c, {}); ok = False
        # DiffractionPatterns.crop (a pattern cropped to a maximum angle / shape after the fact) == the same centred crop
        fulln = w.diffraction_patterns(max_angle="full", fftshift=False, parity=c["parity"])
        for src, shifted in ((full, True), (fulln, False)):
            for how in ("gpts", "max_angle"):
                if how == "gpts":
                    cr = src.crop(gpts=tuple(int(v) for v in m))
                    mm = tuple(int(v) for v in m)
                else:
                    ang = c["angle_frac"] * amax
                    cr = src.crop(max_angle=ang)
                    mm = tuple(int(2 * np.round(ang / s)) + 1 for s in src.angular_sampling)
                ac = arr_of(cr)
                e = centred_resize(a_full, mm)
                if not shifted:
                    e = np.fft.ifftshift(e, axes=(-2, -1))
                if ac.shape != e.shape or not np.array_equal(ac, e) or bool(cr.fftshift) != shifted:
                    ctx.violation(f"crop-method-{'shifted' if shifted else 'unshifted'}-not-centred-crop", c,
                                  {"how": how, "shape": list(ac.shape), "expected_shape": list(e.shape), "flag": bool(cr.fftshift)})
                    ok = False
                ctx.count(f"conf-crop-method:{how}:shifted={shifted}")
        # block_direct
        if c["block"] != "none":
            for d, a, shifted in ((ds, a_s, True), (dn, a_n, False)):
                as_ = d.angular_sampling
                maxs = max(as_)
                semi = c["semi"]
                r_user = c["block_frac"] * min(d.max_angles) if min(d.max_angles) > 0 else 0.5
                kind = c["block"]
                if kind in ("kwFloat", "kwNpFloat") and not r_user > 0:  # `block_direct=0.0` is falsy: nothing is blocked, by the keyword's contract
                    kind = "r"
                if kind in ("r", "r_margin"):
                    mg = kind == "r_margin"
                    b = d.block_direct(radius=r_user, margin=mg)
                    r_eff = r_user + (maxs if mg else 0.0)
                elif kind in ("default", "default_margin", "kwTrue", "kwNpTrue"):
                    mg = True if kind == "default_margin" else None
                    if kind in ("kwTrue", "kwNpTrue"):
                        b = w.diffraction_patterns(max_angle=ma, fftshift=shifted, parity=c["parity"],
                                                   block_direct=True if kind == "kwTrue" else np.True_)
                    else:
                        b = d.block_direct(margin=mg)
                    r_eff = semi if semi is not None else maxs * 1.0001
                    if mg or (mg is None and semi is not None):
                        r_eff += maxs
                else:  # kwFloat
                    b = w.diffraction_patterns(max_angle=ma, fftshift=shifted, parity=c["parity"],
                                               block_direct=float(r_user) if kind == "kwFloat" else np.float32(r_user))
                    if kind == "kwNpFloat":
                        r_user = float(np.float32(r_user))
                    r_eff = r_user + (maxs if semi is not None else 0.0)
                ab = arr_of(b)
                fx = np.fft.fftfreq(m[0]) * m[0]
                fy = np.fft.fftfreq(m[1]) * m[1]
                if shifted:
                    fx, fy = np.fft.fftshift(fx), np.fft.fftshift(fy)
                alpha = np.sqrt((fx * as_[0])[:, None] ** 2 + (fy * as_[1])[None] ** 2)
                near = np.abs(alpha - r_eff) <= 1e-5 * max(r_eff, 1e-9)
                must_zero = (alpha <= r_eff) & ~near
                must_keep = (alpha > r_eff) & ~near
                bad_zero = np.argwhere(must_zero & np.any(ab.reshape((-1,) + tuple(m)) != 0, axis=0))
                bad_keep = np.argwhere(must_keep & np.any((ab != a).reshape((-1,) + tuple(m)), axis=0))
                if len(bad_zero) or len(bad_keep):
                    key = ("block-direct-true-keyword" if kind in ("kwTrue", "kwNpTrue") else
                           "block-direct-shifted-wrong-pixels" if shifted else "block-direct-unshifted-wrong-pixels")
                    ctx.violation(key, c, {"kind": kind, "shape": list(m), "r_eff": float(r_eff), "not_zeroed": bad_zero[:4].tolist(),
                                           "changed_outside": bad_keep[:4].tolist()})
                    ok = False
                ctx.count(f"conf-block:{kind}:shifted={shifted}:zeroed={'>1' if int(must_zero.sum()) > 1 else '<=1'}")
        ctx.count(f"conf:{c['max_angle']}:{c['parity']}:{'pad' if m[0] > c['gpts'][0] or m[1] > c['gpts'][1] else 'crop' if tuple(m) != tuple(c['gpts']) else 'same'}")
        return ok

    def conformance(self, ctx: Ctx):
        for _ in range(ctx.n(120, 2500)):
            c = self.gen_conf(ctx)
            self.oracle(ctx, c)
            ctx.case(c, nontrivial=c["max_angle"] != "full")

    def replay(self, ctx: Ctx, case):
        self.oracle(ctx, case)


if __name__ == "__main__":
    sys.exit(run_property(C14()))
