"""C11 — a potential reused after changing its grid behaves like a fresh one.

Tie between the Lean cache state machine (`Model/Cache.lean`, key = generated `Gen/IntegralsCache`) and the code:
tracing.  The numeric computations behind the caches (`_calculate_scattering_factor`, `_calculate_integral_table`)
and the lookups (`get_scattering_factor`, `get_integral_table`) are wrapped inside this process so that every lookup
of a build reports which computation result it handed out (tag = symbol + grid it was computed for) and whether the
computation ran; the model predicts the same sequence from the op history.  The conformance oracle is model-free:
after every build of a history the reused potential must equal a newly constructed potential with the current grid
(array equality), for infinite and finite projection, also after use in a multislice run.
"""
import sys
import warnings
from contextlib import contextmanager

import numpy as np

from common import (Ctx, LeanDriver, Property, err_kind, rat_s, run_property)

warnings.filterwarnings("ignore")
CELL = 4.0
ELEMENTS = {"C": 6, "O": 8, "Si": 14}


# ------------------------------------------------------------------------------- objects
def make_atoms(case):
    from ase import Atoms

    return Atoms(numbers=[ELEMENTS[s] for s in case["symbols"]], positions=case["positions"], cell=[CELL, CELL, case["height"]], pbc=True)


def make_potential(case, gpts=None):
    import abtem

    kw = dict(slice_thickness=case["st"], projection=case["projection"])
    if gpts is not None:
        kw["gpts"] = tuple(gpts)
    elif case.get("nogrid"):
        pass  # the grid comes from the waves of the first simulation (`grid.match`)
    elif "gpts0" in case:
        kw["gpts"] = tuple(case["gpts0"])
    else:
        kw["sampling"] = tuple(case["sampling0"])
    atoms = make_atoms(case)
    if case.get("phonons"):  # frozen-phonon ensemble (conformance only): eager builds deep-copy the integrator per block
        atoms = abtem.FrozenPhonons(atoms, num_configs=len(case["phonons"]), sigmas=0.05, seed=tuple(case["phonons"]),
                                    directions=case.get("phonon_dirs", "xyz"))
    return abtem.Potential(atoms, **kw)


def apply_op(pot, op):
    if op[0] == "gpts":
        pot.gpts = tuple(op[1])
    elif op[0] == "sampling":
        pot.sampling = tuple(op[1])
    elif op[0] == "match":  # what `validate_potential(potential, waves)` does at the start of a simulation
        import abtem

        pot.grid.match(abtem.PlaneWave(gpts=tuple(op[1]), energy=100e3))
    else:
        raise ValueError(op)


def grid_token(pot):
    return f"{pot.gpts[0]},{pot.gpts[1]},{rat_s(pot.sampling[0])},{rat_s(pot.sampling[1])}"


def requests_of(case):
    """species requested by one build, slice by slice (from a fresh potential's own slicing)"""
    from ase.data import chemical_symbols

    pot = make_potential(case, gpts=(8, 8))
    sa = pot.get_sliced_atoms()
    out = []
    for i in range(len(pot)):
        for number in np.unique(sa.get_atoms_in_slices(i).numbers):
            out.append(chemical_symbols[number])
    return out


# ------------------------------------------------------------------------------- tracing
@contextmanager
def traced():
    """wrap the cache lookups / computations of both integrators; yields the trace list of (tag, miss)"""
    from abtem.integrals import QuadratureProjectionIntegrals as Q
    from abtem.integrals import ScatteringFactorProjectionIntegrals as S

    import hashlib

    trace, registry, computing = [], {}, [0]
    o_sc, o_sg, o_qc, o_qg = S._calculate_scattering_factor, S.get_scattering_factor, Q._calculate_integral_table, Q.get_integral_table

    # results are identified by content: lazy builds run on deep copies of the integrator (and of its caches)
    def fp(r):
        a = r.values if hasattr(r, "values") else r
        return hashlib.sha1(np.ascontiguousarray(a).tobytes() + str(np.asarray(a).shape).encode()).hexdigest()

    def sc(self, symbol, gpts, sampling, device="cpu"):
        r = o_sc(self, symbol, gpts, sampling, device)
        registry[fp(r)] = f"{symbol}@{gpts[0]}x{gpts[1]}@{rat_s(sampling[0])}x{rat_s(sampling[1])}"
        computing[0] += 1
        return r

    def sg(self, symbol, gpts, sampling, device):
        before = computing[0]
        r = o_sg(self, symbol, gpts, sampling, device)
        trace.append((registry.get(fp(r), "?unregistered"), computing[0] > before))
        return r

    def qc(self, symbol, sampling):
        r = o_qc(self, symbol, sampling)
        registry[fp(r)] = f"{symbol}@{rat_s(sampling[0])}x{rat_s(sampling[1])}"
        computing[0] += 1
        return r

    def qg(self, symbol, sampling):
        before = computing[0]
        r = o_qg(self, symbol, sampling)
        trace.append((registry.get(fp(r), "?unregistered"), computing[0] > before))
        return r

    S._calculate_scattering_factor, S.get_scattering_factor, Q._calculate_integral_table, Q.get_integral_table = sc, sg, qc, qg
    try:
        yield trace
    finally:
        S._calculate_scattering_factor, S.get_scattering_factor, Q._calculate_integral_table, Q.get_integral_table = o_sc, o_sg, o_qc, o_qg


def impl_trace(case):
    """run the history on ONE potential object; returns (driver tokens, reply in the driver's wire format)"""
    pot = make_potential(case)
    ops = case["ops"]
    if case.get("nogrid"):
        apply_op(pot, ops[0])
        ops = ops[1:]
    toks = [grid_token(pot)]
    builds = []
    with traced() as trace:
        for op in ops:
            if op[0] == "build":
                del trace[:]
                k = len(case["phonons"]) if case.get("phonons") else None
                # plain atoms: eager runs on the object (`b`), lazy on one deep copy (`c`); ensembles of k configurations: every
                # block works on its own deep copy, eagerly (generate_blocks copies per block) and lazily (the task's one-member
                # potential runs the eager ensemble path again) alike (`e:k`)
                toks.append(f"e:{k}" if k else ("c" if op[1] == "lazy" else "b"))
                try:
                    pot.build(lazy=op[1] == "lazy").compute(progress_bar=False, scheduler="synchronous")
                    builds.append(",".join(f"{t}:{'M' if m else 'H'}" for t, m in trace) or "_")
                except Exception as e:  # noqa
                    builds.append(",".join(f"{t}:{'M' if m else 'H'}" for t, m in trace) + f"!{err_kind(e)}")
            else:
                apply_op(pot, op)
                toks.append("g:" + grid_token(pot))
    return toks, "ok " + (";".join(builds) if builds else "~")


# ------------------------------------------------------------------------------- generators
def gen_case(ctx: Ctx, projection=None, nops=None):
    rng = ctx.rng
    nat = rng.randint(1, 4)
    height = rng.choice([2.0, 3.0, 4.0])
    case = dict(projection=projection or rng.choice(["infinite", "finite"]), height=height, st=rng.choice([1.0, 2.0]),
                symbols=[rng.choice(list(ELEMENTS)) for _ in range(nat)],
                positions=[[rng.randint(0, 15) / 4, rng.randint(0, 15) / 4, rng.randint(1, int(height * 4) - 1) / 4] for _ in range(nat)])
    if rng.random() < 0.7:
        case["gpts0"] = rng.choice([[8, 8], [12, 12], [8, 12], [16, 16], [10, 10]])
    else:
        case["sampling0"] = rng.choice([[0.5, 0.5], [0.25, 0.25], [0.4, 0.4], [0.5, 0.25]])
    ops = []
    for _ in range(nops or rng.randint(2, 6)):
        r = rng.random()
        if r < 0.5:
            ops.append(["build", rng.choice(["eager", "eager", "lazy"])])
        elif r < 0.8:
            ops.append(["gpts", rng.choice([[8, 8], [12, 12], [8, 12], [16, 16], [10, 10], [12, 8]])])
        else:
            ops.append(["sampling", rng.choice([[0.5, 0.5], [0.25, 0.25], [0.4, 0.4], [0.5, 0.25], [1 / 3, 1 / 3]])])
    if not any(o[0] == "build" for o in ops):
        ops.append(["build", "eager"])
    if rng.random() < 0.15:  # potential without a grid of its own: the first simulation's waves define it
        case.pop("gpts0", None)
        case.pop("sampling0", None)
        case["nogrid"] = True
        ops = [["match", rng.choice([[8, 8], [12, 12], [8, 12], [16, 16]])]] + ops
    case["ops"] = ops
    return case


class C11(Property):
    id = "C11"
    props_file = "AbtemVerif/Props/C11.lean"
    drive_file = "AbtemVerif/Drive/C11.lean"
    trusted = [
        "hand model Model/Cache.lean of the try/except-KeyError lookup and of the build's sequence of lookups (tied by tracing); the cache "
        "keys are the generated definitions Gen/IntegralsCache (py2lean, regenerated from abtem/integrals.py on every run)",
        "the computations behind the caches (`_calculate_scattering_factor(symbol, gpts, sampling, device)`, "
        "`_calculate_integral_table(symbol, sampling)`) are deterministic functions of their arguments and of the integrator's immutable "
        "parameters (parametrization, tolerances) and of the global precision setting — changing the configured precision between builds is "
        "outside this property",
        "tracing wrappers of the harness around the four methods (they call the originals and only record)",
    ]
    assumptions = ["Grid setters (gpts/sampling with locked extent) are C17's subject: the grid after a setter is read from the object"]
    rule = ("random histories (2-6 ops: build eager/lazy, set gpts, set sampling, first grid by grid.match; frozen-phonon ensembles in a quarter) on Potential objects over 1-4 atoms of C/O/Si, 1-4 slices, "
            "infinite and finite projection, initial grid by gpts or sampling; distinct = distinct case JSON; non-trivial = a build after "
            "a grid change following an earlier build")

    variant = {"infinite": "sf", "finite": "table"}

    def correspondence(self, ctx: Ctx):
        drv = LeanDriver(self.drive_file)
        lines, checks = [], []
        for i in range(ctx.n(60, 600)):
            c = gen_case(ctx, projection="finite" if i % 3 == 0 else "infinite")
            if i % 4 == 1:  # frozen-phonon ensembles (displacements in the plane, so every configuration asks for the same species)
                c["phonons"] = [ctx.rng.randint(0, 10 ** 6) for _ in range(ctx.rng.randint(1, 3))]
                c["phonon_dirs"] = "xy"
            reqs = requests_of(c)
            toks, got = impl_trace(c)
            v = self.variant[c["projection"]]
            lines.append(" ".join(["run", v, ",".join(reqs) or "_"] + toks))
            checks.append((c, got))
            kinds = [o[0] for o in c["ops"]]
            nontrivial = any(k == "build" for k in kinds) and any(
                kinds[j] != "build" and "build" in kinds[:j] and "build" in kinds[j + 1:] for j in range(len(kinds)))
            ctx.case(c, nontrivial=nontrivial)
            ctx.count(f"{c['projection']}:{'regrid-between-builds' if nontrivial else 'plain'}:{'phonons' if c.get('phonons') else 'atoms'}")
            ctx.traces += 1
        outs = drv.query(lines)
        for (c, got), model in zip(checks, outs):
            name = "get_scattering_factor" if c["projection"] == "infinite" else "get_integral_table"
            ctx.agree(name, c, model, got)

    # ------------------------------------------------------------------ conformance (model-free)
    def oracle(self, ctx: Ctx, case):
        import abtem

        pot = make_potential(case)
        last_change = None
        built_before = False
        # a cache shared between species must not mix them up: the potential of all atoms is the sum of the
        # single-species potentials, each built with its own fresh integrator
        species = sorted(set(case["symbols"]))
        if len(species) > 1 and not case.get("phonons"):  # (random displacements depend on the atom count: no split for phonons)
            g0 = case.get("gpts0") or [8, 8]
            whole = np.asarray(make_potential(case, gpts=g0).build(lazy=False).array)
            parts = 0
            for sp in species:
                idx = [i for i, s in enumerate(case["symbols"]) if s == sp]
                sub = dict(case, symbols=[case["symbols"][i] for i in idx], positions=[case["positions"][i] for i in idx])
                parts = parts + np.asarray(make_potential(sub, gpts=g0).build(lazy=False).array)
            ctx.evaluations += 1
            if not np.allclose(whole, parts, rtol=1e-4, atol=1e-4 * max(1.0, float(np.abs(whole).max()))):
                ctx.violation(f"species-mixed-up-in-cache-{case['projection']}", case,
                              {"maxdiff": float(np.abs(whole - parts).max()), "scale": float(np.abs(whole).max())})
                return
        for k, op in enumerate(case["ops"]):
            if op[0] in ("build", "simulate"):
                fresh = make_potential(case, gpts=pot.gpts)
                detail = {"op_index": k, "gpts": list(pot.gpts), "after": last_change, "built_before": built_before}
                key = f"reuse-after-{last_change or 'nothing'}-change-{case['projection']}"
                try:
                    if op[0] == "build":
                        a = np.asarray(pot.build(lazy=op[1] == "lazy").compute(progress_bar=False).array)
                        b = np.asarray(fresh.build(lazy=False).array)
                    else:
                        wkw = dict(energy=100e3, gpts=tuple(pot.gpts)) if k % 2 else dict(energy=100e3)  # waves with / without own grid
                        a = np.asarray(abtem.PlaneWave(**wkw).multislice(pot, lazy=False).array)
                        b = np.asarray(abtem.PlaneWave(**wkw).multislice(fresh, lazy=False).array)
                except Exception as e:  # noqa
                    ctx.violation(key, case, dict(detail, raised=f"{type(e).__name__}: {str(e)[:200]}"))
                    return
                ctx.evaluations += 1
                if a.shape != b.shape or not np.allclose(a, b, rtol=1e-6, atol=1e-6 * max(1.0, float(np.abs(b).max()))):
                    ctx.violation(key, case, dict(detail, shape=a.shape, fresh_shape=b.shape,
                                                  maxdiff=float(np.abs(a - b).max()) if a.shape == b.shape else None,
                                                  scale=float(np.abs(b).max())))
                    return
                built_before = True
            else:
                apply_op(pot, op)
                if built_before:
                    last_change = op[0]

    DIRECTED = [  # grid changes that keep one component of gpts / sampling (a key that forgets the other one is exposed)
        [["build", "eager"], ["gpts", [8, 12]], ["build", "eager"]],
        [["build", "eager"], ["gpts", [12, 8]], ["build", "eager"]],
        [["build", "eager"], ["sampling", [0.5, 0.25]], ["build", "eager"]],
        [["build", "eager"], ["sampling", [0.25, 0.5]], ["build", "lazy"]],
        [["build", "lazy"], ["gpts", [16, 8]], ["build", "eager"], ["gpts", [8, 16]], ["build", "eager"]],
        [["build", "eager"], ["gpts", [16, 16]], ["build", "eager"], ["gpts", [8, 8]], ["build", "eager"]],   # refine, coarsen
        [["build", "eager"], ["gpts", [16, 16]], ["build", "lazy"], ["gpts", [8, 8]], ["build", "lazy"]],
        [["gpts", [16, 16]], ["build", "eager"], ["gpts", [10, 10]], ["build", "eager"], ["gpts", [12, 12]], ["build", "eager"]],  # coarsen, refine
        [["build", "eager"], ["sampling", [0.25, 0.25]], ["simulate"], ["sampling", [0.5, 0.5]], ["simulate"]],
        [["match", [8, 8]], ["build", "eager"], ["gpts", [12, 12]], ["build", "eager"]],       # grid first set by grid.match(waves)
        [["match", [12, 8]], ["simulate"], ["gpts", [8, 8]], ["simulate"], ["gpts", [16, 16]], ["build", "lazy"]],
    ]

    def oracle_gridless_reuse(self, ctx: Ctx, case):
        """a potential WITHOUT a grid of its own used in two simulations whose waves have different grids: the second result must be
        what a fresh potential gives (recorded finding: it keeps the grid of the first waves and overwrites the second waves' grid)"""
        import abtem

        g1, g2 = tuple(case["g1"]), tuple(case["g2"])
        c = dict(case, nogrid=True)
        pot = make_potential(c)
        abtem.PlaneWave(gpts=g1, energy=100e3).multislice(pot, lazy=False)
        w2 = abtem.PlaneWave(gpts=g2, energy=100e3)
        ctx.evaluations += 1
        try:
            a = np.asarray(w2.multislice(pot, lazy=False).array)
        except Exception as e:  # noqa
            ctx.violation(f"gridless-potential-second-simulation-raises-{case['projection']}", case, {"raised": f"{type(e).__name__}: {str(e)[:160]}"})
            return
        b = np.asarray(abtem.PlaneWave(gpts=g2, energy=100e3).multislice(make_potential(c), lazy=False).array)
        if a.shape != b.shape or not np.allclose(a, b, rtol=1e-5, atol=1e-6):
            # the recorded case, re-derived: the potential still has the first waves' grid and the second waves were regridded to it
            recorded = g1 != g2 and tuple(pot.gpts) == g1 and tuple(w2.gpts) == g1 and a.shape[-2:] == g1
            ctx.violation("gridless-potential-keeps-grid-of-first-waves" if recorded else f"gridless-potential-reuse-differs-{case['projection']}",
                          case, {"second_shape": a.shape, "fresh_shape": b.shape, "potential_gpts": list(pot.gpts), "waves_gpts_after": list(w2.gpts)})

    def conformance(self, ctx: Ctx):
        for k, proj in enumerate(("infinite", "finite", "infinite")):
            c = gen_case(ctx, projection=proj)
            for key in ("gpts0", "sampling0", "nogrid", "phonons"):
                c.pop(key, None)
            c.update(oracle="gridless", g1=ctx.rng.choice([[8, 8], [12, 12]]), g2=ctx.rng.choice([[16, 16], [8, 12], [10, 10]]) if k < 2 else None)
            if c["g2"] is None:
                c["g2"] = c["g1"]  # same grid twice: must simply work
            c["ops"] = []
            self.oracle_gridless_reuse(ctx, c)
            ctx.case(c)
            ctx.count(f"conf:{proj}:gridless-reuse")
        for proj in ("infinite", "finite"):
            for ops in self.DIRECTED:
                c = gen_case(ctx, projection=proj)
                c.pop("sampling0", None)
                c.pop("nogrid", None)
                c["gpts0"] = [8, 8]
                c["ops"] = [list(o) for o in ops]
                if ops[0][0] == "match":
                    c.pop("gpts0")
                    c["nogrid"] = True
                if len(ops) % 2 == 0 and proj == "finite":
                    c["phonons"] = [ctx.rng.randint(0, 10 ** 6) for _ in range(2)]
                self.oracle(ctx, c)
                ctx.case(c)
                ctx.count(f"conf:{proj}:directed")
        for i in range(ctx.n(36, 400)):
            c = gen_case(ctx, projection="finite" if i % 3 == 0 else "infinite")
            if i % 5 == 1:
                c["phonons"] = [ctx.rng.randint(0, 10 ** 6) for _ in range(ctx.rng.randint(1, 3))]
            if i % 4 == 0:  # "or used in a simulation"
                c["ops"] = [["simulate"] if (o[0] == "build" and ctx.rng.random() < 0.5) else o for o in c["ops"]]
            self.oracle(ctx, c)
            ctx.case(c)
            ctx.count(f"conf:{c['projection']}:{'sim' if any(o[0] == 'simulate' for o in c['ops']) else 'build'}:{'phonons' if c.get('phonons') else 'atoms'}")

    def replay(self, ctx: Ctx, case):
        if case.get("oracle") == "gridless":
            self.oracle_gridless_reuse(ctx, case)
        else:
            self.oracle(ctx, case)


if __name__ == "__main__":
    sys.exit(run_property(C11()))
