"""C24 — electron energy relations match relativistic kinematics (abtem/core/energy.py).

Correspondence: the *Float twins* of the generated definitions (`Gen/EnergyF.lean`, same AST as the ℝ definitions the
theorems are about, evaluated at the generated ase.units constants) against the real functions on explicit energies.
Conformance: the property's conclusions observed on the real functions against an independent 60-digit `decimal`
evaluation of the textbook formulas (closed form, positivity, strict monotonicity, sigma, angular sampling, rejection).
"""
import math
import struct
import sys
from decimal import Decimal, getcontext

import numpy as np

from common import Ctx, LeanDriver, Property, err_kind, run_property

getcontext().prec = 60


def bits(x: float) -> int:
    return struct.unpack("<Q", struct.pack("<d", float(x)))[0]


def unbits(n) -> float:
    return struct.unpack("<d", struct.pack("<Q", int(n)))[0]


def fx(x) -> str:
    return float(x).hex()


def ufx(s) -> float:
    return float.fromhex(s) if isinstance(s, str) else float(s)


def ulps(a: float, b: float) -> float:
    if a == b or (a != a and b != b):
        return 0.0
    if a != a or b != b or math.isinf(a) or math.isinf(b):
        return float("inf")
    return abs(a - b) / max(math.ulp(a), math.ulp(b))


def call(fn, *args):
    try:
        return ("ok", fn(*args))
    except Exception as e:  # noqa
        return ("err", err_kind(e))


def consts():
    from ase import units

    return {k: Decimal(float(getattr(units, a))) for k, a in
            dict(h="_hplanck", c="_c", m="_me", e="_e", amu="_amu", kg="kg", C="C", s="s", J="J").items()}


def spec_wavelength(E: float) -> Decimal:
    k = consts()
    eE = k["e"] * Decimal(E)
    return k["h"] * k["c"] / (eE * (eE + 2 * k["m"] * k["c"] ** 2)).sqrt() * Decimal(10) ** 10


PI = Decimal("3.14159265358979323846264338327950288419716939937510582097494")


def spec_sigma(E: float) -> Decimal:
    k = consts()
    M = k["m"] * (1 + k["e"] * Decimal(E) / (k["m"] * k["c"] ** 2))
    return 2 * PI * M * k["e"] * spec_wavelength(E) / k["h"] ** 2 * Decimal(10) ** -20


def rel(a: float, b: Decimal) -> float:
    return float(abs(Decimal(a) - b) / abs(b))


def gen_energy(ctx: Ctx, kind: str) -> float:
    rng = ctx.rng
    if kind == "grid":
        return 10.0 ** rng.choice([i / 8 for i in range(0, 57)])  # 1 eV … 10 MeV, 8 points per decade
    if kind == "random":
        return math.exp(rng.uniform(math.log(1.0), math.log(1e7)))
    if kind == "typical":
        return float(rng.choice([20e3, 30e3, 60e3, 80e3, 100e3, 120e3, 200e3, 300e3, 1e6]))
    if kind == "nonpositive":
        # includes energies below -2 m c^2 / e (about -1.022 MeV), where the radicand E (E + 2mc^2/e) is positive again
        return rng.choice([0.0, -0.0, -1.0, -5e-324, -1e-300, -rng.uniform(0, 1e6), -1e300, float("-inf"),
                           -1.03e6, -rng.uniform(1.022e6, 1e8), -10.0 ** rng.uniform(6, 12)])
    if kind == "extreme":
        return rng.choice([5e-324, 1e-300, 1e-30, 1e-3, 1e12, 1e100, 1e300, float("inf"), float("nan")])
    raise ValueError(kind)


KINDS = ["grid", "grid", "random", "random", "random", "typical", "nonpositive", "extreme"]


class C24(Property):
    id = "C24"
    props_file = "AbtemVerif/Props/C24.lean"
    drive_file = "AbtemVerif/Drive/C24.lean"
    trusted = [
        "py2lean whole-function translation (tools/py2lean_ext.py: guards -> Except, local assignments -> let, raising calls "
        "hoisted in evaluation order, tuple(generator) -> List.map) — the Float twin of every generated definition is executed "
        "against the Python original on every run",
        "IEEE: the theorems are about the real-number reading of the float64 expressions; the Float twin is compared with "
        "Python to <= 4 ulp (observed: bit-exact), the real code is compared with a 60-digit evaluation of the closed forms to 1e-13",
        "ASE: the unit relations J = C = 1/e, kg = 1/amu, s^2 = 1e20 e/amu assumed by `sigma_formula` are checked numerically on the "
        "installed ase (1e-15) by the conformance oracle; constants are read from the installed ase at generation time",
    ]
    assumptions = [
        "float64 rounding is not modelled (real-number semantics); nan/inf energies are outside the theorems (correspondence only)",
        "the numeric type of the argument decides numpy's working precision: a float32 energy gives float32 accuracy (1e-7), a float16 energy "
        "overflows to nan; the statement is read for float64 / Python-float / integer arguments (Accelerator converts with float())",
        "strict monotonicity is a statement over the reals: neighbouring float64 energies (1-10 ulp apart) often give EQUAL wavelengths "
        "(never an increase); the oracle tests relative separations >= 1e-9",
    ]
    rule = ("energies: 1 eV…10 MeV log grid (8/decade), log-uniform random, typical microscope energies, non-positive "
            "(0, -0.0, negative, -inf) and extreme (denormal, 1e300, inf, nan); reciprocal samplings: 1–3 random components; "
            "distinct = distinct (operation, energy bits, samplings); non-trivial = energy finite and non-zero")

    # ------------------------------------------------------------------ correspondence (Float twin vs Python)
    def correspondence(self, ctx: Ctx):
        from abtem.core import energy as en

        drv = LeanDriver(self.drive_file)
        cases = []
        for _ in range(ctx.n(300, 6000)):
            kind = ctx.rng.choice(KINDS)
            E = gen_energy(ctx, kind)
            op = ctx.rng.choice(["gamma", "mass", "wavelength", "wavelength", "sigma", "sigma", "angular"])
            ds = [ctx.rng.choice([ctx.rng.uniform(1e-3, 0.5), 0.0, -ctx.rng.uniform(1e-3, 0.5), 2.0 ** -ctx.rng.randint(1, 8)])
                  for _ in range(ctx.rng.randint(0, 3))] if op == "angular" else None
            cases.append(dict(op=op, kind=kind, E=fx(E), ds=None if ds is None else [fx(d) for d in ds]))
        lines = ["bogus 1", "wavelength", "wavelength x", "angular 1 2 3"]
        for c in cases:
            if c["op"] == "angular":
                lines.append(f"angular {bits(ufx(c['E']))} " + (",".join(str(bits(ufx(d))) for d in c["ds"]) if c["ds"] else "_"))
            else:
                lines.append(f"{c['op']} {bits(ufx(c['E']))}")
        outs = drv.query(lines)
        for o in outs[:4]:
            ctx.agree("driver rejects malformed requests", "malformed", o, "bad-op")
        fns = dict(gamma=en.relativistic_mass_correction, mass=en.energy2mass, wavelength=en.energy2wavelength, sigma=en.energy2sigma)
        for c, o in zip(cases, outs[4:]):
            E = ufx(c["E"])
            with np.errstate(all="ignore"):
                if c["op"] == "angular":
                    got = call(en.reciprocal_space_sampling_to_angular_sampling, tuple(ufx(d) for d in c["ds"]), E)
                    if got[0] == "ok":
                        if not isinstance(got[1], tuple):
                            got = ("ok-not-a-tuple", got[1])
                        got = (got[0], [float(v) for v in got[1]])
                else:
                    got = call(fns[c["op"]], E)
                    if got[0] == "ok":
                        got = ("ok", [float(got[1])])
            t = o.split()
            if t[0] == "ok":
                model = ("ok", [] if t[1] == "_" else [unbits(b) for b in t[1].split(",")])
            else:
                model = (t[0], t[1] if len(t) > 1 else None)
            if model[0] == "ok" and got[0] == "ok":
                ok = len(model[1]) == len(got[1]) and all(ulps(a, b) <= 4 for a, b in zip(model[1], got[1]))
                exact = ok and all(ulps(a, b) == 0 for a, b in zip(model[1], got[1]))
                ctx.count("float-twin:" + ("bit-exact" if exact else "within-4ulp" if ok else "differs"))
            else:
                ok = model == got
            ctx.agree(f"energy.{c['op']} (generated Float twin vs Python)", c, model, got, ok=ok)
            ctx.count(f"{c['op']}:{c['kind']}:{got[0]}")
            ctx.case(c, nontrivial=math.isfinite(E) and E != 0)
        ctx.traces += len(cases)

    # ------------------------------------------------------------------ conformance (independent of the Lean model)
    def oracle(self, ctx: Ctx, c):
        from abtem.core import energy as en

        chk = c["check"]
        E = ufx(c["E"]) if "E" in c else None
        if chk == "closed-forms":
            lam = call(en.energy2wavelength, E)
            sig = call(en.energy2sigma, E)
            if lam[0] != "ok" or not (lam[1] > 0) or not isinstance(lam[1], float):
                return ctx.violation("positive-energy-wavelength-not-positive-float", c, {"observed": repr(lam)})
            if not (rel(lam[1], spec_wavelength(E)) <= 1e-13):
                return ctx.violation("wavelength-differs-from-hc-over-sqrt", c, {"observed": lam[1], "expected": str(spec_wavelength(E))})
            if sig[0] != "ok" or not (sig[1] > 0):
                return ctx.violation("positive-energy-sigma-not-positive", c, {"observed": repr(sig)})
            if not (rel(sig[1], spec_sigma(E)) <= 1e-13):
                return ctx.violation("sigma-differs-from-2pi-m-e-lambda-over-h2", c, {"observed": sig[1], "expected": str(spec_sigma(E))})
            # relativistic mass: M c^2 = m c^2 + e E ; energy-momentum relation with p = h / lambda
            k = consts()
            M = Decimal(float(en.energy2mass(E)))
            if abs(M * k["c"] ** 2 - (k["m"] * k["c"] ** 2 + k["e"] * Decimal(E))) / (M * k["c"] ** 2) > Decimal("1e-14"):
                return ctx.violation("mass-energy-relation", c, {"observed": str(M)})
            g = Decimal(float(en.relativistic_mass_correction(E)))
            if abs(g * k["m"] - M) / M > Decimal("1e-15"):
                return ctx.violation("mass-is-not-gamma-times-rest-mass", c, {"gamma": str(g), "mass": str(M)})
            p = k["h"] / (Decimal(lam[1]) * Decimal(10) ** -10)
            lhs = (p * k["c"]) ** 2 + (k["m"] * k["c"] ** 2) ** 2
            if abs(lhs - (M * k["c"] ** 2) ** 2) / lhs > Decimal("1e-12"):
                return ctx.violation("energy-momentum-relation", c, {"lhs": str(lhs), "rhs": str((M * k['c'] ** 2) ** 2)})
            # argument types: the same number passed as int / numpy scalar gives the same result; a float32 argument makes numpy
            # evaluate in float32 (working precision follows the argument, IEEE assumption) and is held to float32 accuracy only
            for conv, tol_t in ((np.float64, 1e-13), (int, 1e-13), (np.int64, 1e-13), (np.float32, 1e-6)):
                Ec = conv(E)
                if float(Ec) != E:
                    continue
                with np.errstate(all="ignore"):
                    lt, st = en.energy2wavelength(Ec), en.energy2sigma(Ec)
                    at = en.reciprocal_space_sampling_to_angular_sampling((conv(1) if conv is not int else 1, 0.25), Ec)
                if not (rel(float(lt), spec_wavelength(E)) <= tol_t) or not (rel(float(st), spec_sigma(E)) <= tol_t) or not (
                        rel(float(at[1]), spec_wavelength(E) * 250) <= tol_t):
                    return ctx.violation(f"closed-forms-differ-for-{conv.__name__}-energy", c,
                                         {"wavelength": float(lt), "sigma": float(st), "expected_wavelength": str(spec_wavelength(E))})
            # the Accelerator front end gives the same numbers
            acc = en.Accelerator(energy=E)
            if acc.wavelength != lam[1] or acc.sigma != sig[1]:
                return ctx.violation("accelerator-differs-from-helpers", c, {"wavelength": acc.wavelength, "sigma": acc.sigma})
        elif chk == "monotone":
            E2 = E * (1 + ufx(c["delta"]))
            l1, l2 = en.energy2wavelength(E), en.energy2wavelength(E2)
            if not (l2 < l1):
                return ctx.violation("wavelength-not-strictly-decreasing", c, {"E1": E, "E2": E2, "lambda1": l1, "lambda2": l2})
        elif chk == "rejected":
            ds = (0.1, 0.2)
            for name, f in (("energy2wavelength", lambda: en.energy2wavelength(E)), ("energy2sigma", lambda: en.energy2sigma(E)),
                            ("angular_sampling", lambda: en.reciprocal_space_sampling_to_angular_sampling(ds, E)),
                            ("Accelerator.wavelength", lambda: en.Accelerator(energy=E).wavelength),
                            ("Accelerator.sigma", lambda: en.Accelerator(energy=E).sigma)):
                with np.errstate(all="ignore"):
                    r = call(f)
                if r != ("err", "value_error"):
                    return ctx.violation(f"nonpositive-energy-not-rejected-by-{name}", c, {"observed": repr(r)})
            for conv in (int, np.float32, np.float64, np.int64):
                try:
                    Ec = conv(E)
                except (OverflowError, ValueError):
                    continue
                if Ec <= 0 and call(en.energy2wavelength, Ec) != ("err", "value_error"):
                    return ctx.violation("nonpositive-energy-not-rejected-by-energy2wavelength", c, {"type": conv.__name__})
        elif chk == "angular":
            ds = tuple(ufx(d) for d in c["ds"])
            r = call(en.reciprocal_space_sampling_to_angular_sampling, ds, E)
            lam = spec_wavelength(E)
            if r[0] != "ok" or not isinstance(r[1], tuple) or len(r[1]) != len(ds):
                return ctx.violation("angular-sampling-shape", c, {"observed": repr(r)})
            for d, a in zip(ds, r[1]):
                exp = Decimal(d) * lam * 1000
                if abs(Decimal(float(a)) - exp) > abs(exp) * Decimal("1e-13"):
                    return ctx.violation("angular-sampling-differs-from-d-lambda-1e3", c, {"d": d, "observed": a, "expected": str(exp)})
        elif chk == "ase-units":
            from ase import units as u

            bad = []
            if u.J != 1 / u._e or u.C != 1 / u._e:
                bad.append("J,C != 1/e")
            if not (abs(u.kg * u._amu - 1) <= 1e-15):
                bad.append("kg != 1/amu")
            if not (abs(u.s ** 2 / (1e20 * u._e / u._amu) - 1) <= 1e-14):
                bad.append("s^2 != 1e20 e/amu")
            if bad:
                return ctx.violation("ase-unit-relations", c, {"failed": bad})
        else:
            raise ValueError(f"unknown check {chk}")

    def conformance(self, ctx: Ctx):
        cases = [dict(check="ase-units")]
        for i in range(0, 57):  # the full 1 eV … 10 MeV grid, every run
            cases.append(dict(check="closed-forms", E=fx(10.0 ** (i / 8))))
        for _ in range(ctx.n(150, 4000)):
            cases.append(dict(check="closed-forms", E=fx(gen_energy(ctx, ctx.rng.choice(["random", "typical"])))))
        for _ in range(ctx.n(150, 4000)):
            cases.append(dict(check="monotone", E=fx(gen_energy(ctx, "random")), delta=fx(10.0 ** ctx.rng.uniform(-9, 0.5))))
        for E in [0.0, -0.0, -1.0, -5e-324, -1e-300, -1e300, float("-inf"), -1.0219e6, -1.0220e6, -1.03e6, -2e6, -1e7, -1e9]:
            cases.append(dict(check="rejected", E=fx(E)))
        for _ in range(ctx.n(30, 500)):
            cases.append(dict(check="rejected", E=fx(-math.exp(ctx.rng.uniform(-20, 20)))))
        for _ in range(ctx.n(60, 2000)):
            cases.append(dict(check="angular", E=fx(gen_energy(ctx, "random")),
                              ds=[fx(ctx.rng.choice([ctx.rng.uniform(1e-4, 1.0), 0.0])) for _ in range(ctx.rng.randint(1, 3))]))
        for c in cases:
            self.oracle(ctx, c)
            ctx.count("conformance:" + c["check"])
            ctx.case(c, nontrivial=c["check"] != "ase-units")

    def replay(self, ctx: Ctx, case):
        if "check" in case:
            self.oracle(ctx, case)
        else:  # a correspondence case: re-run the closest oracle
            E = ufx(case["E"])
            self.oracle(ctx, dict(check="closed-forms" if E > 0 else "rejected", E=case["E"]))


if __name__ == "__main__":
    sys.exit(run_property(C24()))
