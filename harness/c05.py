"""C05 — built probes and plane waves are normalized.

correspondence: Float twins (Drive/C05.lean over Model/Probe.lean, generated formulas of abtem/waves.py,
abtem/transfer.py, abtem/core/fft.py) vs. the real `soft_aperture` / `hard_aperture` / `Aperture`, `fft_shift_kernel`,
`Waves.normalize`, `PlaneWave.build`, and the whole reciprocal-space array of `Probe.build` (kernel · aperture ·
aberrations, normalised), pixel by pixel.

conformance (independent of the Lean model): Σ|fft2(array)|² = 1 for every member of really built probes (soft/hard
apertures, cutoffs incl. tiny and "inf", aberration sets and distributions, tilts incl. distributions, position lists and
scans, lazy and eager, float32/float64), unit reciprocal intensity / unit modulus of built plane waves.
"""
import sys

import numpy as np

from c04 import bf, fb, parse_c, precision
from c04 import gt, nan_selftest
from common import Ctx, LeanDriver, Property, err_kind, run_property


def parse_cs(line):
    t = line.split()
    if t[0] != "ok":
        return " ".join(t)
    v = [bf(x) for x in t[1].split(",")] if t[1] != "_" else []
    return np.array(v[0::2]) + 1j * np.array(v[1::2])


def recip_intensity(arr):
    a = np.asarray(arr, dtype=np.complex128)
    return (np.abs(np.fft.fft2(a, axes=(-2, -1))) ** 2).sum(axis=(-2, -1))


ABERR = ["C10", "C12", "C21", "C23", "C30", "C32", "C34", "C41", "C50"]
ANGLE = {"C12": "phi12", "C21": "phi21", "C23": "phi23", "C32": "phi32", "C34": "phi34", "C41": "phi41"}
SCALE = {"C10": 200.0, "C12": 100.0, "C21": 2e3, "C23": 2e3, "C30": 1e6, "C32": 1e5, "C34": 1e5, "C41": 1e6, "C50": 1e8}


def rand_aberrations(rng, allow_dist=False):
    out = {}
    for name in rng.sample(ABERR, rng.randint(0, 4)):
        out[name] = round(rng.uniform(-1, 1) * SCALE[name], 3)
        if name in ANGLE:
            out[ANGLE[name]] = round(rng.uniform(-3, 3), 3)
    dist = None
    if allow_dist and rng.random() < 0.5:
        if rng.random() < 0.5:
            dist = ("C10", [round(rng.uniform(-300, 300), 2) for _ in range(rng.randint(2, 3))])
        else:  # weighted (Gaussian quadrature) distribution: members carry weights w_i != 1
            dist = (rng.choice(["C10", "C30"]), {"gaussian": [round(rng.uniform(5, 80), 2), rng.randint(2, 4), round(rng.uniform(-50, 50), 2)]})
    return out, dist


def gen_probe_case(ctx: Ctx):
    rng = ctx.rng
    gpts = [rng.randint(4, 16), rng.randint(4, 16)]
    sampling = [round(rng.uniform(0.05, 0.4), 3), round(rng.uniform(0.05, 0.4), 3)]
    if rng.random() < 0.3:
        sampling[1] = sampling[0]
    aberr, dist = rand_aberrations(rng, allow_dist=True)
    cutoff = rng.choice([rng.choice([5.0, 10.0, 20.0, 30.0]), round(rng.uniform(0.5, 60.0), 2), 0.01, 0.0, "inf"])
    cutoff_dist = None
    if cutoff != "inf" and rng.random() < 0.25:
        cutoff_dist = [round(rng.uniform(2, 40), 2) for _ in range(2)]
    tilt = rng.choice([[0.0, 0.0], [round(rng.uniform(-30, 30), 2), round(rng.uniform(-30, 30), 2)], "dist"])
    if tilt == "dist":
        tilt = {"x": [round(rng.uniform(-20, 20), 2) for _ in range(2)], "y": round(rng.uniform(-20, 20), 2)}
    ext = (gpts[0] * sampling[0], gpts[1] * sampling[1])
    pos_kind = rng.choice(["none", "list", "list", "grid", "line"])
    positions = None
    if pos_kind == "list":
        positions = [[round(rng.uniform(-0.5, 1.5) * ext[0], 3), round(rng.uniform(-0.5, 1.5) * ext[1], 3)] for _ in range(rng.randint(1, 3))]
    return dict(kind="probe", gpts=gpts, sampling=sampling, energy=float(rng.choice([60e3, 100e3, 200e3, 300e3])),
                cutoff=cutoff, cutoff_dist=cutoff_dist, soft=rng.random() < 0.6, aberrations=aberr, aberration_dist=dist,
                tilt=tilt, pos_kind=pos_kind, positions=positions, lazy=rng.random() < 0.4, max_batch=rng.choice([1, 1, 2, "auto"]),
                precision=rng.choice(["float64", "float32"]))


def build_probe(case):
    import abtem
    from abtem.distributions import from_values

    cutoff = np.inf if case["cutoff"] == "inf" else case["cutoff"]
    if case.get("cutoff_dist"):
        cutoff = from_values(case["cutoff_dist"])
    ab = dict(case["aberrations"])
    if case.get("aberration_dist"):
        spec = case["aberration_dist"][1]
        if isinstance(spec, dict):
            from abtem.distributions import gaussian

            sd, ns, center = spec["gaussian"]
            scale = 1.0 if case["aberration_dist"][0] == "C10" else 1e3
            ab[case["aberration_dist"][0]] = gaussian(standard_deviation=sd * scale, num_samples=ns, center=center * scale)
        else:
            ab[case["aberration_dist"][0]] = from_values(spec)
    tilt = case["tilt"]
    if isinstance(tilt, dict):
        tilt = (from_values(tilt["x"]), tilt["y"])
    else:
        tilt = tuple(tilt)
    probe = abtem.Probe(semiangle_cutoff=cutoff, gpts=tuple(case["gpts"]), sampling=tuple(case["sampling"]), energy=case["energy"],
                        soft=case["soft"], tilt=tilt, aberrations=ab)
    ext = probe.extent
    scan = None
    if case["pos_kind"] == "list":
        scan = np.array(case["positions"], dtype=float)
    elif case["pos_kind"] == "grid":
        scan = abtem.GridScan(start=(0, 0), end=(ext[0] * 0.6, ext[1] * 0.6), gpts=(2, 3))
    elif case["pos_kind"] == "line":
        scan = abtem.LineScan(start=(0.1, 0.2), end=(ext[0] * 0.9, ext[1] * 0.7), gpts=3)
    waves = probe.build(scan=scan, lazy=case["lazy"], max_batch=case.get("max_batch", "auto"))
    if case["lazy"]:
        case["_numblocks"] = int(np.prod(waves.array.numblocks))
    if case["lazy"]:
        waves = waves.compute()
    return waves


class C05(Property):
    id = "C05"
    props_file = "AbtemVerif/Props/C05.lean"
    drive_file = "AbtemVerif/Drive/C05.lean"
    trusted = [
        "FFT: fft2/ifft2 form an inverse pair with Parseval (fields of `FourierPair`)",
        "IEEE: float32/float64 evaluation stays within tolerance of the real formulas",
        "interpreter of the GENERATED operation order of Probe._calculate_array (Props/C05.lean `runOps`, Model/Probe.lean `probeSpectrumF`: what each "
        "known call does to the array is hand-written, unknown calls are rejected), tied by correspondence of the whole "
        "reciprocal-space array; the aberration function chi is an arbitrary real function in the theorems (its polynomial is C21)",
        "ensemble plumbing (one normalisation per member over the last two axes, lazy blocks) is exercised by conformance only",
    ]
    assumptions = ["FFT (inverse pair + Parseval)", "IEEE rounding within tolerance", "at least one pixel passes the aperture "
                   "(proved for the zero-angle pixel of soft apertures and of hard apertures with cutoff >= 0)"]
    rule = ("correspondence: random grids 4..14 px, random samplings/energies/cutoffs/positions/aberrations, every pixel; "
            "conformance: really built probes and plane waves (see module docstring); distinct = distinct case JSON")

    # ------------------------------------------------------------------ correspondence
    def correspondence(self, ctx: Ctx):
        import abtem
        from abtem.core.fft import fft_shift_kernel
        from abtem.transfer import Aberrations, Aperture, hard_aperture, soft_aperture
        from abtem.waves import Waves

        rng = ctx.rng
        drv = LeanDriver(self.drive_file)
        lines, checks = [], []

        def add(name, case, reqs, impl, tol, listy=False):
            checks.append((name, case, len(lines), len(reqs), impl, tol, listy))
            lines.extend(reqs)

        for _ in range(ctx.n(10, 80)):
            prec = rng.choice(["float64", "float64", "float32"])
            dt = np.float64 if prec == "float64" else np.float32
            tol = 1e-9 if prec == "float64" else 2e-4
            gpts = (rng.randint(3, 10), rng.randint(3, 10))
            sampling = (round(rng.uniform(0.05, 0.4), 3), round(rng.uniform(0.05, 0.4), 3))
            energy = rng.choice([60e3, 100e3, 200e3, 300e3])
            cutoff = rng.choice([5.0, 10.0, 20.0, round(rng.uniform(0.5, 60.0), 2), 0.0])
            soft = rng.random() < 0.6
            pix = [(i, j) for i in range(gpts[0]) for j in range(gpts[1])]
            with precision(prec):
                ap = Aperture(semiangle_cutoff=cutoff, soft=soft, energy=energy, gpts=gpts, sampling=sampling)
                alpha, phi = ap._angular_grid("cpu")
                s0, s1 = ap.angular_sampling
                # the functions themselves (cutoff in rad, angular sampling in mrad as the code passes them)
                c_rad = float(np.asarray(cutoff * 1e-3, dtype=dt))
                s0r, s1r = [float(x) for x in (np.asarray((s0, s1), dtype=dt) * 1e-3)]
                if soft:
                    a = np.asarray(soft_aperture(alpha.copy(), phi.copy(), cutoff * 1e-3, (s0, s1)), dtype=np.float64)
                else:
                    a = np.asarray(hard_aperture(alpha, cutoff * 1e-3), dtype=np.float64)
                a2 = np.asarray(ap._evaluate_from_angular_grid(alpha.copy(), phi.copy()), dtype=np.float64)
                case = dict(gpts=gpts, sampling=sampling, energy=energy, cutoff=cutoff, soft=soft, precision=prec)
                reqs = [f"aperture {'T' if soft else 'F'} {'T' if (i, j) == (0, 0) else 'F'} {fb(c_rad)} {fb(alpha[i, j])} {fb(phi[i, j])} {fb(s0r)} {fb(s1r)}"
                        for i, j in pix]
                add("soft_aperture/hard_aperture", case, reqs, [a[i, j] for i, j in pix], 1e-9 if prec == "float64" else 5e-3)
                ctx.agree("Aperture._evaluate_from_angular_grid == soft/hard_aperture", case, a2.tolist(), a.tolist())
                # semiangle_cutoff = inf
                ainf = np.asarray(Aperture(semiangle_cutoff=np.inf, soft=soft, energy=energy, gpts=gpts, sampling=sampling)
                                  ._evaluate_from_angular_grid(alpha, phi), dtype=np.float64)
                add("Aperture(inf)", case, [f"aperture {'T' if soft else 'F'} F none {fb(alpha[1, 1])} {fb(phi[1, 1])} {fb(s0r)} {fb(s1r)}"],
                    [ainf[1, 1]], 0)
                # shift kernel
                pos = np.array([rng.uniform(-3, gpts[0] + 3), rng.uniform(-3, gpts[1] + 3)]).astype(dt)
                kern = np.asarray(fft_shift_kernel(pos[None], gpts), dtype=np.complex128)[0]
                kx = np.fft.fftfreq(gpts[0], 1.0).astype(dt).astype(np.float64)
                ky = np.fft.fftfreq(gpts[1], 1.0).astype(dt).astype(np.float64)
                add("fft_shift_kernel", dict(gpts=gpts, pos=pos.tolist(), precision=prec),
                    [f"kernel {fb(kx[i])} {fb(ky[j])} {fb(pos[0])} {fb(pos[1])}" for i, j in pix], [kern[i, j] for i, j in pix], tol * 20)
                # normalisation of a reciprocal-space array
                y = (ctx.nprng.normal(size=gpts) + 1j * ctx.nprng.normal(size=gpts)) * rng.choice([1e-3, 1.0, 50.0])
                y = y.astype(np.complex128 if prec == "float64" else np.complex64)
                wn = Waves(y.copy(), energy=energy, sampling=sampling, reciprocal_space=True).normalize()
                flat = np.asarray(y, dtype=np.complex128).reshape(-1)
                add("Waves.normalize (reciprocal space)", dict(gpts=gpts, precision=prec),
                    ["normalize " + ",".join(f"{fb(z.real)},{fb(z.imag)}" for z in flat)],
                    [np.asarray(wn.array, dtype=np.complex128).reshape(-1)], tol, listy=True)
                # plane wave
                pw = abtem.PlaneWave(gpts=gpts, sampling=sampling, energy=energy, normalize=True).build(lazy=False)
                add("PlaneWave(normalize=True) value", dict(gpts=gpts, precision=prec), [f"planewave {fb(gpts[0] * gpts[1])}"],
                    [complex(np.asarray(pw.array)[gpts[0] // 2, gpts[1] // 3])], 1e-12 if prec == "float64" else 1e-7)
                ctx.agree("PlaneWave array is constant", dict(gpts=gpts), bool(np.all(np.asarray(pw.array) == np.asarray(pw.array)[0, 0])), True)
                # the whole probe spectrum
                aberr, _ = rand_aberrations(rng)
                posA = [round(rng.uniform(-0.5, 1.5) * gpts[0] * sampling[0], 3), round(rng.uniform(-0.5, 1.5) * gpts[1] * sampling[1], 3)]
                probe = abtem.Probe(semiangle_cutoff=cutoff, gpts=gpts, sampling=sampling, energy=energy, soft=soft, aberrations=aberr,
                                    tilt=(round(rng.uniform(-20, 20), 1), 0.0))
                pcase = dict(case, aberrations=aberr, position=posA)
                try:
                    arr = np.asarray(probe.build(scan=np.array([posA]), lazy=False).array, dtype=np.complex128).reshape(gpts)
                    spec = np.fft.fft2(arr)
                    chi = -np.angle(np.asarray(Aberrations(energy=energy, **aberr)._evaluate_from_angular_grid(alpha, phi), dtype=np.complex128))
                    ppix = (np.array(posA) / np.array(sampling)).astype(dt)
                    px = ",".join(f"{fb(kx[i])},{fb(ky[j])},{fb(alpha[i, j])},{fb(phi[i, j])},{fb(chi[i, j])},{fb(1.0 if (i, j) == (0, 0) else 0.0)}"
                                  for i, j in pix)
                    add("Probe.build reciprocal-space array", pcase,
                        [f"probe {'T' if soft else 'F'} {fb(c_rad)} {fb(s0r)} {fb(s1r)} {fb(ppix[0])} {fb(ppix[1])} {fb(1.0)} {px}"],
                        [spec.reshape(-1)], tol * 50, listy=True)
                except Exception as e:  # a probe that cannot be built is reported by the conformance oracle
                    ctx.agree("Probe.build reciprocal-space array", pcase, "built", "err " + err_kind(e))
            ctx.count(f"corr:{prec}:{'soft' if soft else 'hard'}")
            ctx.case(pcase)
        for bad in ("aperture T F", "normalize 1,2,3", "probe T none 1 1 1 1 1 1,2,3", "kernel a b c d", "zzz"):
            add("driver rejects malformed", dict(line=bad), [bad], ["bad-op"], 0)

        outs = drv.query(lines)
        for name, case, start, n, impl, tol, listy in checks:
            raw = outs[start:start + n]
            worst, ok = 0.0, True
            for o, v in zip(raw, impl):
                m = parse_cs(o) if listy else parse_c(o)
                if isinstance(m, str) or isinstance(v, str):
                    ok = ok and (isinstance(m, str) and m == v)
                else:
                    d = float(np.max(np.abs(np.asarray(m) - np.asarray(v)))) if np.size(m) == np.size(v) else float("inf")
                    worst = max(worst, d)
                    ok = ok and d <= tol
            ctx.agree(name, case, {"worst_abs_diff": worst if not ok else 0.0}, {"worst_abs_diff": 0.0, **({} if ok else {"tol": tol})}, ok=ok)
        ctx.traces += sum(1 for c in checks if c[0].startswith("Probe.build"))
        ctx.driver_lines += len(lines)

    # ------------------------------------------------------------------ conformance
    def oracle(self, ctx: Ctx, case):
        tol = 1e-9 if case["precision"] == "float64" else 2e-5
        with precision(case["precision"]):
            if case["kind"] == "probe":
                try:
                    waves = build_probe(case)
                except Exception as e:  # noqa
                    ens = bool(case.get("cutoff_dist") or case.get("aberration_dist") or isinstance(case["tilt"], dict))
                    # a probe that cannot be built violates "every probe built by Probe.build …" for that input class
                    ctx.violation(f"probe-build-raises:{type(e).__name__}:{'hard' if not case['soft'] else 'soft'}"
                                  f":cutoff-dist={bool(case.get('cutoff_dist'))}:aberr-dist={case.get('aberration_dist') is not None}"
                                  f":tilt-dist={isinstance(case['tilt'], dict)}" if ens else
                                  f"plain-probe-build-raises:{'hard' if not case['soft'] else 'soft'}-aperture", case,
                                  dict(error=f"{type(e).__name__}: {e}"[:300]))
                    return
                tot = np.asarray(recip_intensity(waves.array)).reshape(-1)
                bad = np.abs(tot - 1) > tol
                if not np.all(np.isfinite(tot)) or bad.any():
                    ctx.violation("probe-reciprocal-intensity-not-one", case, dict(shape=list(waves.shape), totals=tot[:8].tolist()))
                nblk = case.pop("_numblocks", None)
                ctx.count(f"probe:{'soft' if case['soft'] else 'hard'}:members={tot.size}:{'lazy-blocks>1' if (nblk or 1) > 1 else 'lazy-1block' if case['lazy'] else 'eager'}:"
                          f"aberr-dist={'weighted' if isinstance((case.get('aberration_dist') or [0, 0])[1], dict) else case.get('aberration_dist') is not None}"
                          f":tilt-dist={isinstance(case['tilt'], dict)}")
            else:
                import abtem

                from abtem.distributions import from_values

                tilt = tuple(case["tilt"])
                td = case.get("tilt_dist")
                if td == "x":
                    tilt = (from_values([tilt[0], tilt[0] + 3.0, -2.0]), tilt[1])
                elif td == "y":
                    tilt = (tilt[0], from_values([tilt[1], 5.0]))
                elif td == "both":
                    tilt = (from_values([tilt[0], 1.5]), from_values([tilt[1], -4.0, 2.0]))
                elif td == "pairs":
                    tilt = np.array([[tilt[0], tilt[1]], [3.0, -1.0], [0.0, 2.5]])
                pw = abtem.PlaneWave(gpts=tuple(case["gpts"]), sampling=tuple(case["sampling"]), energy=case["energy"],
                                     normalize=case["normalize"], tilt=tilt).build(lazy=case["lazy"])
                arr = np.asarray(pw.compute().array if case["lazy"] else pw.array)
                if not np.all(np.isfinite(arr)):
                    ctx.violation("planewave-array-not-finite", case, dict(shape=list(arr.shape)))
                if case["normalize"]:
                    tot = np.asarray(recip_intensity(arr)).reshape(-1)
                    if gt(np.abs(tot - 1).max(), tol):
                        ctx.violation("planewave-reciprocal-intensity-not-one" + (":tilt-ensemble" if td else ""), case,
                                      dict(totals=tot[:6].tolist(), shape=list(arr.shape)))
                else:
                    dev = float(np.abs(np.abs(arr) - 1).max())
                    if gt(dev, tol):
                        ctx.violation("planewave-not-unit-modulus", case, dict(max_dev=dev))
                if case.get("propagate") and not td:
                    # a tilted plane wave keeps its modulus through vacuum (also C39)
                    from abtem.multislice import FresnelPropagator

                    w = pw.compute() if case["lazy"] else pw
                    w2 = FresnelPropagator().propagate(w, thickness=case["propagate"], in_place=False)
                    ref = np.abs(arr)
                    dev = float(np.abs(np.abs(np.asarray(w2.array)) - ref).max() / ref.max())
                    if gt(dev, (1e-9 if case["precision"] == "float64" else 1e-4)):
                        ctx.violation("tilted-planewave-modulus-changes-in-vacuum", case, dict(max_rel_dev=dev))
                ctx.count(f"planewave:normalize={case['normalize']}:tilt={'zero' if tuple(case['tilt']) == (0.0, 0.0) else 'set'}:ensemble={td}")

    def conformance(self, ctx: Ctx):
        rng = ctx.rng
        for _ in range(ctx.n(50, 600)):
            case = gen_probe_case(ctx)
            self.oracle(ctx, case)
            ctx.case(case)
        for _ in range(ctx.n(20, 200)):
            case = dict(kind="planewave", gpts=[rng.randint(1, 20), rng.randint(1, 20)],
                        sampling=[round(rng.uniform(0.05, 0.4), 3), round(rng.uniform(0.05, 0.4), 3)],
                        energy=float(rng.choice([60e3, 100e3, 300e3])), normalize=rng.random() < 0.5,
                        tilt=rng.choice([[0.0, 0.0], [round(rng.uniform(-40, 40), 2), round(rng.uniform(-40, 40), 2)]]),
                        lazy=rng.random() < 0.3, precision=rng.choice(["float64", "float32"]),
                        propagate=rng.choice([None, 1.0, 7.5]), tilt_dist=rng.choice([None, None, "x", "y", "both", "pairs"]))
            self.oracle(ctx, case)
            ctx.case(case)
        self.selftest(ctx)

    def selftest(self, ctx: Ctx):
        import abtem.waves as aw

        pw = dict(kind="planewave", gpts=[6, 5], sampling=[0.1, 0.1], energy=1e5, tilt=[0.0, 0.0], lazy=False, precision="float64", propagate=None, tilt_dist=None)
        pr = dict(kind="probe", gpts=[8, 8], sampling=[0.2, 0.2], energy=1e5, cutoff=20.0, cutoff_dist=None, soft=True, aberrations={}, aberration_dist=None,
                  tilt=[0.0, 0.0], pos_kind="none", positions=None, lazy=False, precision="float64")
        nan_selftest(ctx, "planewave", [(aw.PlaneWave, "_calculate_array", True)],
                     [("normalize=True", lambda c: self.oracle(c, dict(pw, normalize=True))), ("normalize=False", lambda c: self.oracle(c, dict(pw, normalize=False)))])
        nan_selftest(ctx, "probe", [(aw.Probe, "_calculate_array", True)], [("probe", lambda c: self.oracle(c, pr))])

    def replay(self, ctx: Ctx, case):
        self.oracle(ctx, case)


if __name__ == "__main__":
    sys.exit(run_property(C05()))
