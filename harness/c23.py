"""C23 — apertures and partial-coherence envelopes stay within physical bounds (abtem/transfer.py).

Correspondence: Float twins of the generated aperture / envelope expressions (+ the hand glue of Drive/C23.lean) against
`soft_aperture`, `hard_aperture`, `Aperture/TemporalEnvelope/SpatialEnvelope._evaluate_from_angular_grid` on explicit
(alpha, phi) arrays.  Conformance: the bounds themselves observed on the real kernels (own angular grids), independent of
the Lean model, including |CTF| <= aperture for random aberration sets.
"""
import math
import sys

import numpy as np

from c24 import bits, fx, ufx, unbits
from common import Ctx, LeanDriver, Property, bool_s, run_property

POLAR = ["C10", "C12", "phi12", "C21", "phi21", "C23", "phi23", "C30", "C32", "phi32", "C34", "phi34", "C41", "phi41",
         "C43", "phi43", "C45", "phi45", "C50", "C52", "phi52", "C54", "phi54", "C56", "phi56"]
SCALE = {1: 300.0, 2: 3e3, 3: 2e6, 4: 2e7, 5: 2e9}  # typical magnitude [Å] per radial order n


def gen_coeffs(rng, density=0.5):
    out = {}
    for s in POLAR:
        if rng.random() > density:
            continue
        if s.startswith("phi"):
            out[s] = rng.uniform(-math.pi, math.pi)
        else:
            out[s] = rng.uniform(-1, 1) * SCALE[int(s[1])]
    return out


def coeff_list(d):
    return [float(d.get(s, 0.0)) for s in POLAR]


def hexlist(a):
    return [fx(v) for v in np.asarray(a, dtype=np.float64).reshape(-1)]


def arr(h, shape):
    return np.array([ufx(v) for v in h], dtype=np.float64).reshape(shape)


def bl(xs):
    return ",".join(str(bits(x)) for x in xs)


def precision(name):
    import abtem

    return abtem.config.set({"precision": name})


class C23(Property):
    id = "C23"
    props_file = "AbtemVerif/Props/C23.lean"
    drive_file = "AbtemVerif/Drive/C23.lean"
    trusted = [
        "py2lean pointwise reading of the array expressions (broadcasting / expand_dims / dtype casts are not translated; the Float "
        "twins are executed against the real functions on explicit arrays on every run)",
        "hand glue `apertureModel` (branch selection of Aperture._evaluate_from_angular_grid, zero-frequency override of soft_aperture) and "
        "`ctfModel` (product exp(-i chi)·S·T·A of CTF._evaluate_from_angular_grid): tied by correspondence (aperture) and by the conformance "
        "oracle on the real CTF kernels (product); fingerprints of the hand-modelled functions are reported",
        "IEEE: theorems are over the reals; float64 twin vs Python to 1e-9, float32 runs to 1e-4; bounds on the real kernels are checked "
        "with a rounding allowance of 1e-6 (float32) / 1e-12 (float64)",
    ]
    assumptions = ["theorems ctf_le_aperture* are for wiener_snr = 0 (default); wiener_snr != 0 is the known finding ctf-wiener-filter-exceeds-aperture-bound",
                   "angular spread >= 0 (a negative spread amplifies: theorem spatial_negative_spread_ge_one)"]
    rule = ("explicit 3x4 (alpha, phi) arrays with alpha concentrated within ±1 pixel of the cutoff, random cutoffs/samplings/energies/"
            "focal and angular spreads and random subsets of the 25 aberration coefficients; float64 and float32 precision; "
            "distinct = distinct case JSON; non-trivial = at least one array element strictly inside the soft edge / envelope < 1")

    # ------------------------------------------------------------------ case generation
    def gen(self, ctx: Ctx, kind: str):
        rng = ctx.rng
        shape = (3, 4)
        n = shape[0] * shape[1]
        a0, a1 = rng.uniform(0.2, 3.0), rng.uniform(0.2, 3.0)  # mrad
        cutoff = rng.uniform(2.0, 40.0)  # mrad
        pix = max(a0, a1) * 1e-3
        alpha = [max(0.0, cutoff * 1e-3 + rng.uniform(-1.5, 1.5) * pix) if rng.random() < 0.7 else rng.uniform(0, 0.08) for _ in range(n)]
        if rng.random() < 0.3:
            alpha[rng.randrange(n)] = 0.0
        phi = [rng.uniform(-math.pi, math.pi) for _ in range(n)]
        c = dict(kind=kind, shape=list(shape), alpha=[fx(v) for v in alpha], phi=[fx(v) for v in phi],
                 precision=rng.choice(["float64", "float64", "float32"]))
        if kind == "soft":
            c.update(cutoff_rad=fx(cutoff * 1e-3), a0=fx(a0), a1=fx(a1))
        elif kind == "hard":
            c.update(cutoff_rad=fx(rng.choice([cutoff * 1e-3, alpha[0], alpha[-1]])))
        elif kind == "aperture":
            gp = [rng.randint(8, 24), rng.randint(8, 24)]
            c.update(soft=rng.random() < 0.6, grid=rng.random() < 0.7, cutoff=rng.choice([fx(cutoff), fx(cutoff), "inf"]),
                     energy=fx(rng.choice([60e3, 100e3, 200e3, 300e3])), gpts=gp, extent=[fx(rng.uniform(6, 20)), fx(rng.uniform(6, 20))])
        elif kind == "temporal":
            c.update(energy=fx(rng.choice([60e3, 100e3, 200e3, 300e3])), focal=fx(rng.choice([rng.uniform(0, 120), -rng.uniform(0, 60), 0.0])))
        elif kind == "spatial":
            c.update(energy=fx(rng.choice([60e3, 100e3, 200e3, 300e3])), spread=fx(rng.choice([rng.uniform(0, 3), 0.0, rng.uniform(0, 0.3)])),
                     coeffs={k: fx(v) for k, v in gen_coeffs(rng, rng.choice([0.2, 0.5, 1.0])).items()})
        return c

    # ------------------------------------------------------------------ implementation side
    def impl(self, c):
        from abtem import transfer as tr

        shape = tuple(c["shape"])
        dt = np.float64 if c["precision"] == "float64" else np.float32
        alpha = arr(c["alpha"], shape).astype(dt)
        phi = arr(c["phi"], shape).astype(dt)
        extra = {}
        with precision(c["precision"]):
            k = c["kind"]
            if k == "soft":
                out = tr.soft_aperture(alpha.copy(), phi.copy(), ufx(c["cutoff_rad"]), (ufx(c["a0"]), ufx(c["a1"])))
            elif k == "hard":
                # as in Aperture._evaluate_from_angular_grid the cutoff is a 0-d float64 array (a bare Python float would be
                # cast to the array's float32 under numpy's weak-scalar promotion and move the step)
                out = tr.hard_aperture(alpha, np.asarray(ufx(c["cutoff_rad"])))
            elif k == "aperture":
                kw = dict(gpts=tuple(c["gpts"]), extent=tuple(ufx(v) for v in c["extent"])) if c["grid"] else {}
                ap = tr.Aperture(np.inf if c["cutoff"] == "inf" else ufx(c["cutoff"]), soft=c["soft"], energy=ufx(c["energy"]), **kw)
                out = ap._evaluate_from_angular_grid(alpha.copy(), phi.copy())
                extra["angular_sampling"] = [float(v) for v in ap.angular_sampling] if c["grid"] else [1.0, 1.0]
            elif k == "temporal":
                te = tr.TemporalEnvelope(focal_spread=ufx(c["focal"]), energy=ufx(c["energy"]))
                out = te._evaluate_from_angular_grid(alpha, phi)
                extra["wavelength"] = float(te.wavelength)
            elif k == "spatial":
                se = tr.SpatialEnvelope(angular_spread=ufx(c["spread"]), aberration_coefficients={s: ufx(v) for s, v in c["coeffs"].items()},
                                        energy=ufx(c["energy"]))
                out = se._evaluate_from_angular_grid(alpha, phi)
                extra["wavelength"] = float(se.wavelength)
            else:
                raise ValueError(k)
        return np.asarray(out, dtype=np.float64).reshape(-1), alpha.astype(np.float64).reshape(-1), phi.astype(np.float64).reshape(-1), extra

    def lines(self, c, alpha, phi, extra):
        k = c["kind"]
        out = []
        for i, (a, p) in enumerate(zip(alpha, phi)):
            o = bool_s(i == 0)
            if k == "soft":
                out.append(f"soft {bits(a)} {bits(p)} {bits(ufx(c['cutoff_rad']))} {bits(ufx(c['a0']))} {bits(ufx(c['a1']))} {o}")
            elif k == "hard":
                out.append(f"hard {bits(a)} {bits(ufx(c['cutoff_rad']))}")
            elif k == "aperture":
                cm = "inf" if c["cutoff"] == "inf" else str(bits(ufx(c["cutoff"])))
                s0, s1 = extra["angular_sampling"]
                out.append(f"aperture {bool_s(c['soft'])} {bool_s(c['grid'])} {o} {cm} {bits(a)} {bits(p)} {bits(s0)} {bits(s1)}")
            elif k == "temporal":
                out.append(f"temporal {bits(a)} {bits(extra['wavelength'])} {bits(ufx(c['focal']))}")
            elif k == "spatial":
                cl = coeff_list({s: ufx(v) for s, v in c["coeffs"].items()})
                out.append(f"spatial {bits(a)} {bits(p)} {bits(extra['wavelength'])} {bits(ufx(c['spread']))} {bl(cl)}")
        return out

    def correspondence(self, ctx: Ctx):
        drv = LeanDriver(self.drive_file)
        kinds = ["soft", "soft", "hard", "aperture", "aperture", "temporal", "spatial", "spatial"]
        cases = [self.gen(ctx, ctx.rng.choice(kinds)) for _ in range(ctx.n(160, 3000))]
        impls = [self.impl(c) for c in cases]
        lines = ["soft 1 2 3", "nonsense", "spatial 0 0 0 0 1,2,3"]
        spans = []
        for c, (out, alpha, phi, extra) in zip(cases, impls):
            ls = self.lines(c, alpha, phi, extra)
            spans.append((len(lines), len(ls)))
            lines += ls
        outs = drv.query(lines)
        for o in outs[:3]:
            ctx.agree("driver rejects malformed requests", "malformed", o, "bad-op")
        for c, (out, alpha, phi, extra), (s, m) in zip(cases, impls, spans):
            model = [unbits(o.split()[1]) for o in outs[s:s + m]]
            tol = 1e-9 if c["precision"] == "float64" else 2e-4
            if c["kind"] == "hard":
                tol = 0.0
            ok = len(model) == len(out) and all(abs(a - b) <= tol or (a != a and b != b) for a, b in zip(model, out))
            ctx.agree(f"transfer.{c['kind']} (generated Float twin + glue vs Python)", c, model, list(map(float, out)), ok=ok)
            inner = sum(1 for v in out if 0.0 < v < 1.0)
            ctx.count(f"{c['kind']}:{c['precision']}:" + ("edge-or-damped" if inner else "flat"))
            if c["kind"] == "aperture":
                ctx.count(f"aperture-branch:soft={c['soft']}:grid={c['grid']}:inf={c['cutoff'] == 'inf'}")
            ctx.case(c, nontrivial=inner > 0)
        ctx.traces += len(cases)

    # ------------------------------------------------------------------ conformance on the real kernels
    def oracle(self, ctx: Ctx, c):
        from abtem import transfer as tr

        chk = c["check"]
        with precision(c["precision"]):
            eps = 1e-12 if c["precision"] == "float64" else 1e-6
            energy = ufx(c["energy"])
            grid = dict(gpts=tuple(c["gpts"]), extent=tuple(ufx(v) for v in c["extent"]))
            if chk == "aperture-kernel":
                ap = tr.Aperture(ufx(c["cutoff"]), soft=c["soft"], energy=energy, **grid)
                alpha, phi = ap._angular_grid("cpu")
                k = np.asarray(ap._evaluate_kernel())
                if not (k.min() >= 0 and k.max() <= 1):
                    return ctx.violation("aperture-out-of-unit-interval", c, {"min": float(k.min()), "max": float(k.max())})
                cut = ufx(c["cutoff"]) * 1e-3
                half = (max(ap.angular_sampling) * 1e-3 / 2 if c["soft"] else 0.0) * (1 + 1e-6) + (1e-9 if c["precision"] == "float32" else 0)
                inside = alpha <= cut - half - (1e-9 if c["precision"] == "float32" and not c["soft"] else 0)
                outside = alpha > cut + half
                if not np.all(k[inside] == 1.0):
                    return ctx.violation(("soft" if c["soft"] else "hard") + "-aperture-plateau-not-one", c,
                                         {"values": np.unique(k[inside]).tolist()[:5]})
                if not np.all(k[outside] == 0.0):
                    return ctx.violation(("soft" if c["soft"] else "hard") + "-aperture-not-zero-beyond-edge", c,
                                         {"values": np.unique(k[outside]).tolist()[-5:]})
                if c["soft"]:
                    # rows / columns through the origin lie on the reciprocal axes: there the edge is the linear ramp of that axis' sampling
                    s0, s1 = (v * 1e-3 for v in ap.angular_sampling)
                    tolr = 1e-9 if c["precision"] == "float64" else 5e-3
                    for line, width, name in ((k[1:, 0], s0, "first"), (k[0, 1:], s1, "second")):
                        a_line = alpha[1:, 0] if name == "first" else alpha[0, 1:]
                        expl = np.clip((cut - a_line.astype(np.float64)) / width + 0.5, 0, 1)
                        if not (np.abs(line - expl).max() <= tolr):
                            return ctx.violation("soft-aperture-edge-width-does-not-follow-the-sampling-of-its-axis", c,
                                                 {"axis": name, "max_abs_diff": float(np.abs(line - expl).max())})
                if not c["soft"] and not np.all(np.isin(k, (0.0, 1.0))):
                    return ctx.violation("hard-aperture-not-a-step", c, {"values": np.unique(k).tolist()[:5]})
            elif chk == "explicit-angles":
                # the boundary cases on explicit angle arrays: exactly at the cutoff, half a pixel inside / outside
                cut = ufx(c["cutoff"]) * 1e-3
                dt = np.float64 if c["precision"] == "float64" else np.float32
                cut = float(dt(cut))
                a0, a1 = ufx(c["a0"]), ufx(c["a1"])
                half = max(a0, a1) * 1e-3 / 2
                alpha = np.array([[0.5 * cut, cut, cut * (1 + 1e-3)], [max(cut - 1.001 * half, 0), cut + 1.001 * half, 2 * cut]], dtype=dt)
                phi = np.array([[0.3, -2.0, 1.0], [ufx(c["phi"]), -ufx(c["phi"]), 3.0]], dtype=dt)
                h = np.asarray(tr.hard_aperture(alpha, cut))
                if h.tolist() != [[1.0, 1.0, 0.0], [1.0, 0.0, 0.0]]:
                    return ctx.violation("hard-aperture-not-one-up-to-and-including-the-cutoff", c, {"observed": h.tolist()})
                s = np.asarray(tr.soft_aperture(alpha.copy(), phi.copy(), cut, (a0, a1)))
                if not (s.min() >= 0 and s.max() <= 1):
                    return ctx.violation("aperture-out-of-unit-interval", c, {"observed": s.tolist()})
                if s[0, 0] != 1.0 or (cut - 1.001 * half >= 0 and s[1, 0] != 1.0):
                    return ctx.violation("soft-aperture-plateau-not-one", c, {"observed": s.tolist()})
                if s[1, 1] != 0.0 or s[1, 2] != 0.0:
                    return ctx.violation("soft-aperture-not-zero-beyond-edge", c, {"observed": s.tolist()})
                # direction dependence of the pixel width: on the first axis the ramp is as wide as the first sampling, on the second
                # axis as wide as the second one (independent of the model: the linear ramp written out here)
                u = ufx(c["phi"]) / (4 * math.pi)  # in (-0.25, 0.25)
                al2 = np.array([[0.0, cut + u * a0 * 1e-3, cut - u * a0 * 1e-3], [cut + u * a1 * 1e-3, cut - u * a1 * 1e-3, cut]], dtype=dt)
                ph2 = np.array([[0.0, 0.0, np.pi], [np.pi / 2, -np.pi / 2, 0.0]], dtype=dt)
                s2 = np.asarray(tr.soft_aperture(al2.copy(), ph2.copy(), cut, (a0, a1)), dtype=np.float64)
                exp2 = np.array([[1.0, 0.5 - u, 0.5 + u], [0.5 - u, 0.5 + u, 0.5]])
                if not (np.abs(s2 - exp2).max() <= (1e-9 if c["precision"] == "float64" else 2e-3)):
                    return ctx.violation("soft-aperture-edge-width-does-not-follow-the-sampling-of-its-axis", c,
                                         {"observed": s2.tolist(), "expected": exp2.tolist()})
                if not (abs(s[0, 1] - 0.5) <= 1e-6):
                    return ctx.violation("soft-aperture-not-one-half-at-the-cutoff", c, {"observed": s.tolist()})
            elif chk == "cutoff-ensemble":
                # "all cutoffs": a distribution of cutoffs gives one aperture per member, each equal to the scalar run
                import abtem

                vals = [ufx(v) for v in c["cutoffs"]]
                ap = tr.Aperture(abtem.distributions.from_values(vals), soft=c["soft"], energy=energy, **(grid if c["grid"] else {}))
                try:
                    if c["grid"]:
                        k = np.asarray(ap._evaluate_kernel())
                        ks = [np.asarray(tr.Aperture(v, soft=c["soft"], energy=energy, **grid)._evaluate_kernel()) for v in vals]
                    else:
                        alpha = np.linspace(0, 0.06, 12, dtype=np.float32).reshape(3, 4)
                        phi = np.zeros_like(alpha)
                        k = np.asarray(ap._evaluate_from_angular_grid(alpha, phi))
                        ks = [np.asarray(tr.Aperture(v, soft=c["soft"], energy=energy)._evaluate_from_angular_grid(alpha, phi)) for v in vals]
                except Exception as e:  # noqa
                    kind = "hard" if (not c["soft"] or not c["grid"]) else "soft"
                    return ctx.violation(f"{kind}-aperture-ensemble-of-cutoffs-raises", c, {"error": f"{type(e).__name__}: {e}"[:300]})
                if k.shape != (len(vals),) + ks[0].shape or any(not np.array_equal(k[i], ks[i]) for i in range(len(vals))):
                    return ctx.violation("aperture-ensemble-member-differs-from-scalar-run", c, {"shape": list(k.shape)})
                if not (k.min() >= 0 and k.max() <= 1):
                    return ctx.violation("aperture-out-of-unit-interval", c, {"min": float(k.min()), "max": float(k.max())})
            elif chk == "other-apertures":
                # every BaseAperture subclass: |transmission| <= 1 (complex phase plates included); only `Aperture` is covered by theorems
                cut = ufx(c["cutoff"])
                r = [ufx(v) for v in c["r"]]
                mk = {
                    "Bullseye": lambda: tr.Bullseye(1 + int(r[0] * 6), 0.5 + 5 * r[1], 1 + int(r[2] * 4), 0.2 * cut * (0.2 + r[3]), cut, energy=energy,
                                                edge_softness=(3 * r[4] if c["softedge"] else 0.0), corner_radius=(2 * r[5] if c["corner"] else 0.0), **grid),
                    "Vortex": lambda: tr.Vortex(int(r[0] * 7) - 3, cut, energy=energy, soft=c["softedge"], **grid),
                    "AnnularAperture": lambda: tr.AnnularAperture(cut * r[0], cut, energy=energy, **grid),
                    "Zernike": lambda: tr.Zernike(cut * r[0] * 0.5, (r[1] - 0.5) * 2 * math.pi, cut, energy=energy, **grid),
                    "RadialPhasePlate": lambda: tr.RadialPhasePlate(1 + int(r[0] * 5), cut, phase_shift=(r[1] - 0.5) * 2 * math.pi, energy=energy, **grid),
                }[c["cls"]]
                obj = mk()
                k = np.asarray(obj._evaluate_kernel())
                # hard edge convention shared with `Aperture`: the angle exactly on the cutoff is transmitted, the next float is blocked
                if c["cls"] in ("Vortex", "AnnularAperture", "Zernike") and not (c["cls"] == "Vortex" and c["softedge"]):
                    edge = cut / 1e3
                    al = np.array([[0.5 * edge, np.nextafter(edge, 0.0), edge, np.nextafter(edge, 1.0), 1.5 * edge]])
                    t = np.abs(np.asarray(obj._evaluate_from_angular_grid(al, np.zeros_like(al))))
                    if not (np.abs(t[0, 1:3] - 1.0).max() <= (1e-12 if c["precision"] == "float64" else 1e-6)) or t[0, 3:].tolist() != [0.0, 0.0]:
                        return ctx.violation(f"{c['cls']}-hard-edge-is-not-one-up-to-and-including-the-cutoff", c, {"observed": t.tolist()})
                m = np.abs(k)
                if not np.isfinite(m).all() or not (m.max() <= 1 + (1e-12 if c["precision"] == "float64" else 1e-6)):
                    return ctx.violation(f"{c['cls']}-transmission-exceeds-one", c, {"max_abs": float(m.max())})
                if not np.iscomplexobj(k) and not (k.min() >= 0):
                    return ctx.violation(f"{c['cls']}-transmission-negative", c, {"min": float(k.min())})
            elif chk == "ctf-wiener":
                # wiener_snr != 0: the Wiener expression is applied to the complex transfer function and is NOT bounded by the aperture
                # (known finding, witness theorem wiener_complex_exceeds_one).  The key is only used when the same CTF without the
                # Wiener filter does respect the bound, i.e. when the excess is really due to the Wiener branch.
                kw = dict(semiangle_cutoff=ufx(c["cutoff"]), soft=c["soft"], energy=energy, focal_spread=ufx(c["focal"]),
                          angular_spread=ufx(c["spread"]), aberration_coefficients={s: ufx(v) for s, v in c["coeffs"].items()}, **grid)
                a = np.asarray(tr.Aperture(ufx(c["cutoff"]), soft=c["soft"], energy=energy, **grid)._evaluate_kernel())
                plain_c = np.asarray(tr.CTF(**kw)._evaluate_kernel()).astype(np.complex128)
                plain = np.abs(plain_c)
                if not np.all(plain <= a + eps):
                    return ctx.violation("ctf-transmits-more-than-its-aperture", c, {"max_excess": float((plain - a).max())})
                snr = ufx(c["snr"])
                w_c = np.asarray(tr.CTF(wiener_snr=snr, **kw)._evaluate_kernel()).astype(np.complex128)
                # the recorded defect is exactly: the Wiener expression applied to the complex unfiltered transfer function.  Anything else
                # in this branch (aperture dropped, NaN, other prefactor …) is a different failure and gets its own key.
                with np.errstate(all="ignore"):
                    exp = (1 + 1 / snr) * plain_c ** 2 / (plain_c ** 2 + 1 / snr)
                tolw = (1e-9 if c["precision"] == "float64" else 2e-3) * (1 + np.abs(exp))
                same = np.where(np.isfinite(exp), np.abs(w_c - exp) <= tolw, ~np.isfinite(w_c))
                if w_c.shape != exp.shape or not np.all(same):
                    return ctx.violation("ctf-wiener-branch-is-not-the-filter-of-the-unfiltered-ctf", c,
                                         {"mismatching_pixels": int((~same).sum()) if w_c.shape == exp.shape else "shape"})
                w = np.abs(w_c)
                if not np.all(w <= a + eps):
                    bad = ~(w <= a + eps)
                    i = int(np.flatnonzero(bad.reshape(-1))[0])
                    return ctx.violation("ctf-wiener-filter-exceeds-aperture-bound", c,
                                         {"ctf_abs": float(w.reshape(-1)[i]), "aperture": float(a.reshape(-1)[i]), "wiener_snr": snr,
                                          "recorded_formula_value": [float(exp.reshape(-1)[i].real), float(exp.reshape(-1)[i].imag)]})
            elif chk == "ctf-ensemble":
                # distributions of cutoff x focal spread x angular spread x one aberration: member == scalar run, |member| <= its aperture
                import abtem
                from itertools import product

                co = {s_: ufx(v) for s_, v in c["coeffs"].items()}
                dist = {k_: [ufx(v) for v in vs] for k_, vs in c["dists"].items()}

                wts = {k_: [ufx(v) for v in vs] for k_, vs in c.get("weights", {}).items()}

                def val(name, scalar):
                    # envelope / aperture parameters may carry non-uniform weights (a gaussian focal spread does): the weights belong to the
                    # ensemble mean, each member's envelope must still be the scalar run's (round-3 seed C23-r3 multiplied them in)
                    if name in dist:
                        return abtem.distributions.from_values(dist[name], weights=np.asarray(wts[name])) if name in wts else abtem.distributions.from_values(dist[name])
                    return scalar

                sym = c["symbol"]
                coe = dict(co)
                coe[sym] = val(sym, co.get(sym, 0.0))
                ctf = tr.CTF(semiangle_cutoff=val("semiangle_cutoff", ufx(c["cutoff"])), soft=c["soft"], energy=energy,
                             focal_spread=val("focal_spread", ufx(c["focal"])), angular_spread=val("angular_spread", ufx(c["spread"])),
                             aberration_coefficients=coe, **grid)
                k = np.asarray(ctf._evaluate_kernel())
                # axis order of the code: aberration coefficients, angular spread (spatial envelope), focal spread, cutoff; the envelope axes
                # carry no label, so the axes are identified by this order and confirmed through their values
                labels = [n for n in (sym, "angular_spread", "focal_spread", "semiangle_cutoff") if n in dist]
                axes = ctf.ensemble_axes_metadata
                if len(axes) != len(labels) or k.shape[:len(labels)] != tuple(len(dist[l]) for l in labels) or any(
                        not np.allclose(np.asarray(ax.values, dtype=float), dist[l], rtol=1e-6) for ax, l in zip(axes, labels)):
                    return ctx.violation("ctf-ensemble-axes-do-not-match-the-distributions", c,
                                         {"expected_order": labels, "shape": list(k.shape), "axis_labels": [ax.label for ax in axes]})
                for idx in product(*[range(len(dist[l])) for l in labels]):
                    pick = {l: dist[l][i] for l, i in zip(labels, idx)}
                    coi = dict(co)
                    if sym in pick:
                        coi[sym] = pick[sym]
                    cut_i = pick.get("semiangle_cutoff", ufx(c["cutoff"]))
                    one = np.asarray(tr.CTF(semiangle_cutoff=cut_i, soft=c["soft"], energy=energy, focal_spread=pick.get("focal_spread", ufx(c["focal"])),
                                            angular_spread=pick.get("angular_spread", ufx(c["spread"])), aberration_coefficients=coi,
                                            **grid)._evaluate_kernel())
                    tole = 1e-9 if c["precision"] == "float64" else 3e-3
                    if not (np.abs(k[idx] - one).max() <= tole):
                        return ctx.violation("ctf-ensemble-member-differs-from-scalar-run", c, {"member": list(idx), "labels": labels})
                    ap = np.asarray(tr.Aperture(cut_i, soft=c["soft"], energy=energy, **grid)._evaluate_kernel())
                    if not np.all(np.abs(k[idx]) <= ap + eps):
                        return ctx.violation("ctf-transmits-more-than-its-aperture", c, {"member": list(idx)})
            elif chk == "temporal-kernel":
                te = tr.TemporalEnvelope(focal_spread=ufx(c["focal"]), energy=energy, **grid)
                alpha, phi = te._angular_grid("cpu")
                k = np.asarray(te._evaluate_kernel())
                if not (k.min() >= 0 and k.max() <= 1):
                    return ctx.violation("temporal-envelope-out-of-unit-interval", c, {"min": float(k.min()), "max": float(k.max())})
                if k[0, 0] != 1.0:
                    return ctx.violation("temporal-envelope-not-one-at-zero-angle", c, {"value": float(k[0, 0])})
                order = np.argsort(alpha.reshape(-1), kind="stable")
                if not np.all(np.diff(k.reshape(-1)[order]) <= eps):
                    return ctx.violation("temporal-envelope-increases-with-angle", c, {})
            elif chk == "spatial-kernel":
                se = tr.SpatialEnvelope(angular_spread=ufx(c["spread"]), aberration_coefficients={s: ufx(v) for s, v in c["coeffs"].items()},
                                        energy=energy, **grid)
                k = np.asarray(se._evaluate_kernel())
                if not (k.min() >= 0 and k.max() <= 1):
                    return ctx.violation("spatial-envelope-out-of-unit-interval", c, {"min": float(k.min()), "max": float(k.max())})
                if k[0, 0] != 1.0:
                    return ctx.violation("spatial-envelope-not-one-at-zero-angle", c, {"value": float(k[0, 0])})
            elif chk == "spatial-gradient":
                # the envelope is exp(-(s/2)^2 |grad chi~|^2) with chi~ = 2 pi/lambda chi the function Aberrations applies:
                # gradient written out independently from the polar expansion (Kirkland Eq. 2.22)
                orders = [(1, 0, "C10", None), (1, 2, "C12", "phi12"), (2, 1, "C21", "phi21"), (2, 3, "C23", "phi23"), (3, 0, "C30", None),
                          (3, 2, "C32", "phi32"), (3, 4, "C34", "phi34"), (4, 1, "C41", "phi41"), (4, 3, "C43", "phi43"),
                          (4, 5, "C45", "phi45"), (5, 0, "C50", None), (5, 2, "C52", "phi52"), (5, 4, "C54", "phi54"), (5, 6, "C56", "phi56")]
                co = {k: ufx(v) for k, v in c["coeffs"].items()}
                se = tr.SpatialEnvelope(angular_spread=ufx(c["spread"]), aberration_coefficients=co, energy=energy)
                alpha = np.array([ufx(v) for v in c["alpha"]]).reshape(3, 4)
                phi = np.array([ufx(v) for v in c["phi"]]).reshape(3, 4)
                da = sum(alpha ** n * co.get(C, 0.0) * np.cos(m * (phi - (co.get(a, 0.0) if a else 0.0))) for n, m, C, a in orders)
                dp = sum(-alpha ** n / (n + 1) * m * co.get(C, 0.0) * np.sin(m * (phi - (co.get(a, 0.0) if a else 0.0))) for n, m, C, a in orders)
                kk = 2 * np.pi / se.wavelength
                exp = np.exp(-(ufx(c["spread"]) * 1e-3 / 2) ** 2 * ((kk * da) ** 2 + (kk * dp) ** 2))
                got = np.asarray(se._evaluate_from_angular_grid(alpha, phi), dtype=np.float64)
                if not (np.abs(got - exp).max() <= (1e-9 if c["precision"] == "float64" else 1e-3)):
                    return ctx.violation("spatial-envelope-is-not-the-gradient-of-the-aberration-function", c,
                                         {"max_abs_diff": float(np.abs(got - exp).max())})
            elif chk == "ctf-kernel":
                kw = dict(semiangle_cutoff=np.inf if c["cutoff"] == "inf" else ufx(c["cutoff"]), soft=c["soft"], energy=energy,
                          focal_spread=ufx(c["focal"]), angular_spread=ufx(c["spread"]), flip_phase=c["flip"],
                          aberration_coefficients={s: ufx(v) for s, v in c["coeffs"].items()}, **grid)
                ctf = tr.CTF(**kw)
                k = np.abs(np.asarray(ctf._evaluate_kernel()))
                if c["cutoff"] == "inf":
                    a = np.ones_like(k)
                else:
                    a = np.asarray(tr.Aperture(ufx(c["cutoff"]), soft=c["soft"], energy=energy, **grid)._evaluate_kernel())
                if not np.all(k <= a + eps):
                    i = int(np.argmax(k - a))
                    return ctx.violation("ctf-transmits-more-than-its-aperture", c,
                                         {"ctf_abs": float(k.reshape(-1)[i]), "aperture": float(a.reshape(-1)[i])})
                if not (abs(k[0, 0] - 1.0) <= 10 * eps):
                    return ctx.violation("ctf-modulus-not-one-at-zero-angle", c, {"value": float(k[0, 0])})
                # the CTF is exactly the product of its components (the hand glue `ctfModel`), flip_phase keeps the modulus
                co = {s: ufx(v) for s, v in c["coeffs"].items()}
                prod = np.asarray(tr.Aberrations(aberration_coefficients=co, energy=energy, **grid)._evaluate_kernel()).astype(np.complex128)
                if ufx(c["spread"]) != 0:
                    prod = prod * np.asarray(tr.SpatialEnvelope(angular_spread=ufx(c["spread"]), aberration_coefficients=co, energy=energy,
                                                                **grid)._evaluate_kernel())
                if ufx(c["focal"]) != 0:
                    prod = prod * np.asarray(tr.TemporalEnvelope(focal_spread=ufx(c["focal"]), energy=energy, **grid)._evaluate_kernel())
                prod = prod * a
                full = np.asarray(ctf._evaluate_kernel()).astype(np.complex128)
                if c["flip"]:
                    prod = prod.real - 1j * np.abs(prod.imag)
                tolp = 1e-9 if c["precision"] == "float64" else 2e-3
                if full.shape != prod.shape or not (np.abs(full - prod).max() <= tolp):
                    return ctx.violation("ctf-is-not-the-product-of-aberrations-envelopes-and-aperture", c,
                                         {"max_abs_diff": float(np.abs(full - prod).max()) if full.shape == prod.shape else "shape"})
            else:
                raise ValueError(chk)

    def gen_conf(self, ctx: Ctx, chk: str):
        rng = ctx.rng
        c = dict(check=chk, precision=rng.choice(["float32", "float64"]), energy=fx(rng.choice([60e3, 80e3, 100e3, 200e3, 300e3])),
                 gpts=[rng.randint(8, 32), rng.randint(8, 32)], extent=[fx(rng.uniform(5, 25)), fx(rng.uniform(5, 25))],
                 cutoff=fx(rng.uniform(1.0, 45.0)), soft=rng.random() < 0.6)
        if chk == "cutoff-ensemble":
            c.update(cutoffs=[fx(rng.uniform(1.0, 45.0)) for _ in range(rng.randint(1, 3))], grid=rng.random() < 0.7)
        if chk == "other-apertures":
            c.update(cls=rng.choice(["Bullseye", "Vortex", "AnnularAperture", "Zernike", "RadialPhasePlate"]), r=[fx(rng.random()) for _ in range(6)], softedge=rng.random() < 0.5, corner=rng.random() < 0.5)
        if chk == "ctf-ensemble":
            c["precision"] = rng.choice(["float64", "float64", "float32"])
            c["focal"], c["spread"] = fx(rng.uniform(5, 100)), fx(rng.uniform(0.1, 2))
            c["gpts"] = [rng.randint(6, 12), rng.randint(6, 12)]
            sym = rng.choice(["C10", "C12", "phi12", "C30", "C21"])
            c["symbol"] = sym
            names = rng.sample(["semiangle_cutoff", "focal_spread", "angular_spread", sym], rng.randint(1, 3))
            mk = {"semiangle_cutoff": lambda: rng.uniform(3, 40), "focal_spread": lambda: rng.uniform(5, 100), "angular_spread": lambda: rng.uniform(0.1, 2),
                  sym: lambda: rng.uniform(-1, 1) * (math.pi if sym.startswith("phi") else SCALE[int(sym[1])] * (0.01 if c["precision"] == "float32" else 1))}
            c["dists"] = {n: [fx(mk[n]()) for _ in range(rng.randint(1, 3))] for n in names}
            c["weights"] = {n: [fx(rng.choice([0.25, 0.5, 1.0, 1.75, 3.0])) for _ in c["dists"][n]]
                            for n in names if n != sym and rng.random() < 0.5}
            if c["precision"] == "float32":
                c["coeffs"] = {}
        if chk == "ctf-wiener":
            c["snr"] = fx(rng.choice([1.0, rng.uniform(0.2, 10.0), 4.0]))
        if chk == "explicit-angles":
            c.update(a0=fx(rng.uniform(0.2, 3.0)), a1=fx(rng.uniform(0.2, 3.0)), phi=fx(rng.uniform(-math.pi, math.pi)))
        if chk in ("temporal-kernel", "ctf-kernel", "ctf-wiener", "ctf-ensemble"):
            c["focal"] = fx(rng.choice([rng.uniform(0, 150), 0.0, -rng.uniform(0, 50)]))
        if chk == "spatial-gradient":
            c["precision"] = "float64"
            c["alpha"] = [fx(rng.uniform(0, 0.03)) for _ in range(12)]
            c["phi"] = [fx(rng.uniform(-math.pi, math.pi)) for _ in range(12)]
        if chk in ("spatial-kernel", "ctf-kernel", "spatial-gradient", "ctf-wiener", "ctf-ensemble"):
            c["spread"] = fx(rng.choice([rng.uniform(0, 4), 0.0, rng.uniform(0, 0.5)]))
            c["coeffs"] = {k: fx(v) for k, v in gen_coeffs(rng, rng.choice([0.15, 0.5, 1.0])).items()}
        if chk == "ctf-kernel":
            c["flip"] = rng.random() < 0.4
            if rng.random() < 0.2:
                c["cutoff"] = "inf"
        return c

    def conformance(self, ctx: Ctx):
        for chk, n in (("explicit-angles", ctx.n(40, 800)), ("cutoff-ensemble", ctx.n(30, 500)), ("aperture-kernel", ctx.n(80, 1500)), ("temporal-kernel", ctx.n(40, 800)),
                       ("spatial-kernel", ctx.n(50, 1000)), ("spatial-gradient", ctx.n(50, 1000)), ("ctf-kernel", ctx.n(80, 1500)), ("other-apertures", ctx.n(60, 1200)), ("ctf-wiener", ctx.n(12, 100)), ("ctf-ensemble", ctx.n(25, 400))):
            for _ in range(n):
                c = self.gen_conf(ctx, chk)
                self.oracle(ctx, c)
                ctx.count("conformance:" + chk)
                ctx.case(c, nontrivial=True)

    def replay(self, ctx: Ctx, case):
        if "check" in case:
            return self.oracle(ctx, case)
        # a correspondence case: re-run the kernel oracle of the same family on a small grid
        fam = {"soft": "aperture-kernel", "hard": "aperture-kernel", "aperture": "aperture-kernel", "temporal": "temporal-kernel",
               "spatial": "spatial-kernel"}[case["kind"]]
        c = self.gen_conf(ctx, fam)
        for k in ("energy", "focal", "spread", "coeffs", "precision"):
            if k in case:
                c[k] = case[k]
        self.oracle(ctx, c)


if __name__ == "__main__":
    sys.exit(run_property(C23()))
