"""C30 — saved results (to_zarr / from_zarr) load back unchanged."""
import ast
import copy
import dataclasses
import inspect
import os
import shutil
import sys
import tempfile
import textwrap
import warnings

import numpy as np

from common import Ctx, LeanDriver, Property, err_kind, run_property

warnings.filterwarnings("ignore")

STRS = ["a", "tuple", "_type", "x y", "Å", "", "%", "energy", "label"]
KEYS = ["a", "b", "energy", "label", "units", "_type", "_value", "x y", "n"]
RESERVED = ["axes", "data_origin", "type", "kwargs"]


# ------------------------------------------------------------------ wire format
def esc(s):
    return s.replace("%", "%25").replace(" ", "%20")


def unesc(s):
    return s.replace("%20", " ").replace("%25", "%")


def fl(x):
    return repr(float(x))


class ArrLike:
    """an object that is not an ndarray but has `__array__` (like an ASE Cell)"""

    def __init__(self, data):
        self.data = np.asarray(data)

    def __array__(self, dtype=None, copy=None):
        return self.data if dtype is None else self.data.astype(dtype)

    def __deepcopy__(self, memo):
        return ArrLike(self.data.copy())


def wire(v):
    """Python value -> token string of the Lean driver grammar (numpy types are visible)"""
    if v is None:
        return "N"
    if isinstance(v, ArrLike) or type(v).__name__ == "Cell":
        return "al " + wire(np.asarray(v).tolist())
    if isinstance(v, np.bool_):
        return f"nb:{'T' if v else 'F'}"
    if isinstance(v, bool):
        return f"b:{'T' if v else 'F'}"
    if isinstance(v, np.integer):
        return f"ni:{int(v)}"
    if isinstance(v, np.floating):
        return f"nf:{fl(v)}"
    if isinstance(v, int):
        return f"i:{v}"
    if isinstance(v, float):
        return f"f:{fl(v)}"
    if isinstance(v, str):
        return f"s:{esc(v)}"
    if isinstance(v, np.ndarray):
        return "a " + wire(v.tolist())
    if isinstance(v, tuple):
        return " ".join([f"t:{len(v)}"] + [wire(x) for x in v])
    if isinstance(v, list):
        return " ".join([f"l:{len(v)}"] + [wire(x) for x in v])
    if isinstance(v, dict):
        parts = [f"d:{len(v)}"]
        for k, x in v.items():
            if isinstance(k, str):
                parts.append(f"ks:{esc(k)} {wire(x)}")
            elif isinstance(k, int) and not isinstance(k, bool):
                parts.append(f"ki:{k} {wire(x)}")
            else:
                raise ValueError(f"key {k!r}")
        return " ".join(parts)
    raise ValueError(f"not encodable: {type(v).__name__}")


def normalise(v):
    """numpy scalars -> Python scalars, arrays -> nested lists (the stated normalisation); tuples stay tuples"""
    if isinstance(v, np.ndarray):
        return v.tolist()
    if isinstance(v, ArrLike) or type(v).__name__ == "Cell":
        return np.asarray(v).tolist()
    if isinstance(v, np.generic):
        return v.item()
    if isinstance(v, tuple):
        return tuple(normalise(x) for x in v)
    if isinstance(v, list):
        return [normalise(x) for x in v]
    if isinstance(v, dict):
        return {k: normalise(x) for k, x in v.items()}
    return v


def strict_same(a, b):
    """type-strict structural equality of normalised values (1 != 1.0 != True, tuple != list, nan == nan)"""
    if type(a) is not type(b):
        return False
    if isinstance(a, dict):
        return list(a.keys()) == list(b.keys()) and all(strict_same(a[k], b[k]) for k in a)
    if isinstance(a, (list, tuple)):
        return len(a) == len(b) and all(strict_same(x, y) for x, y in zip(a, b))
    if isinstance(a, float) and a != a:
        return b != b
    return a == b


# ------------------------------------------------------------------ generators
def gen_scalar(rng, numpy_ok=True):
    c = rng.randint(0, 10 if numpy_ok else 5)
    if c == 10:
        if rng.random() < 0.5:
            from ase.cell import Cell
            return Cell(np.diag([1.0, 2.0, 0.5]))
        return ArrLike([[1, 2], [3, 4]] if rng.random() < 0.5 else [0.5, 1.5])
    if c == 0:
        return None
    if c == 1:
        return rng.random() < 0.5
    if c == 2:
        return rng.randint(-5, 300)
    if c == 3:
        return rng.choice([0.5, -1.25, 100000.0, 1e-3, float("nan"), float("inf"), 0.1])
    if c in (4, 5):
        return rng.choice(STRS)
    if c == 6:
        return np.int64(rng.randint(-5, 50))
    if c == 7:
        return rng.choice([np.float32(1.5), np.float64(0.1), np.float32(-0.25)])
    if c == 8:
        return np.bool_(rng.random() < 0.5)
    shape = rng.choice([(3,), (2, 2), (0,), (1, 3)])
    kind = rng.choice(["i", "f", "b"])
    a = np.arange(int(np.prod(shape))).reshape(shape)
    return a.astype({"i": np.int64, "f": np.float64, "b": bool}[kind]) * (0.5 if kind == "f" else 1)


def gen_val(rng, depth, numpy_ok=True, bad=False):
    r = rng.random()
    if depth <= 0 or r < 0.4:
        return gen_scalar(rng, numpy_ok)
    if r < 0.6:
        return tuple(gen_val(rng, depth - 1, numpy_ok, bad) for _ in range(rng.randint(0, 3)))
    if r < 0.75:
        return [gen_val(rng, depth - 1, numpy_ok, bad) for _ in range(rng.randint(0, 3))]
    return gen_dict(rng, depth - 1, numpy_ok, bad)


def gen_dict(rng, depth, numpy_ok=True, bad=False, top=False):
    d = {}
    for _ in range(rng.randint(0, 4)):
        k = rng.choice(KEYS)
        if top and k in ("_type", "_value"):
            continue
        if bad and rng.random() < 0.2:
            k = rng.randint(0, 3)
        v = gen_val(rng, depth, numpy_ok, bad)
        if k == "_type" and not bad and isinstance(v, str) and v == "tuple":
            continue
        if k in ("_value", "_type") and (isinstance(v, np.ndarray) or hasattr(v, "__array__")):
            continue  # never JSON-shaped: iterating / comparing an array with "tuple" is outside the model of decode_types
        d[k] = v
    if bad and not top and rng.random() < 0.3:
        d["_type"] = "tuple"
        c = rng.random()
        if c < 0.5:
            d["_value"] = [gen_val(rng, 1, numpy_ok, False) for _ in range(rng.randint(0, 2))]
        elif c < 0.65:
            d["_value"] = rng.choice(["ab", 5, None, {"p": 1}])
    return d


def is_good(v):
    """the guard of the theorem (mirrors Json.Good) on Python values"""
    if isinstance(v, dict):
        for k, x in v.items():
            if not isinstance(k, str) or not is_good(x):
                return False
        return True
    if isinstance(v, (list, tuple)):
        return all(is_good(x) for x in v)
    return True


# ------------------------------------------------------------------ the real closures
def _nested_function(outer, name, extra=None):
    """compile the nested helper `name` out of the source of `outer` (it is a closure and cannot be imported)"""
    src = textwrap.dedent(inspect.getsource(outer))
    tree = ast.parse(src)
    for n in ast.walk(tree):
        if isinstance(n, ast.FunctionDef) and n.name == name and n is not tree.body[0]:
            mod = ast.Module(body=[n], type_ignores=[])
            ns = {"np": np}
            ns.update(extra or {})
            exec(compile(mod, f"<{outer.__qualname__}.{name}>", "exec"), ns)
            return ns[name]
    raise RuntimeError(f"{name} not found in {outer.__qualname__}")


def real_functions():
    import abtem.array as arr
    return (_nested_function(arr.ComputableList.to_zarr, "encode_types"), _nested_function(arr.from_zarr, "decode_types"))


def call(f, *a):
    try:
        return "ok " + wire(f(*a))
    except Exception as e:  # noqa
        return "err:" + err_kind(e)


class Store:
    """zarr attribute storage round trip (write, reopen, read)"""

    def __init__(self, tmp):
        self.path = os.path.join(tmp, "attrs.zarr")

    def __call__(self, v):
        import zarr
        root = zarr.open(self.path, mode="w")
        root.attrs["k"] = v
        return zarr.open(self.path, mode="r").attrs["k"]


def zarr_roundtrip(obj, tmp, zip_=False, lazy=False, name="x"):
    import abtem
    url = os.path.join(tmp, name + (".zip" if zip_ else ".zarr"))
    if os.path.exists(url):
        shutil.rmtree(url) if os.path.isdir(url) else os.remove(url)
    if lazy:
        obj = obj.ensure_lazy()
    obj.to_zarr(url, progress_bar=False)
    back = abtem.from_zarr(url)
    return back


# ------------------------------------------------------------------ axes
def axis_classes():
    from abtem.core import axes as A
    from abtem.inelastic import plasmons as P
    out = []
    for mod in (A, P):
        for n, c in vars(mod).items():
            if isinstance(c, type) and dataclasses.is_dataclass(c) and c.__module__ == mod.__name__ and c not in out:
                out.append(c)
    return out


def gen_axis(rng, cls, n=3, numpy_ok=True, zero_dim=False):
    """random instance of an axis class with n items where it has values"""
    kw = {}
    for f in dataclasses.fields(cls):
        if f.name == "values" and cls.__name__ == "PlasmonAxis":
            kw["values"] = tuple((0.5, 1.0 + i, 0.25 * i, i) for i in range(n))
        elif f.name == "values":
            kind = rng.choice(["i", "f", "s", "tt", "np", "npt", "np2"]) if numpy_ok else rng.choice(["i", "f", "s", "tt"])
            if kind == "i":
                kw["values"] = tuple(range(n))
            elif kind == "f":
                kw["values"] = tuple(0.5 * i for i in range(n))
            elif kind == "s":
                kw["values"] = tuple(f"v{i}" for i in range(n))
            elif kind == "tt":
                kw["values"] = tuple((0.25 * i, -0.5 * i) for i in range(n))
            elif kind == "np":
                kw["values"] = np.arange(n) * 0.5
            elif kind == "npt":
                kw["values"] = tuple(np.arange(n) * 0.5)
            else:
                kw["values"] = np.stack([np.arange(n) * 0.5, np.arange(n) * 0.25], axis=1)
        elif f.name in ("sampling", "offset"):
            kw[f.name] = rng.choice([0.5, 0.125, 2.0, np.float32(0.25), np.array(0.5)] if (numpy_ok and zero_dim) else
                                    ([0.5, 0.125, 2.0, np.float32(0.25)] if numpy_ok else [0.5, 0.125, 2.0]))
        elif f.name in ("label", "units", "tex_label", "tex_units"):
            if rng.random() < 0.6:
                kw[f.name] = rng.choice(["x", "Å", "mrad", "$C_{10}$", "x y", ""])
        elif f.type in ("bool", bool) and rng.random() < 0.4:
            kw[f.name] = rng.random() < 0.5
        elif f.name == "direction" and rng.random() < 0.5:
            kw[f.name] = "y"
    return cls(**kw)


def axis_fields(a):
    return {f.name: getattr(a, f.name) for f in dataclasses.fields(a)}


# ------------------------------------------------------------------ array objects
KINDS = ["Images", "DiffractionPatterns", "DiffractionPatternsNoShift", "RealSpaceLineProfiles", "ReciprocalSpaceLineProfiles",
         "PolarMeasurements", "IndexedDiffractionPatterns", "MeasurementsEnsemble", "Waves", "WavesReciprocal", "PotentialArray",
         "PotentialArrayExit", "SMatrixArray", "TransmissionFunction", "StructureFactorArray", "TransitionPotentialArray",
         "MagneticFieldArray", "VectorPotentialArray"]
ENSEMBLE_AXES = ["OrdinalAxis", "NonLinearAxis", "ParameterAxis", "PositionsAxis", "ThicknessAxis", "TiltAxis", "AxisAlignedTiltAxis",
                 "FrozenPhononsAxis", "ScanAxis", "RealSpaceAxis", "UnknownAxis", "LinearAxis", "WaveVectorAxis", "PrismPlaneWavesAxis",
                 "SampleAxis", "AxisMetadata", "ReciprocalSpaceAxis", "PlasmonAxis"]
COMPLEX_ONLY = {"Waves", "WavesReciprocal", "SMatrixArray", "TransmissionFunction", "StructureFactorArray", "TransitionPotentialArray"}


def axis_class(name):
    from abtem.core import axes as A
    if hasattr(A, name):
        return getattr(A, name)
    from abtem.inelastic import plasmons as P
    return getattr(P, name)


def build_object(case):
    import abtem
    from abtem.core import axes as A
    from abtem import measurements as M
    rng = __import__("random").Random(case["seed"])
    nprng = np.random.default_rng(case["seed"])
    kind = case["kind"]
    ens_shape = tuple(case["ens_shape"])
    ens = [gen_axis(rng, axis_class(n), m, numpy_ok=case.get("numpy_axes", False)) for n, m in zip(case["ens_axes"], ens_shape)]
    dtype = np.dtype(case["dtype"])

    def arr(shape):
        a = nprng.integers(-8, 9, size=shape).astype(np.float64)
        if dtype.kind == "c":
            a = a + 1j * nprng.integers(-8, 9, size=shape)
        return a.astype(dtype)

    md = copy.deepcopy(case.get("metadata") or {})
    if kind == "Images":
        return M.Images(arr(ens_shape + (4, 5)), sampling=(0.125, 0.25), ensemble_axes_metadata=ens, metadata=md)
    if kind in ("DiffractionPatterns", "DiffractionPatternsNoShift"):
        return M.DiffractionPatterns(arr(ens_shape + (4, 5)), sampling=(0.125, 0.25), fftshift=kind == "DiffractionPatterns",
                                     ensemble_axes_metadata=ens, metadata=dict(md, energy=100e3))
    if kind == "RealSpaceLineProfiles":
        return M.RealSpaceLineProfiles(arr(ens_shape + (6,)), sampling=0.125, ensemble_axes_metadata=ens,
                                       metadata=dict(md, start=(0.0, 0.0), end=(1.0, 1.0)))
    if kind == "ReciprocalSpaceLineProfiles":
        return M.ReciprocalSpaceLineProfiles(arr(ens_shape + (6,)), sampling=0.125, ensemble_axes_metadata=ens, metadata=dict(md, energy=100e3))
    if kind == "PolarMeasurements":
        return M.PolarMeasurements(arr(ens_shape + (4, 5)), radial_sampling=1.0, azimuthal_sampling=0.5, radial_offset=2.0,
                                   azimuthal_offset=0.25, ensemble_axes_metadata=ens, metadata=dict(md, energy=100e3))
    if kind == "IndexedDiffractionPatterns":
        return M.IndexedDiffractionPatterns(arr(ens_shape + (4,)), miller_indices=np.array([[0, 0, 0], [1, 0, 0], [0, 1, 0], [1, 1, 0]]),
                                            reciprocal_lattice_vectors=np.eye(3), ensemble_axes_metadata=ens, metadata=dict(md, energy=100e3))
    if kind == "MeasurementsEnsemble":
        return M.MeasurementsEnsemble(arr(ens_shape), ensemble_axes_metadata=ens, metadata=md)
    if kind in ("Waves", "WavesReciprocal"):
        return abtem.Waves(arr(ens_shape + (4, 4)), energy=100e3, sampling=(0.125, 0.25), reciprocal_space=kind == "WavesReciprocal",
                           ensemble_axes_metadata=ens, metadata=md)
    if kind in ("PotentialArray", "PotentialArrayExit"):
        from abtem.potentials.iam import PotentialArray
        return PotentialArray(arr(ens_shape + (2, 4, 4)), slice_thickness=(0.5, 1.0), sampling=(0.125, 0.25),
                              exit_planes=(0, 1) if kind == "PotentialArrayExit" else None, ensemble_axes_metadata=ens, metadata=md)
    if kind == "SMatrixArray":
        from abtem.prism.s_matrix import SMatrixArray
        wv = np.array([[0, 0], [.125, 0], [0, .125], [-.125, 0], [0, -.125]], np.float32)
        extra = {} if case["seed"] % 2 else dict(interpolation=2, window_gpts=(2, 2), window_offset=(1, 0), periodic=(True, False))
        return SMatrixArray(arr(ens_shape + (5, 4, 4)), wave_vectors=wv, semiangle_cutoff=20.0, energy=100e3, sampling=(0.125, 0.25),
                            ensemble_axes_metadata=ens, metadata=md, **extra)
    if kind == "TransmissionFunction":
        from abtem.potentials.iam import TransmissionFunction
        return TransmissionFunction(arr((2, 4, 4)), slice_thickness=(0.5, 1.0), sampling=(0.125, 0.25), energy=100e3, metadata=md)
    if kind in ("MagneticFieldArray", "VectorPotentialArray"):
        from abtem.magnetism import iam as MI
        return getattr(MI, kind)(arr(ens_shape + (2, 3, 4, 4)), slice_thickness=(0.5, 1.0), sampling=(0.125, 0.25),
                                 ensemble_axes_metadata=ens, metadata=md)
    if kind == "StructureFactorArray":
        from abtem.bloch.dynamical import StructureFactorArray
        return StructureFactorArray(arr(ens_shape + (4,)), hkl=np.array([[0, 0, 0], [1, 0, 0], [0, 1, 0], [1, 1, 0]]), cell=np.eye(3) * 4,
                                    g_max=2.0, centering="P" if case["seed"] % 2 else "F", ensemble_axes_metadata=ens, metadata=md)
    if kind == "TransitionPotentialArray":
        from abtem.inelastic.core_loss import TransitionPotentialArray
        return TransitionPotentialArray(14, arr(ens_shape + (4, 4)), energy=100e3, sampling=(0.125, 0.25), ensemble_axes_metadata=ens, metadata=md)
    raise ValueError(kind)


def compare_objects(o, b):
    """differences between the original and the reloaded object (empty = property holds)"""
    diffs = []
    if type(o) is not type(b):
        return [["type", type(o).__name__, type(b).__name__]]
    oa = np.asarray(o.compute().array if o.is_lazy else o.array)
    ba = np.asarray(b.compute().array if b.is_lazy else b.array)
    if oa.dtype != ba.dtype:
        diffs.append(["dtype", str(oa.dtype), str(ba.dtype)])
    if oa.shape != ba.shape or not np.array_equal(oa, ba, equal_nan=True):
        diffs.append(["array", list(oa.shape), list(ba.shape)])
    if len(o.axes_metadata) != len(b.axes_metadata):
        diffs.append(["naxes", len(o.axes_metadata), len(b.axes_metadata)])
    for i, (x, y) in enumerate(zip(o.axes_metadata, b.axes_metadata)):
        if type(x) is not type(y):
            diffs.append([f"axis{i}-type", type(x).__name__, type(y).__name__])
            continue
        fx, fy = normalise(axis_fields(x)), normalise(axis_fields(y))
        for k in fx:
            vx, vy = fx[k], fy[k]
            if k == "values":  # array-valued `values` are documented to come back as tuples of (nested) lists
                vx = tuple(vx) if isinstance(vx, list) else vx
            if not strict_same(vx, vy):
                diffs.append([f"axis{i}.{k}", repr(vx)[:80], repr(vy)[:80]])
    mo, mb = normalise(o.metadata), normalise(b.metadata)
    if not strict_same(mo, mb):
        diffs.append(["metadata", repr(mo)[:200], repr(mb)[:200]])
    # every other constructor keyword (wave_vectors, exit_planes, miller_indices, slice_thickness, energy, cell …)
    ko = o._copy_kwargs(exclude=("array", "metadata", "ensemble_axes_metadata"))
    kb = b._copy_kwargs(exclude=("array", "metadata", "ensemble_axes_metadata"))
    if sorted(ko) != sorted(kb):
        diffs.append(["kwargs-keys", sorted(ko), sorted(kb)])
    for k in ko:
        if k in kb and not kw_same(ko[k], kb[k]):
            diffs.append([f"kwargs.{k}", repr(ko[k])[:80], repr(kb[k])[:80]])
    return diffs


def kw_same(x, y):
    """constructor keywords: same kind of object (ndarray / ASE Cell / tuple / list / scalar / None — a list where an array or a
    Cell was is a difference: downstream code indexes with them) and numerically equal"""
    def kind(v):
        if v is None:
            return "none"
        if isinstance(v, np.ndarray):
            return "ndarray"
        if type(v).__name__ == "Cell":
            return "Cell"
        if isinstance(v, (str, bool)):
            return type(v).__name__
        if isinstance(v, (tuple, list)):
            return type(v).__name__
        if isinstance(v, (int, float, complex, np.generic)):
            return "number"
        return type(v).__name__
    if kind(x) != kind(y):
        return False
    if x is None:
        return True
    if isinstance(x, (str, bool)):
        return x == y
    try:
        ax, ay = np.asarray(x), np.asarray(y)
        if ax.dtype == object or ay.dtype == object:
            return repr(x) == repr(y)
        return ax.shape == ay.shape and ax.dtype.kind == ay.dtype.kind and np.array_equal(ax, ay, equal_nan=True)
    except Exception:  # noqa
        return repr(x) == repr(y)


# ------------------------------------------------------------------ property
class C30(Property):
    id = "C30"
    props_file = "AbtemVerif/Props/C30.lean"
    drive_file = "AbtemVerif/Drive/C30.lean"
    trusted = [
        "hand model Model/Json.lean of encode_types / decode_types (closures inside to_zarr / from_zarr, extracted from the current "
        "source text and executed by the harness), of JSON attribute storage, of axis_to_dict / axis_from_dict and of the metadata "
        "packing (tied by differential correspondence; fingerprints in the evidence)",
        "generated table Gen/AxesClasses.lean of the @dataclass declarations of abtem/core/axes.py (tools/py2lean_dataclass.py); the "
        "model of dataclass field collection (single inheritance, overriding keeps position) is compared with dataclasses.fields()",
        "JSON/ZARR: zarr stores attributes with json.dumps/loads semantics (checked against the real zarr store on every run) and "
        "arrays bit-exactly (checked by the conformance oracle, not modelled)",
    ]
    assumptions = ["the array payload, dtype and chunking are outside the Lean model: only observed (reload == original) by the oracle",
                   "floats are opaque payloads in the model; their JSON text round trip (repr) is Python's/zarr's"]
    rule = ("random metadata trees (depth <= 3; None/bool/int/float incl. nan/inf/str/tuple/list/dict, numpy scalars and arrays; a "
            "malformed stream with int keys, dicts carrying `_type: tuple` with/without `_value`), every axis dataclass with random "
            "field values, malformed axis dicts; conformance: every array-object type x ensemble axis kinds x dtype x lazy/eager x "
            "directory/zip; distinct = distinct case JSON; non-trivial = the value contains a tuple, a numpy value or a nested dict")

    # -- correspondence ------------------------------------------------------------------
    def correspondence(self, ctx: Ctx):
        rng = ctx.rng
        enc, dec = real_functions()
        drv = LeanDriver(self.drive_file)
        tmp = tempfile.mkdtemp(prefix="c30_")
        try:
            store = Store(tmp)
            lines, jobs = [], []
            for i in range(ctx.n(300, 6000)):
                bad = i % 3 == 2
                v = gen_dict(rng, 3, True, bad) if rng.random() < 0.6 else gen_val(rng, 3, True, bad)
                w = wire(v)
                lines += [f"enc {w}", f"good {w}", f"norm {w}"]
                jobs += [("enc", v), ("good", v), ("norm", v)]
                e = enc(copy.deepcopy(v))
                lines.append(f"dec {wire(e)}")
                jobs.append(("dec", e))
                if bad:  # decode arbitrary (not necessarily encoded) values as well
                    lines.append(f"dec {w}")
                    jobs.append(("dec", v))
                if i % 4 == 0:
                    lines.append(f"store {wire(e)}")
                    jobs.append(("store", e))
                    v2 = gen_val(rng, 2, False, True)
                    lines.append(f"store {wire(v2)}")
                    jobs.append(("store", v2))
                    if i % 8 == 0 and "nf:" not in w:  # np.float64 subclasses float (json accepts it), np.float32 does not: one `npfloat` in the model
                        lines.append(f"store {w}")
                        jobs.append(("store", v))
            # full pipeline on the real files
            for i in range(ctx.n(40, 600)):
                md = gen_dict(rng, 2, True, i % 3 == 2, top=True)
                if i % 10 == 9:
                    md[rng.choice(RESERVED)] = rng.choice(["mine", 5])
                lines.append(f"pipe {wire(md)}")
                jobs.append(("pipe", md))
            # axes
            classes = axis_classes()
            for c in classes:
                lines.append(f"fields {c.__name__}")
                jobs.append(("fields", c))
            for i in range(ctx.n(150, 2000)):
                c = rng.choice(classes)
                a = gen_axis(rng, c, rng.randint(0, 3), zero_dim=True)   # 0-d array fields: axis_to_dict raises TypeError
                lines.append(f"axisrt {c.__name__} {wire(axis_fields(a))}")
                jobs.append(("axisrt", a))
            from abtem.core import axes as A
            for i in range(ctx.n(60, 600)):
                d = A.axis_to_dict(gen_axis(rng, rng.choice(classes), 2, numpy_ok=False))
                m = rng.random()
                if m < 0.3:
                    d.pop(rng.choice(list(d)))
                elif m < 0.5:
                    d["bogus"] = 1
                elif m < 0.65:
                    d["type"] = rng.choice(["NoSuchAxis", 5, "Axis"])
                lines.append(f"fromdict {wire(d)}")
                jobs.append(("fromdict", d))
            outs = drv.query(lines)
            for (op, x), out in zip(jobs, outs):
                if op == "enc":
                    ctx.agree("encode_types", x, out, call(enc, copy.deepcopy(x)))
                    nontrivial = any(t in wire(x) for t in ("t:", "n", "a ", "d:"))
                    ctx.case({"value": wire(x)}, nontrivial=nontrivial)
                    ctx.count(f"value:good={is_good(x)}")
                elif op == "good":
                    ctx.agree("guard Good (harness twin)", x, out, "T" if is_good(x) else "F")
                elif op == "norm":
                    ctx.agree("stated normalisation", x, out, "ok " + wire(normalise(x)))
                elif op == "dec":
                    ctx.agree("decode_types", x, out, call(dec, copy.deepcopy(x)))
                    ctx.count(f"dec:{out.split(' ')[0]}")
                elif op == "store":
                    ctx.agree("zarr attribute storage (json)", x, out, call(store, copy.deepcopy(x)))
                    ctx.count(f"store:{out.split(' ')[0]}")
                elif op == "pipe":
                    from abtem import measurements as M
                    try:
                        o = M.Images(np.zeros((2, 2), np.float32), sampling=0.5, metadata=copy.deepcopy(x))
                        back = zarr_roundtrip(o, tmp, name=f"p{len(ctx.samples)}")
                        got = "ok " + wire(back.metadata)
                    except Exception as e:  # noqa
                        got = "err:" + err_kind(e)
                    ctx.agree("to_zarr/from_zarr metadata pipeline", x, out, got)
                    ctx.count(f"pipe:{got.split(' ')[0]}")
                    ctx.case({"pipeline-metadata": wire(x)})
                    ctx.traces += 1
                elif op == "fields":
                    fs = {f.name: (f.default if f.default is not dataclasses.MISSING else "<no default>") for f in dataclasses.fields(x)}
                    ctx.agree("dataclass fields (names, order, defaults)", x.__name__, out, "ok " + wire(fs))
                elif op == "axisrt":
                    try:
                        b = A.axis_from_dict(A.axis_to_dict(x))
                        got = f"ok {type(b).__name__} {wire(axis_fields(b))}"
                    except Exception as e:  # noqa
                        got = "err:" + err_kind(e)
                    ctx.agree("axis_from_dict(axis_to_dict(a))", wire(axis_fields(x)), out, got)
                    ctx.case({"axis": type(x).__name__, "fields": wire(axis_fields(x))})
                    ctx.count(f"axis:{type(x).__name__}")
                elif op == "fromdict":
                    try:
                        b = A.axis_from_dict(copy.deepcopy(x))
                        got = f"ok {type(b).__name__} {wire(axis_fields(b))}"
                    except Exception as e:  # noqa
                        got = "err:" + err_kind(e)
                    ctx.agree("axis_from_dict (malformed dicts)", wire(x), out, got)
                    ctx.count(f"fromdict:{got.split(' ')[0]}")
        finally:
            shutil.rmtree(tmp, ignore_errors=True)

    # -- conformance --------------------------------------------------------------------
    def gen_case(self, ctx: Ctx, i):
        rng = ctx.rng
        kind = KINDS[i % len(KINDS)] if i < 2 * len(KINDS) else rng.choice(KINDS)
        n_ens = rng.choice([0, 1, 1, 2])
        if kind in ("MeasurementsEnsemble",):
            n_ens = max(n_ens, 1)
        if kind == "TransmissionFunction":
            n_ens = 0
        dtype = "complex64" if kind in COMPLEX_ONLY else rng.choice(["float32", "float64", "complex64", "complex128", "int32"])
        if kind in ("PotentialArray", "PotentialArrayExit") and dtype == "int32":
            dtype = "float32"
        r = rng.random()
        md = gen_dict(rng, 2, True, False, top=True)
        for k in RESERVED + ["energy", "start", "end"]:
            md.pop(k, None)
        case = {"kind": kind, "ens_axes": [rng.choice(ENSEMBLE_AXES) for _ in range(n_ens)],
                "ens_shape": [rng.randint(1, 3) for _ in range(n_ens)], "dtype": dtype, "lazy": rng.random() < 0.5,
                "zip": rng.random() < 0.4, "seed": rng.randint(0, 10**6), "numpy_axes": rng.random() < 0.3,
                "metadata_wire": wire(md), "special": None}
        if i % 25 == 7:
            case["special"] = "reserved-key"
        elif i % 25 == 13:
            case["special"] = "fake-tuple"
        return case, md

    def oracle(self, ctx: Ctx, case, md=None):
        if md is None:
            md = parse_wire(case["metadata_wire"])
        md = copy.deepcopy(md)
        if case.get("special") == "reserved-key":
            md["type"] = "mine"
        elif case.get("special") == "fake-tuple":
            md["note"] = {"_type": "tuple", "_value": [1, 2]}
        full = dict(case, metadata=md)
        kind = case["kind"]
        tmp = tempfile.mkdtemp(prefix="c30_")
        try:
            try:
                o = build_object(full)
            except Exception as e:  # noqa  — a recipe that cannot even construct its object is a broken check, not a skipped case
                raise RuntimeError(f"conformance recipe for {kind} failed to build: {type(e).__name__}: {e}")
            try:
                back = zarr_roundtrip(o, tmp, zip_=case["zip"], lazy=case["lazy"])
            except Exception as e:  # noqa
                stage = "save-or-load"
                ctx.violation(f"{kind}-roundtrip-raises-{type(e).__name__}", case, {"error": f"{type(e).__name__}: {e}"[:300], "stage": stage})
                return "raises"
            if isinstance(back, list):
                ctx.violation(f"{kind}-reload-returns-list", case, {"n": len(back)})
                return "list"
            diffs = compare_objects(o, back)
            if diffs:
                what = diffs[0][0].split(".")[0].rstrip("0123456789")
                key = f"{kind}-{what}-changed"
                ctx.violation(key, case, {"diffs": diffs[:5]})
                return "diff"
            return "ok"
        finally:
            shutil.rmtree(tmp, ignore_errors=True)

    def conformance(self, ctx: Ctx):
        for i in range(ctx.n(110, 2500)):
            case, md = self.gen_case(ctx, i)
            r = self.oracle(ctx, case, md)
            ctx.count(f"conf:{case['kind']}:{r}")
            ctx.case(case, nontrivial=bool(case["ens_axes"]) or len(case["metadata_wire"]) > 4)

    def replay(self, ctx: Ctx, case):
        self.oracle(ctx, case)


def parse_wire(s):
    toks = s.split(" ")

    def p(i):
        t = toks[i]
        if t == "N":
            return None, i + 1
        if t == "a":
            v, j = p(i + 1)
            return np.array(v), j
        if t == "al":
            v, j = p(i + 1)
            return ArrLike(v), j
        tag, _, rest = t.partition(":")
        if tag == "b":
            return rest == "T", i + 1
        if tag == "i":
            return int(rest), i + 1
        if tag == "f":
            return float(rest), i + 1
        if tag == "s":
            return unesc(rest), i + 1
        if tag == "ni":
            return np.int64(int(rest)), i + 1
        if tag == "nf":
            return np.float64(float(rest)), i + 1
        if tag == "nb":
            return np.bool_(rest == "T"), i + 1
        if tag in ("t", "l"):
            xs, j = [], i + 1
            for _ in range(int(rest)):
                v, j = p(j)
                xs.append(v)
            return (tuple(xs) if tag == "t" else xs), j
        if tag == "d":
            d, j = {}, i + 1
            for _ in range(int(rest)):
                kt = toks[j]
                k = unesc(kt[3:]) if kt.startswith("ks:") else int(kt[3:])
                v, j = p(j + 1)
                d[k] = v
            return d, j
        raise ValueError(t)

    v, j = p(0)
    assert j == len(toks)
    return v


if __name__ == "__main__":
    sys.exit(run_property(C30()))
