"""C19 — ensemble partitioning reassembles every member exactly once (scans, distributions, frozen phonons,
array-object ensemble axes, wave-builder chunk splits); lazy and eager partitioning agree."""
import sys
from fractions import Fraction

import numpy as np

import json

from common import Ctx, LeanDriver, Property, close, err_kind, frac, jsonable, list_s, listlist_s, rat_s, run_property

AXIS_KINDS = ["ordinal", "nonlinear", "scan", "linear", "positions", "unknown"]


def rand_partition(rng, s, zeros=False):
    """random chunk sizes summing to s; with `zeros`, zero-size chunks (legal for validate_chunks) are inserted sometimes"""
    out = []
    while s > 0:
        c = rng.randint(1, s)
        out.append(c)
        s -= c
    if zeros and rng.random() < 0.3:
        out.insert(rng.randint(0, len(out)), 0)
    return out


def tt(chunks):
    return tuple(tuple(c) for c in chunks) if isinstance(chunks, list) else chunks


# ----------------------------------------------------------------------------- building ensembles from a case
_ATOMS = None


def atoms():
    global _ATOMS
    if _ATOMS is None:
        from ase.build import bulk

        _ATOMS = bulk("Si", cubic=True)
    return _ATOMS.copy()


def make_axis(kind, n, p):
    from abtem.core.axes import LinearAxis, NonLinearAxis, OrdinalAxis, PositionsAxis, ScanAxis, UnknownAxis

    if kind == "ordinal":
        return OrdinalAxis(values=tuple(f"v{i}" for i in range(n)))
    if kind == "nonlinear":
        return NonLinearAxis(values=tuple(float(p["offset"] + i * i) for i in range(n)), units="mrad")
    if kind == "scan":
        return ScanAxis(label="x", sampling=p["sampling"], offset=p["offset"], units="Å")
    if kind == "linear":
        return LinearAxis(sampling=p["sampling"], offset=p["offset"])
    if kind == "positions":
        return PositionsAxis(values=tuple((float(i), float(2 * i)) for i in range(n)))
    return UnknownAxis()


def build(case):
    import abtem

    k = case["kind"]
    if k == "custom":
        return abtem.CustomScan([(float(i), float(case["y0"] + i)) for i in range(case["n"])])
    if k == "grid":
        g, s, st = case["gpts"], case["sampling"], case["start"]
        ep = case["endpoint"]
        end = tuple(st[i] + (g[i] - 1 if ep and g[i] > 1 else g[i]) * s[i] for i in range(2))
        return abtem.GridScan(start=tuple(st), end=end, gpts=tuple(g), endpoint=ep)
    if k == "line":
        n, ep, s, d, st = case["n"], case["endpoint"], case["sampling"], case["dir"], case["start"]
        L = (n - 1 if ep and n > 1 else n) * s
        return abtem.LineScan(start=tuple(st), end=(st[0] + L * d[0], st[1] + L * d[1]), gpts=n, endpoint=ep)
    if k == "ctf":
        names = ["defocus", "Cs", "astigmatism", "coma"]
        kw = {names[i]: abtem.distributions.from_values([float(10 * i + j) for j in range(n)], weights=np.arange(n) + 1.0)
              for i, n in enumerate(case["ns"])}
        return abtem.CTF(energy=100e3, semiangle_cutoff=20, **kw)
    if k == "fp":
        return abtem.FrozenPhonons(atoms(), num_configs=case["n"], sigmas=0.1, seed=tuple(case["seed0"] + 7 * i for i in range(case["n"])))
    if k == "atoms_ensemble":
        traj = []
        for i in range(case["n"]):
            a = atoms()
            a.positions[0, 0] += 0.01 * (i + 1)
            traj.append(a)
        return abtem.AtomsEnsemble(traj)
    if k in ("probe", "planewave"):
        kw = dict(energy=100e3, gpts=8, extent=4.0)
        if k == "planewave":
            return abtem.PlaneWave(tilt=(abtem.distributions.from_values([float(j) for j in range(case["ns"][0])]), 0.0), **kw)
        names = ["defocus", "Cs"]
        for i, n in enumerate(case["ns"]):
            kw[names[i]] = abtem.distributions.from_values([float(10 * i + j) for j in range(n)])
        if case.get("scan"):
            kw["scan_positions"] = build(case["scan"])
        return abtem.Probe(semiangle_cutoff=20, **kw)
    if k == "images":
        shape = case["shape"]
        axes = [make_axis(a, n, case) for a, n in zip(case["axes"], shape)]
        arr = np.arange(int(np.prod(shape)) * 4, dtype=np.float32).reshape(tuple(shape) + (2, 2))
        from abtem.measurements import Images

        im = Images(arr, sampling=0.1, ensemble_axes_metadata=axes)
        return im.ensure_lazy() if case.get("lazy") else im
    raise ValueError(k)


def coords(axis, n):
    if hasattr(axis, "values"):
        return list(axis.values)
    if hasattr(axis, "offset"):
        return [float(axis.offset) + i * float(axis.sampling) for i in range(n)]
    return [None] * n


def members(e, line_ref=None):
    """object array over the ensemble shape: what identifies each member (axis coordinates, positions, seeds,
    distribution values and weights, array data).  `line_ref` = start of the whole LineScan: the `r` axis of a LineScan
    block is measured from the block's own start, so it is mapped back through the distance of that start from `line_ref`"""
    import abtem
    from abtem.array import ArrayObject

    shape = tuple(e.ensemble_shape)
    out = np.empty(shape, dtype=object)
    axes = e.ensemble_axes_metadata
    pos = None
    npos = len(shape)
    scan = e if isinstance(e, abtem.scan.BaseScan) else getattr(e, "scan_positions", None)
    if scan is not None and len(scan.ensemble_shape):
        npos = len(scan.ensemble_shape)  # the scan axes are the last ensemble axes of a wave builder
        pos = np.asarray(scan.get_positions(), dtype=float).reshape(tuple(scan.ensemble_shape) + (2,))
    shift = 0.0
    if isinstance(scan, abtem.LineScan) and line_ref is not None:
        shift = float(np.linalg.norm(np.array(scan.start, dtype=float) - np.array(line_ref, dtype=float)))
    dists = []
    if hasattr(e, "_distribution_properties"):
        dists = list(e._distribution_properties.values())
    arr = None
    if isinstance(e, ArrayObject):
        arr = np.asarray(e.compute().array) if e.is_lazy else np.asarray(e.array)
    for idx in np.ndindex(*shape):
        d = []
        for i, a in enumerate(axes):
            if isinstance(e, abtem.AtomsEnsemble):
                continue  # block AtomsEnsembles carry `[UnknownAxis()] * n` placeholders by explicit code; members = configurations
            v = coords(a, shape[i])[idx[i]]
            if isinstance(scan, abtem.LineScan) and i >= len(shape) - npos and isinstance(v, (float, np.floating)):
                v = float(v) + shift
            d.append((type(a).__name__, _plain(v)))
        if pos is not None:
            d.append(("pos", _plain(tuple(pos[idx[len(shape) - npos:]]))))
        if isinstance(e, abtem.FrozenPhonons):
            d.append(("seed", int(e.seed[idx[0]])))
        if isinstance(e, abtem.AtomsEnsemble):
            d.append(("config", float(e.trajectory[idx[0]].positions[0, 0])))
        for i, dist in enumerate(dists):
            d.append(("dist", (float(np.asarray(dist.values)[idx[i]]), float(np.asarray(dist.weights)[idx[i]]))))
        if arr is not None:
            d.append(("data", _plain(tuple(arr[idx].ravel()[:2]))))
        out[idx] = tuple(d)
    return out


def _plain(v):
    if isinstance(v, (tuple, list, np.ndarray)):
        return tuple(_plain(x) for x in v)
    if isinstance(v, (float, np.floating)):
        return float(v)
    if isinstance(v, (int, np.integer)):
        return int(v)
    return v


def same(a, b, tol=2e-6):
    """member descriptors agree: exact for labels / ints / strings, floats to 2e-6 (scan positions are float32)"""
    if isinstance(a, (tuple, list)) and isinstance(b, (tuple, list)):
        return len(a) == len(b) and all(same(x, y, tol) for x, y in zip(a, b))
    if isinstance(a, float) or isinstance(b, float):
        try:
            return abs(float(a) - float(b)) <= tol * max(1.0, abs(float(a)), abs(float(b)))
        except (TypeError, ValueError):
            return False
    return a == b


def blocks_of(e, chunks, mode):
    from abtem.core.chunks import iterate_chunk_ranges, validate_chunks

    if mode == "eager":
        return [(tuple(i), s, b.item()) for i, s, b in e.generate_blocks(chunks)]
    arr = e.ensemble_blocks(chunks).compute(scheduler="synchronous")
    v = e._validate_ensemble_chunks(chunks)
    return [(tuple(i), s, arr[i]) for i, s in iterate_chunk_ranges(v)]


# ----------------------------------------------------------------------------- case generators
def gen_case(ctx: Ctx):
    rng = ctx.rng
    k = rng.choice(["custom", "grid", "grid", "line", "ctf", "ctf", "fp", "atoms_ensemble", "probe", "probe", "planewave", "images", "images", "images"])
    if k == "custom":
        c = dict(kind=k, n=rng.randint(1, 7), y0=rng.randint(0, 5))
        shape = [c["n"]]
    elif k == "grid":
        c = dict(kind=k, gpts=[rng.randint(1, 6), rng.randint(1, 6)], endpoint=rng.random() < 0.4,
                 sampling=[rng.choice([0.25, 0.5, 1.0, 0.3, 0.7]) for _ in range(2)], start=[rng.choice([0.0, 0.5, 1.25]), rng.choice([0.0, 2.0])])
        shape = c["gpts"]
    elif k == "line":
        c = dict(kind=k, n=rng.randint(1, 7), endpoint=rng.random() < 0.5, sampling=rng.choice([0.25, 0.5, 1.0, 0.3]),
                 dir=rng.choice([[1.0, 0.0], [0.0, 1.0], [0.6, 0.8], [0.0, 0.0]]), start=[rng.choice([0.0, 0.5]), rng.choice([0.0, 1.0])])
        shape = [c["n"]]
    elif k == "ctf":
        c = dict(kind=k, ns=[rng.randint(1, 4) for _ in range(rng.randint(1, 3))])
        shape = c["ns"]
    elif k == "fp":
        c = dict(kind=k, n=rng.randint(1, 6), seed0=rng.randint(0, 1000))
        shape = [c["n"]]
    elif k == "atoms_ensemble":
        c = dict(kind=k, n=rng.randint(1, 5))
        shape = [c["n"]]
    elif k == "planewave":
        c = dict(kind=k, ns=[rng.randint(1, 4)])
        shape = c["ns"]
    elif k == "probe":
        c = dict(kind=k, ns=[rng.randint(1, 3) for _ in range(rng.randint(0, 2))])
        sk = rng.choice(["none", "custom", "grid", "line"])
        shape = list(c["ns"])
        if sk == "custom":
            c["scan"] = dict(kind="custom", n=rng.randint(1, 4), y0=1)
            shape += [c["scan"]["n"]]
        elif sk == "grid":
            c["scan"] = dict(kind="grid", gpts=[rng.randint(1, 3), rng.randint(1, 3)], endpoint=False, sampling=[0.5, 0.25], start=[0.0, 0.5])
            shape += c["scan"]["gpts"]
        elif sk == "line":
            c["scan"] = dict(kind="line", n=rng.randint(1, 4), endpoint=rng.random() < 0.5, sampling=0.5, dir=[1.0, 0.0], start=[0.0, 0.5])
            shape += [c["scan"]["n"]]
    else:
        nd = rng.randint(1, 3)
        c = dict(kind=k, shape=[rng.randint(1, 5) for _ in range(nd)], axes=[rng.choice(AXIS_KINDS) for _ in range(nd)],
                 lazy=rng.random() < 0.4, sampling=rng.choice([0.25, 0.5, 0.3]), offset=rng.choice([0.0, 1.0, -0.75]))
        shape = c["shape"]
    r = rng.random()
    if r < 0.7 or not shape:
        zeros = True  # zero-size chunks are legal for validate_chunks (C18); two partitioners do not support empty blocks (known findings)
        c["chunks"] = [rand_partition(rng, s, zeros) for s in shape]
    elif r < 0.9:
        c["chunks"] = rng.randint(1, max(1, int(np.prod(shape))))
    else:
        c["chunks"] = [rng.randint(1, s) for s in shape]  # tuple of ints
        c["chunks_int_tuple"] = True
    return c


def chunks_arg(c):
    ch = c["chunks"]
    if isinstance(ch, int):
        return ch
    if c.get("chunks_int_tuple"):
        return tuple(ch)
    return tt(ch)


# ----------------------------------------------------------------------------- property
class C19(Property):
    id = "C19"
    props_file = "AbtemVerif/Props/C19.lean"
    drive_file = "AbtemVerif/Drive/C19.lean"
    trusted = [
        "hand model `Model/Ensemble.lean` of the slicing loops of CustomScan/LineScan/GridScan._partition_args, "
        "DistributionFromValues.divide, FrozenPhonons/AtomsEnsemble._partition_args, OrdinalAxis/LinearAxis blocks, "
        "WavesBuilder._chunk_splits and Ensemble.generate_blocks around the generated block arithmetic (tied by correspondence on the "
        "real partitioners' eager output)",
        "NUMPY-INDEXING: `a[start:stop]` on arrays/tuples is the Python slice modelled by `Partition.sliceRange`; "
        "numpy.linspace as modelled in Model/Linspace.lean",
        "DASK: da.blockwise / da.from_array(chunks=1) hand each block function exactly the block it was given (lazy == eager is "
        "observed by the conformance oracle, not proved)",
        "IEEE: scan block starts/ends are compared exactly for dyadic samplings and within 1e-12 otherwise",
    ]
    assumptions = ["chunks are valid (C18): per axis they sum to the ensemble shape; invalid chunkings are covered by C18's error model"]
    rule = ("random ensembles: CustomScan, GridScan, LineScan (axis-aligned and 3-4-5 directions), CTF with 1-3 parameter distributions, "
            "FrozenPhonons seeds, Probe with 0-2 distributions, PlaneWave tilt distribution, Images with 1-3 ensemble axes of kinds "
            "ordinal/nonlinear/scan/linear/positions/unknown (eager and lazy arrays); chunkings: random valid tuples, a single int "
            "limit, tuples of ints; distinct = distinct case JSON")

    # -- unit correspondence: real partitioners (eager args) vs the Lean model ---------------
    def correspondence(self, ctx: Ctx):
        import abtem
        from abtem.distributions import DistributionFromValues

        drv = LeanDriver(self.drive_file)
        rng = ctx.rng
        jobs = []  # (line, name, case, impl_value, parser)
        for _ in range(ctx.n(250, 4000)):
            n = rng.randint(0, 9)
            cs = rand_partition(rng, n)
            which = rng.choice(["custom", "dist", "dist-int", "dist-bad", "seeds", "ordinal", "grid", "line", "linax", "splits", "blockgrid"])
            ctx.count("unit:" + which)
            if which == "custom" and n > 0:
                sc = abtem.CustomScan([(float(i), 0.0) for i in range(n)])
                blocks = sc._partition_args((tuple(cs),), lazy=False)[0]
                impl = ["ok", [[int(round(p[0])) for p in b["positions"]] for b in blocks]]
                jobs.append((f"slice {n} {list_s(cs)}", "CustomScan._partition_args", dict(n=n, chunks=cs), impl, p_ll))
            elif which in ("dist", "dist-int", "dist-bad"):
                d = DistributionFromValues(np.arange(n, dtype=float), weights=np.arange(n, dtype=float) + 100)
                if which == "dist":
                    arg, enc = tuple(cs), "t" + list_s(cs)
                elif which == "dist-int":
                    m = rng.randint(-1, n + 2)
                    arg, enc = m, f"i{m}"
                else:
                    bad = [rng.randint(0, 4) for _ in range(rng.randint(0, 3))]
                    arg, enc = tuple(bad), "t" + list_s(bad)
                try:
                    bl = d.divide(arg, lazy=False)
                    aligned = all(np.array_equal(np.asarray(b.weights) - 100, np.asarray(b.values)) for b in bl)
                    impl = ["ok", [[int(v) for v in b.values] for b in bl]] if aligned else ["misaligned-weights"]
                except Exception as e:  # noqa
                    impl = ["err", err_kind(e)]
                jobs.append((f"dist {n} {enc}", "DistributionFromValues.divide", dict(n=n, chunks=arg), impl, p_ll))
            elif which == "seeds" and n > 0:
                fp = abtem.FrozenPhonons(atoms(), num_configs=n, sigmas=0.1, seed=tuple(range(n)))
                bl = fp._partition_args((tuple(cs),), lazy=False)[0]
                impl = ["ok", [[int(s) for s in b[1]] for b in bl]]
                jobs.append((f"rblocks {n} {list_s(cs)}", "FrozenPhonons._partition_args", dict(n=n, chunks=cs), impl, p_ll))
            elif which == "ordinal" and n > 0:
                im = build(dict(kind="images", shape=[n], axes=["ordinal"], sampling=1.0, offset=0.0))
                bl = im._partition_ensemble_axes_metadata((tuple(cs),), lazy=False)
                impl = ["ok", [[int(v[1:]) for v in b[0].values] for b in bl]]
                jobs.append((f"rblocks {n} {list_s(cs)}", "ArrayObject._partition_ensemble_axes_metadata[OrdinalAxis]", dict(n=n, chunks=cs), impl, p_ll))
            elif which == "grid" and n > 0:
                c = dict(kind="grid", gpts=[n, 1], endpoint=rng.random() < 0.4, sampling=[rng.choice([0.25, 0.5, 1.0, 0.3, 0.7]), 1.0],
                         start=[rng.choice([0.0, 0.5, 1.25]), 0.0])
                sc = build(c)
                bl = sc._partition_args((tuple(cs), (1,)), lazy=False)[0]
                impl = ["ok", [[frac(b["start"]), frac(b["end"]), int(b["gpts"])] for b in bl]]
                if any(b["endpoint"] for b in bl):
                    impl = ["endpoint-set"]
                jobs.append((f"grid {rat_s(sc.start[0])} {rat_s(sc.sampling[0])} {list_s(cs)}", "GridScan._partition_args", c | dict(chunks=cs), impl, p_blocks))
            elif which == "line" and n > 0:
                c = dict(kind="line", n=n, endpoint=rng.random() < 0.5, sampling=rng.choice([0.25, 0.5, 1.0, 0.3]),
                         dir=rng.choice([[1.0, 0.0], [0.0, 1.0], [0.6, 0.8], [0.0, 0.0]]), start=[rng.choice([0.0, 0.5]), rng.choice([0.0, 1.0])])
                sc = build(c)
                bl = [b for b in sc._partition_args((tuple(cs),), lazy=False)[0]]
                comp = rng.randint(0, 1)
                direction = (np.array(sc.end) - np.array(sc.start))
                nrm = np.linalg.norm(direction, axis=0)
                direction = direction / nrm if nrm > 0 else direction
                impl = ["ok", [[frac(b.start[comp]), frac(b.end[comp]), int(b.gpts)] for b in bl]]
                if any(b.endpoint for b in bl):
                    impl = ["endpoint-set"]
                jobs.append((f"line {rat_s(sc.start[comp])} {rat_s(sc.sampling)} {rat_s(direction[comp])} {list_s(cs)}",
                             "LineScan._partition_args", c | dict(chunks=cs, comp=comp), impl, p_blocks))
            elif which == "linax" and n > 0:
                c = dict(kind="images", shape=[n], axes=[rng.choice(["scan", "linear"])], sampling=rng.choice([0.25, 0.5, 0.3]), offset=rng.choice([0.0, 1.0, -0.75]))
                im = build(c)
                bl = im._partition_ensemble_axes_metadata((tuple(cs),), lazy=False)
                impl = ["ok", [[frac(b[0].offset), frac(b[0].sampling), k] for b, k in zip(bl, cs)]]
                jobs.append((f"linax {rat_s(c['offset'])} {rat_s(c['sampling'])} {list_s(cs)}",
                             "ArrayObject._partition_ensemble_axes_metadata[LinearAxis]", c | dict(chunks=cs), impl, p_blocks))
            elif which == "splits":
                c = dict(kind="probe", ns=[rng.randint(1, 3) for _ in range(rng.randint(0, 2))],
                         scan=rng.choice([None, dict(kind="custom", n=2, y0=0), dict(kind="grid", gpts=[2, 2], endpoint=False, sampling=[0.5, 0.5], start=[0.0, 0.0])]))
                probe = build(c)
                dims = [len(s) for s in probe._ensemble_shapes]
                impl = ["ok", [[int(a), int(b)] for a, b in probe._chunk_splits()]]
                jobs.append((f"splits {list_s(dims)}", "WavesBuilder._chunk_splits", c, impl, p_pairs))
                nargs = [len(e._partition_args(1, lazy=True)) for e in probe._ensembles.values()]
                impl2 = ["ok", [[int(a), int(b)] for a, b in probe._arg_splits()]]
                jobs.append((f"splits {list_s(nargs)}", "WavesBuilder._arg_splits", c, impl2, p_pairs))
            elif which == "blockgrid":
                c = dict(kind="ctf", ns=[rng.randint(1, 4) for _ in range(rng.randint(1, 3))])
                ch = [rand_partition(rng, s) for s in c["ns"]]
                e = build(c)
                impl = ["ok", [[list(i), [[s.start, s.stop] for s in sl]] for i, sl, _ in e.generate_blocks(tt(ch))]]
                jobs.append((f"blockgrid {listlist_s(ch)}", "Ensemble.generate_blocks(indices, slices)", c | dict(chunks=ch), impl, p_grid))
        outs = drv.query([j[0] for j in jobs])
        for (line, name, case, impl, parse), out in zip(jobs, outs):
            model = ["ok", parse(out[3:])] if out.startswith("ok ") else ["err", out[4:]] if out.startswith("err ") else ["?", out]
            ok = model == impl
            if not ok and parse is p_blocks and model[0] == "ok" == impl[0] and len(model[1]) == len(impl[1]):
                # non-dyadic sampling / direction: float64 rounding of start + k*sampling*d
                ok = all(m[2] == i[2] and close(m[0], i[0], 1e-12, 1e-12) and close(m[1], i[1], 1e-12, 1e-12) for m, i in zip(model[1], impl[1]))
                if ok:
                    ctx.boundary += 1
            ctx.agree(name, case | {"line": line}, model, impl, ok=ok)
            ctx.case(case | {"unit": name}, nontrivial=impl[0] == "ok")
        ctx.traces += len(jobs)

    # -- conformance: blocks reassemble to the original members; lazy == eager -------------------
    def oracle_inner(self, ctx: Ctx, c):
        e = build(c)
        kind = c["kind"] if c["kind"] != "images" else "array[" + ",".join(c["axes"]) + "]" + ("-lazy" if c.get("lazy") else "")
        chunks = chunks_arg(c)
        if isinstance(chunks, tuple) and len(chunks) != len(e.ensemble_shape):
            return
        import abtem

        sc = e if isinstance(e, abtem.scan.BaseScan) else getattr(e, "scan_positions", None)
        line_ref = sc.start if isinstance(sc, abtem.LineScan) else None
        full = members(e, line_ref)
        results = {}
        for mode in ("eager", "lazy"):
            try:
                blocks = blocks_of(e, chunks, mode)
            except Exception as ex:  # noqa
                results[mode] = ("err", err_kind(ex), str(ex)[:120])
                continue
            asm = np.empty(e.ensemble_shape, dtype=object)
            hits = np.zeros(e.ensemble_shape, dtype=int)
            bad = None
            for i, s, b in blocks:
                m = members(b, line_ref)
                want = tuple(sl.stop - sl.start for sl in s)
                if m.shape != want:
                    bad = {"block": list(i), "block_shape": list(m.shape), "expected": list(want)}
                    break
                for l in np.ndindex(*m.shape):
                    g = tuple(sl.start + k for sl, k in zip(s, l))
                    asm[g] = m[l]
                    hits[g] += 1
            if bad is None and not (hits == 1).all():
                bad = {"hits": hits.tolist()}
            if bad is None:
                diff = [(list(i), list(asm[i]), list(full[i])) for i in np.ndindex(*full.shape) if not same(asm[i], full[i])]
                if diff:
                    bad = {"index": diff[0][0], "from_blocks": diff[0][1], "original": diff[0][2]}
            results[mode] = ("ok", asm.tolist()) if bad is None else ("bad", bad)
            if bad is not None:
                tag = [p[0] for p, q in zip(bad.get("from_blocks", []), bad.get("original", [])) if not same(p, q)]
                ctx.violation(f"{kind.split('[')[0]}-blocks-do-not-reassemble:{'+'.join(sorted(set(tag))) or 'shape'}", c, {"mode": mode, **bad})
        valid = not isinstance(chunks, int) or chunks >= 1
        if results["eager"][0] != results["lazy"][0] or (results["eager"][0] == "ok" and not same(results["eager"][1], results["lazy"][1])):
            ctx.violation(f"{kind.split('[')[0]}-lazy-ne-eager-partition", c, {"eager": results["eager"][:2], "lazy": results["lazy"][:2]})
        elif results["eager"][0] == "err" and valid:
            ctx.violation(f"{kind.split('[')[0]}-valid-chunks-rejected", c, {"eager": results["eager"]})
        # split and re-join: forward slices / blocks along the first ensemble axis, concatenated, are the original object
        if c["kind"] == "images" and isinstance(chunks, tuple) and chunks and isinstance(chunks[0], tuple):
            from abtem.array import concatenate

            cs0 = chunks[0]
            bounds = [(sum(cs0[:i]), sum(cs0[: i + 1])) for i in range(len(cs0))]
            whole = tuple((n,) for n in e.ensemble_shape[1:])
            for how in ("slices", "blocks"):
                try:
                    if how == "slices":
                        pieces = [e[a:b] for a, b in bounds]
                    else:
                        pieces = [b.item() for _, _, b in e.generate_blocks((cs0,) + whole)]
                    joined = concatenate(pieces, axis=0)
                    mj = members(joined)
                except Exception as ex:  # noqa
                    ctx.violation(f"array-split-and-rejoin-raises:{how}", c, {"error": f"{type(ex).__name__}: {ex}"[:200]})
                    continue
                if mj.shape != full.shape or any(not same(mj[i], full[i]) for i in np.ndindex(*full.shape)):
                    ctx.violation(f"array-split-and-rejoin-differs:{how}", c, {"joined_shape": list(mj.shape), "original_shape": list(full.shape)})
            ctx.count("rejoin:" + ",".join(c["axes"][:1]))
        # the raw partitioners with chunks that are not yet validated (None, ints): eager must accept what lazy accepts
        if c["kind"] == "images" and not c.get("lazy"):
            for ch in (None, 1, tuple(1 for _ in c["shape"])):
                r = {}
                for lazy in (False, True):
                    try:
                        e._partition_args(ch, lazy=lazy)
                        r[lazy] = "ok"
                    except Exception as ex:  # noqa
                        r[lazy] = err_kind(ex)
                if r[False] != r[True]:
                    ctx.violation("array-eager-partition-args-rejects-unvalidated-chunks", c, {"chunks": repr(ch), "eager": r[False], "lazy": r[True]})
                    break

    def oracle(self, ctx: Ctx, c):
        """zero-size chunks: CustomScan and AtomsEnsemble do not support empty blocks (recorded); the recorded sub-case is re-derived —
        the failure has the recorded form AND the same ensemble with the zero-size chunks removed passes — before its key is used"""
        ch = c.get("chunks")
        has_zero = isinstance(ch, list) and any(isinstance(cs, list) and 0 in cs for cs in ch)
        if not has_zero or c["kind"] not in ("custom", "atoms_ensemble", "probe"):
            return self.oracle_inner(ctx, c)
        before = len(ctx.violations)
        self.oracle_inner(ctx, c)
        new = ctx.violations[before:]
        if not new:
            return
        c2 = dict(c, chunks=[[x for x in cs if x != 0] for cs in ch])
        probe = Ctx(self.id, ctx.tier, ctx.seed)
        self.oracle_inner(probe, c2)
        if probe.violations:
            return  # fails without the zero-size chunks too: not the recorded class, keep what was reported
        kind = c["kind"] if c["kind"] != "probe" else (c.get("scan") or {}).get("kind", "probe")
        txt = json.dumps(jsonable([v["detail"] for v in new]))
        recorded = {
            "custom": (any(isinstance(v["detail"], dict) and "block_shape" in v["detail"] and 0 in v["detail"].get("expected", [])
                           and len(v["detail"]["block_shape"]) < len(v["detail"]["expected"]) for v in new),
                       "custom-zero-size-chunk-block-is-unscanned-sentinel"),
            "atoms_ensemble": ("index_error" in txt, "atoms_ensemble-zero-size-chunk-index-error"),
        }.get(kind)
        if recorded and recorded[0]:
            del ctx.violations[before:]
            ctx.violation(recorded[1], c, {"observed": [v["key"] for v in new], "detail": new[0]["detail"]})

    def conformance(self, ctx: Ctx):
        for _ in range(ctx.n(120, 2500)):
            c = gen_case(ctx)
            self.oracle(ctx, c)
            ctx.count("oracle:" + c["kind"])
            ctx.case(c)

    def replay(self, ctx: Ctx, case):
        self.oracle(ctx, case)


def p_ll(s):
    return [] if s == "~" else [[] if t == "_" else [int(x) for x in t.split(",")] for t in s.split(";")]


def p_pairs(s):
    return [] if s == "_" else [[int(y) for y in x.split(":")] for x in s.split(",")]


def p_blocks(s):
    return [] if s == "_" else [[Fraction(a), Fraction(b), int(g)] for a, b, g in (x.split(":") for x in s.split(","))]


def p_grid(s):
    if s == "~":
        return []
    out = []
    for b in s.split("/"):
        i, r = b.split("|")
        out.append([[] if i == "_" else [int(x) for x in i.split(",")], p_pairs(r)])
    return out


if __name__ == "__main__":
    sys.exit(run_property(C19()))
