"""C40 — centre of mass = first moment / intensity-weighted mean; integrated gradient recovers the field."""
import sys
from fractions import Fraction

import numpy as np

from common import Ctx, LeanDriver, Property, bool_s, dyadic, err_kind, list_s, rat_s, run_property
from c14 import patched

WL = 2.0 ** -5
K = WL * 1e3


def _try(f):
    try:
        return f()
    except Exception as e:  # noqa
        return ["err", err_kind(e)]


def impl_com(c):
    from abtem.measurements import DiffractionPatterns

    a = np.array(c["I"], dtype=np.float64).reshape(c["nx"], c["ny"])
    r = DiffractionPatterns._com(a, np.array(c["x"], dtype=np.float64), np.array(c["y"], dtype=np.float64))
    return ["ok", rat_s(float(np.real(r))), rat_s(float(np.imag(r)))]


def _dp(c, arr=None):
    import abtem.measurements as M
    from abtem.core.axes import ScanAxis

    if arr is None:
        arr = np.array(c["I"], dtype=np.float64).reshape(c["nx"], c["ny"])
    arr = np.broadcast_to(arr, (2, 2) + arr.shape).copy()
    return M.DiffractionPatterns(arr, sampling=(c["sx"], c["sy"]), fftshift=c["shifted"], metadata={"energy": 100e3},
                                 ensemble_axes_metadata=[ScanAxis(sampling=1.0), ScanAxis(sampling=1.0)])


def impl_coords(c):
    d = _dp(dict(c, nx=c["n"], ny=c["n"], sx=c["s"], sy=c["s"]), np.zeros((c["n"], c["n"])))
    return ["ok"] + [rat_s(float(v)) for v in d.coordinates[0]]


def impl_comdp(c):
    import abtem.measurements as M

    with patched((M, "energy2wavelength", lambda e: WL)):
        def run():
            r = _dp(c).center_of_mass(units=c["units"]).array[1, 0]
            return ["ok", rat_s(float(np.real(r))), rat_s(float(np.imag(r)))]
        return _try(run)


# ----------------------------------------------------------------------------- conformance helpers
def make_field(c):
    """band-limited periodic scalar field and its analytic gradient on an nx × ny grid with the given sampling"""
    nx, ny = c["gpts"]
    sx, sy = c["sampling"]
    Lx, Ly = nx * sx, ny * sy
    x = np.arange(nx)[:, None] * sx
    y = np.arange(ny)[None] * sy
    phi = np.zeros((nx, ny))
    gx = np.zeros((nx, ny))
    gy = np.zeros((nx, ny))
    for (h, k, amp, ph) in c["modes"]:
        arg = 2 * np.pi * (h * x / Lx + k * y / Ly) + ph
        phi += amp * np.cos(arg)
        gx += -amp * np.sin(arg) * 2 * np.pi * h / Lx
        gy += -amp * np.sin(arg) * 2 * np.pi * k / Ly
    return phi + c.get("const", 0.0), gx, gy


def exceeds(err, tol) -> bool:
    """`err > tol` that also fires on NaN / inf"""
    return not (float(err) <= float(tol))


class C40(Property):
    id = "C40"
    props_file = "AbtemVerif/Props/C40.lean"
    drive_file = "AbtemVerif/Drive/C40.lean"
    trusted = [
        "FFT: numpy fft2/ifft2 are a DFT pair (the theorems hold for every FourierPair; the spectral derivative of a band-limited "
        "periodic field is `2πi k φ̂` — hypothesis of integrate_gradient_recovers_field, realised exactly by the analytic fields of the oracle)",
        "IEEE: float64/float32 sums of dyadic inputs are exact in the unit correspondence; the conformance oracle uses rel 1e-5",
        "hand model of the axis plumbing (`x[:, None]`, `y[None]`, sum over the last two axes) and of LinearAxis.coordinates "
        "(half-open linspace), tied by correspondence",
    ]
    assumptions = ["energy2wavelength replaced by 2^-5 Å in the unit correspondence of units='mrad' only"]
    rule = ("random integer/dyadic patterns 1–7 × 1–7 incl. single bright pixels, random dyadic coordinates; coordinates for n ≤ 12 shifted "
            "and un-shifted; end-to-end center_of_mass in both units (+ an invalid unit); conformance: single pixels and random patterns "
            "on real DiffractionPatterns (both units, shifted / un-shifted, odd / even), random band-limited fields for integrate_gradient")

    def correspondence(self, ctx: Ctx):
        rng = ctx.rng
        drv = LeanDriver(self.drive_file)
        jobs = []
        for _ in range(ctx.n(200, 2500)):
            nx, ny = rng.randint(1, 7), rng.randint(1, 7)
            kind = rng.choice(["single", "random", "random", "sparse"])
            if kind == "single":
                I = [0] * (nx * ny)
                I[rng.randrange(nx * ny)] = rng.choice([1, 1, 2, 5, 0.5])
            elif kind == "sparse":
                I = [rng.choice([0, 0, 0, rng.randint(1, 9)]) for _ in range(nx * ny)]
            else:
                I = [dyadic(rng, 0, 8, 3) for _ in range(nx * ny)]
            c = {"op": "com", "nx": nx, "ny": ny, "I": I, "x": [dyadic(rng, -4, 4, 3) for _ in range(nx)],
                 "y": [dyadic(rng, -4, 4, 3) for _ in range(ny)], "kind": kind}
            jobs.append(("DiffractionPatterns._com", c, f"com {nx} {ny} {list_s(I, rat_s)} {list_s(c['x'], rat_s)} {list_s(c['y'], rat_s)}", impl_com))
            sx = dyadic(rng, 0.0625, 1, 4) or 0.0625
            sy = sx if rng.random() < 0.5 else (dyadic(rng, 0.0625, 1, 4) or 0.0625)
            units = rng.choice(["1/Å", "1/Å", "mrad", "mrad", "deg"])
            c2 = {"op": "comdp", "nx": nx, "ny": ny, "I": I, "sx": sx, "sy": sy, "shifted": rng.random() < 0.5, "units": units, "kind": kind}
            f = K if units == "mrad" else 1.0
            jobs.append(("DiffractionPatterns.center_of_mass", c2,
                         f"comdp {nx} {ny} {rat_s(sx * f)} {rat_s(sy * f)} {bool_s(c2['shifted'])} {'A' if units == '1/Å' else units} {list_s(I, rat_s)}",
                         impl_comdp))
        for n in range(1, ctx.n(13, 25)):
            for sh in (True, False):
                c = {"op": "coords", "n": n, "s": dyadic(rng, 0.0625, 1, 4) or 0.0625, "shifted": sh}
                jobs.append(("DiffractionPatterns.coordinates", c, f"coords {n} {rat_s(c['s'])} {bool_s(sh)}", impl_coords))
        outs = drv.query([j[2] for j in jobs])
        for (name, c, line, impl), out in zip(jobs, outs):
            t = out.split()
            model = ["ok"] + ([] if t[1] == "_" else t[1].split(",")) if (c["op"] == "coords" and t[0] == "ok") else t
            got = impl(c)
            ok = None
            if c["op"] in ("com", "comdp") and model[0] == "ok" and got[0] == "ok":
                # the division by the total intensity is rounded in float64: compare to 1e-12 (absolute, coordinates are O(1))
                ok = all(abs(Fraction(a) - Fraction(b)) <= Fraction(1, 10 ** 12) * max(1, abs(Fraction(a))) for a, b in zip(model[1:], got[1:]))
            ctx.agree(name, c, model, got, ok=ok)
            ctx.count(f"{c['op']}:{c.get('kind', '')}:{c.get('units', '')}:{got[0]}")
            ctx.case(c, nontrivial=c["op"] != "coords" or c["n"] > 1)
        ctx.traces += len(jobs)

    # ------------------------------------------------------------------ conformance
    def gen_conf(self, ctx):
        rng = ctx.rng
        if rng.random() < 0.5:
            nx, ny = rng.randint(2, 12), rng.randint(2, 12)
            return {"kind": "com", "nx": nx, "ny": ny, "sx": rng.choice([0.02, 0.05, 0.031]), "sy": rng.choice([0.02, 0.05, 0.031]),
                    "shifted": rng.random() < 0.5, "units": rng.choice(["1/Å", "mrad"]), "pixel": [rng.randrange(nx), rng.randrange(ny)],
                    "weight": rng.choice([1.0, 1.0, 2.0, 0.25]), "seed": rng.randint(0, 10 ** 6), "energy": rng.choice([80e3, 200e3])}
        if rng.random() < 0.45:
            nx, ny = rng.randint(2, 9), rng.randint(2, 9)
            return {"kind": "com_layout", "nx": nx, "ny": ny, "sx": rng.choice([0.02, 0.05, 0.031]), "sy": rng.choice([0.02, 0.05, 0.031]),
                    "shifted": rng.random() < 0.5, "units": rng.choice(["1/Å", "mrad"]), "seed": rng.randint(0, 10 ** 6), "energy": rng.choice([80e3, 200e3]),
                    "layout": rng.choice(["SS", "S", "", "OSS", "SOS"]), "dtype": rng.choice(["float64", "float32"]), "lazy": rng.random() < 0.4,
                    "content": rng.choice(["pixels", "random"])}
        nx, ny = rng.randint(6, 20), rng.randint(6, 20)
        modes = []
        for _ in range(rng.randint(1, 4)):
            h = rng.randint(-((nx - 1) // 2), (nx - 1) // 2)
            k = rng.randint(-((ny - 1) // 2), (ny - 1) // 2)
            if h == 0 and k == 0:
                h = 1
            modes.append([h, k, rng.uniform(0.2, 2.0), rng.uniform(0, 6.28)])
        return {"kind": "grad", "gpts": [nx, ny], "sampling": [rng.choice([0.1, 0.2, 0.37]), rng.choice([0.1, 0.2, 0.37])], "modes": modes,
                "const": rng.uniform(-3, 3), "lazy": rng.random() < 0.35, "stack": rng.choice([0, 0, 2, 3]), "dtype": rng.choice(["complex128", "complex128", "complex64"])}

    def oracle(self, ctx: Ctx, c):
        import abtem
        from abtem.core.axes import ScanAxis
        from abtem.measurements import DiffractionPatterns, Images

        if c["kind"] == "com":
            nx, ny = c["nx"], c["ny"]
            scan = [ScanAxis(sampling=1.0), ScanAxis(sampling=1.0)]
            md = {"energy": c["energy"]}
            # (1) single bright pixel at storage position p: COM / weight = frequency (angle) of that storage position
            a = np.zeros((1, 1, nx, ny))
            p = c["pixel"]
            a[..., p[0], p[1]] = c["weight"]
            d = DiffractionPatterns(a, sampling=(c["sx"], c["sy"]), fftshift=c["shifted"], ensemble_axes_metadata=scan, metadata=md)
            got = complex(np.asarray(d.center_of_mass(units=c["units"]).array).reshape(-1)[0])
            fx = np.fft.fftfreq(nx) * nx
            fy = np.fft.fftfreq(ny) * ny
            if c["shifted"]:
                fx, fy = np.fft.fftshift(fx), np.fft.fftshift(fy)
            s = d.angular_sampling if c["units"] == "mrad" else d.sampling
            kx, ky = fx[p[0]] * s[0], fy[p[1]] * s[1]
            scale = max(abs(kx), abs(ky), s[0], s[1])
            # the centre of mass of a single bright pixel is that pixel's frequency (angle), whatever its brightness
            if exceeds(abs(got - complex(kx, ky)), 1e-5 * scale):
                key = "com-unshifted-coordinates" if not c["shifted"] else "com-shifted-coordinates"
                if abs(got - c["weight"] * complex(kx, ky)) <= 1e-5 * scale * max(1.0, c["weight"]):
                    key = "com-not-normalised-by-total-intensity"
                else:
                    key = f"{key}:{'mrad' if c['units'] == 'mrad' else 'invA'}"
                ctx.violation(key, c, {"observed": [got.real, got.imag], "pixel_frequency": [kx, ky], "weight": c["weight"]})
                return False
            # a pattern without intensity: finite, zero
            z = DiffractionPatterns(np.zeros((1, 1, nx, ny)), sampling=(c["sx"], c["sy"]), fftshift=c["shifted"], ensemble_axes_metadata=scan, metadata=md)
            gz = complex(np.asarray(z.center_of_mass(units=c["units"]).array).reshape(-1)[0])
            if not (np.isfinite(gz.real) and np.isfinite(gz.imag)) or abs(gz) != 0:
                ctx.violation("com-empty-pattern-not-zero", c, {"observed": repr(gz)})
                return False
            # (2) random pattern: intensity-weighted mean against an independent double loop
            rng = np.random.default_rng(c["seed"])
            b = rng.random((1, 1, nx, ny)) * c["weight"]
            d = DiffractionPatterns(b, sampling=(c["sx"], c["sy"]), fftshift=c["shifted"], ensemble_axes_metadata=scan, metadata=md)
            got = complex(np.asarray(d.center_of_mass(units=c["units"]).array).reshape(-1)[0])
            ex = sum(b[0, 0, i, j] * fx[i] * s[0] for i in range(nx) for j in range(ny)) / b.sum()
            ey = sum(b[0, 0, i, j] * fy[j] * s[1] for i in range(nx) for j in range(ny)) / b.sum()
            if exceeds(abs(got - complex(ex, ey)), 1e-5 * scale):
                ctx.violation("com-not-weighted-mean", c, {"observed": [got.real, got.imag], "expected": [ex, ey]})
                return False
            ctx.count(f"conf-com:{c['units']}:shifted={c['shifted']}:weight={'1' if c['weight'] == 1.0 else 'other'}")
            return True
        if c["kind"] == "com_layout":
            # different patterns at every scan position, 0/1/2 scan axes, scan axes not leading, float32, lazy (chunked) input:
            # every position's centre of mass is ITS pattern's intensity-weighted mean, delivered with the scan axes moved to the end
            import dask.array as da
            from abtem.core.axes import OrdinalAxis
            nx, ny = c["nx"], c["ny"]
            rng = np.random.default_rng(c["seed"])
            sizes = {"O": 2}
            ens_shape, n_s = [], 0
            for ch in c["layout"]:
                ens_shape.append((2, 3)[min(n_s, 1)] if ch == "S" else sizes["O"])
                n_s += ch == "S"
            ens_shape = tuple(ens_shape)
            a = np.zeros(ens_shape + (nx, ny))
            for pos in np.ndindex(*ens_shape):
                if c["content"] == "pixels":
                    a[pos + (rng.integers(nx), rng.integers(ny))] = rng.choice([1.0, 2.0, 0.25])
                else:
                    a[pos] = rng.random((nx, ny)) * rng.choice([1.0, 3.0])
            a = a.astype(c["dtype"])
            axes = [ScanAxis(sampling=1.0) if ch == "S" else OrdinalAxis(values=tuple(range(sizes["O"]))) for ch in c["layout"]]
            arr = da.from_array(a, chunks=(1,) * len(ens_shape) + (max(1, nx // 2), ny)) if c["lazy"] else a
            d = DiffractionPatterns(arr, sampling=(c["sx"], c["sy"]), fftshift=c["shifted"], ensemble_axes_metadata=axes, metadata={"energy": c["energy"]})
            out = d.center_of_mass(units=c["units"])
            got = np.asarray(out.array.compute() if hasattr(out.array, "compute") else out.array)
            fx = np.fft.fftfreq(nx) * nx
            fy = np.fft.fftfreq(ny) * ny
            if c["shifted"]:
                fx, fy = np.fft.fftshift(fx), np.fft.fftshift(fy)
            s = d.angular_sampling if c["units"] == "mrad" else d.sampling
            a64 = a.astype(np.float64)
            tot = a64.sum(axis=(-2, -1))
            exp = ((a64 * (fx * s[0])[:, None]).sum(axis=(-2, -1)) + 1j * (a64 * (fy * s[1])[None]).sum(axis=(-2, -1))) / tot
            scan_idx = [i for i, ch in enumerate(c["layout"]) if ch == "S"]
            exp = np.moveaxis(exp, scan_idx, list(range(exp.ndim - len(scan_idx), exp.ndim))) if scan_idx else exp
            scale = max(abs(fx).max() * s[0], abs(fy).max() * s[1], s[0], s[1])
            tol = (2e-5 if c["dtype"] == "float32" or c["units"] == "mrad" else 1e-9) * scale
            ctx.count(f"conf-com-layout:{c['layout'] or 'none'}:{c['dtype']}:lazy={c['lazy']}:{c['units']}")
            if got.shape != exp.shape:
                ctx.violation("com-result-shape", c, {"observed": list(got.shape), "expected": list(exp.shape), "type": type(out).__name__})
                return False
            err = np.abs(got - exp)
            if exceeds(np.nan if np.isnan(err).any() else (err.max() if err.size else 0.0), tol):
                ctx.violation(f"com-per-position-not-weighted-mean:{c['layout'] or 'none'}:{'lazy' if c['lazy'] else 'eager'}", c,
                              {"max_abs_err": float(np.nanmax(err)) if err.size else 0.0, "tol": tol})
                return False
            return True
        # gradient integration (optionally a stack of different fields, complex64 input, chunked lazy input)
        import dask.array as da
        from abtem.core.axes import OrdinalAxis
        nst = int(c.get("stack", 0))
        fields = []
        for k in range(max(nst, 1)):
            ck = dict(c, modes=[[h, kk, amp * (1 + 0.5 * k), ph + k] for (h, kk, amp, ph) in c["modes"]], const=c.get("const", 0.0) + k)
            fields.append(make_field(ck))
        phi = np.stack([f[0] for f in fields]) if nst else fields[0][0]
        g = (np.stack([f[1] + 1j * f[2] for f in fields]) if nst else fields[0][1] + 1j * fields[0][2]).astype(c.get("dtype", "complex128"))
        if c.get("lazy"):
            # several blocks along BOTH image axes (and one image per block of a stack): whole images must be gathered before the FFT
            g = da.from_array(g, chunks=((1,) if nst else ()) + (max(2, g.shape[-2] // 2), max(2, g.shape[-1] // 3)))
        ens = [OrdinalAxis(values=tuple(range(nst)))] if nst else []
        im = Images(g, sampling=tuple(c["sampling"]), ensemble_axes_metadata=ens)
        out = im.integrate_gradient()
        T = np.asarray(out.array.compute() if hasattr(out.array, "compute") else out.array).astype(np.float64)
        if T.shape != phi.shape:
            ctx.violation("integrate-gradient-shape", c, {"observed": list(T.shape), "expected": list(phi.shape)})
            return False
        # "up to a constant" per image
        Tn = T - T.min(axis=(-2, -1), keepdims=True)
        exp = phi - phi.min(axis=(-2, -1), keepdims=True)
        d = np.abs(Tn - exp)
        err = float("nan") if np.isnan(d).any() else float(d.max())
        amp = float(phi.max() - phi.min())
        if exceeds(err, (2e-4 if c.get("dtype") == "complex64" else 1e-9) * max(amp, 1e-3)):
            ctx.violation("integrate-gradient-not-field", c, {"max_abs_err": err, "field_range": amp})
            return False
        ctx.count(f"conf-grad:modes={len(c['modes'])}:lazy={bool(c.get('lazy'))}:stack={nst}:{c.get('dtype', 'complex128')}")
        return True

    def conformance(self, ctx: Ctx):
        for _ in range(ctx.n(150, 3000)):
            c = self.gen_conf(ctx)
            self.oracle(ctx, c)
            ctx.case(c, nontrivial=True)

    def replay(self, ctx: Ctx, case):
        self.oracle(ctx, case)


if __name__ == "__main__":
    sys.exit(run_property(C40()))
