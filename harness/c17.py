"""C17 — simulation grids stay consistent through any history of edits (abtem/core/grid.py::Grid)."""
import sys
from fractions import Fraction

import numpy as np

from common import Ctx, LeanDriver, Property, bool_s, dyadic, err_kind, list_s, opt_s, rat_s, run_property

LOCKSETS = ["FFF", "FFF", "FFF", "FTF", "FTF", "TFF", "TFF", "FFT", "TTF", "TFT", "FTT", "TTT"]


# ----------------------------------------------------------------------------- implementation side
def make_grid(init):
    from abtem.core.grid import Grid

    ep = init["endpoint"]
    return Grid(extent=unval(init["extent"]), gpts=unval(init["gpts"]), sampling=unval(init["sampling"]), dimensions=init["dims"],
                endpoint=ep if isinstance(ep, bool) else tuple(ep), lock_extent=init["locks"][0] == "T",
                lock_gpts=init["locks"][1] == "T", lock_sampling=init["locks"][2] == "T")


def unval(v):
    """JSON value -> what is handed to abTEM: None | number | tuple"""
    if v is None:
        return None
    if v[0] == "s":
        return v[1]
    return tuple(v[1])


def kind_of(e):
    if type(e).__name__ == "GridUndefinedError":
        return "grid_undefined"
    return err_kind(e)


def snap(g):
    return dict(dims=g.dimensions, endpoint=list(g.endpoint), extent=None if g.extent is None else list(g.extent),
                gpts=None if g.gpts is None else list(g.gpts), sampling=None if g.sampling is None else list(g.sampling),
                locks=bool_s(g._lock_extent) + bool_s(g._lock_gpts) + bool_s(g._lock_sampling))


def apply(g, op):
    """returns 'ok' or 'err:<kind>'"""
    try:
        setattr(g, {"E": "extent", "G": "gpts", "S": "sampling"}[op[0]], unval(op[1]))
        return "ok"
    except Exception as e:  # noqa
        return "err:" + kind_of(e)


# ----------------------------------------------------------------------------- wire format
def val_s(v):
    if v is None:
        return "none"
    if v[0] == "s":
        return "s:" + rat_s(v[1])
    return "q:" + list_s(v[1], rat_s)


def grid_s(s):
    return " ".join([str(s["dims"]), list_s(s["endpoint"], bool_s), opt_s(s["extent"], lambda l: list_s(l, rat_s)),
                     opt_s(s["gpts"], lambda l: list_s(l, lambda n: str(int(n)))), opt_s(s["sampling"], lambda l: list_s(l, rat_s)),
                     s["locks"]])


def parse_grid(t):
    """6 tokens -> snapshot with Fractions"""
    pl = lambda s, f: [] if s == "_" else [f(x) for x in s.split(",")]
    po = lambda s, f: None if s == "none" else pl(s, f)
    return dict(dims=int(t[0]), endpoint=pl(t[1], lambda x: x == "T"), extent=po(t[2], Fraction), gpts=po(t[3], int),
                sampling=po(t[4], Fraction), locks=t[5])


def close_list(m, i, rel=1e-11):
    if m is None or i is None:
        return m is None and i is None
    if len(m) != len(i):
        return False
    return all(abs(float(a) - float(b)) <= 1e-300 + rel * max(abs(float(a)), abs(float(b))) for a, b in zip(m, i))


def same_state(m, i):
    return (m["dims"] == i["dims"] and m["endpoint"] == list(i["endpoint"]) and m["locks"] == i["locks"]
            and (m["gpts"] == (None if i["gpts"] is None else [int(x) for x in i["gpts"]]))
            and close_list(m["extent"], i["extent"]) and close_list(m["sampling"], i["sampling"]))


def near_ceil_boundary(before, op):
    """is some quotient extent/sampling that this assignment may feed to `ceil` within 1e-9 (relative) of an integer without
    the float quotient being exactly that rational?  (IEEE boundary: the float quotient may round across the integer)"""
    rs, ds = [], []
    if before["extent"] is not None:
        rs += list(before["extent"])
    if before["sampling"] is not None:
        ds += list(before["sampling"])
    v = unval(op[1])
    if v is not None:
        vals = list(v) if isinstance(v, tuple) else [v]
        (rs if op[0] == "E" else ds if op[0] == "S" else []).extend(vals)
    for r in rs:
        for d in ds:
            if d == 0:
                continue
            q = Fraction(float(r)) / Fraction(float(d))
            k = round(q)
            if q != k and abs(q - k) <= Fraction(1, 10 ** 9) * max(1, abs(k)):
                return True
    return False


# ----------------------------------------------------------------------------- generators
def gen_val(rng, kind, dims, state=None, valid=False):
    """a value for an assignment / constructor argument of the given kind"""
    def one():
        if kind == "G":
            u = rng.random()
            if valid or u < 0.85:
                return rng.randint(2, 48) if rng.random() < 0.9 else 1
            return rng.choice([0, -3, 2.5, 7.9, 1])
        if kind == "E":
            u = rng.random()
            if valid or u < 0.9:
                return rng.choice([dyadic(rng, 0.125, 24, 3) or 1.0, float(rng.randint(1, 20)), rng.choice([0.7, 1.1, 3.3, 12.9])])
            return rng.choice([0.0, -2.0])
        u = rng.random()
        if valid or u < 0.9:
            return rng.choice([dyadic(rng, 0.03125, 2, 5) or 0.5, rng.choice([0.1, 0.3, 0.05, 0.7, 0.02])])
        return rng.choice([0.0, -0.5])

    u = rng.random()
    if not valid and u < 0.06:
        return None
    if kind == "E" and state is not None and state["extent"] is not None and state["locks"][0] == "T" and rng.random() < 0.6:
        cur = state["extent"]
        w = rng.random()
        if w < 0.4:
            return ["q", list(cur)]
        if w < 0.6:
            return ["q", [x * (1 + 1e-7) for x in cur]]  # well inside the allclose tolerance
        if w < 0.8:
            return ["q", [x * (1 + 3e-4) for x in cur]]  # well outside
    if u < 0.55:
        return ["s", one()]
    if not valid and u < 0.61:
        return ["q", [one() for _ in range(rng.choice([0, 1, dims + 1, dims + 2]))]]
    return ["q", [one() for _ in range(dims)]]


def gen_init(rng, valid=False):
    dims = rng.choice([1, 2, 2, 2, 3])
    ep = rng.choice([False, False, True, [rng.random() < 0.5 for _ in range(dims)]])
    which = rng.choice(["eg", "gs", "es", "egs", "e", "g", "s", ""])
    return dict(dims=dims, endpoint=ep, locks=rng.choice(LOCKSETS),
                extent=gen_val(rng, "E", dims, valid=True) if "e" in which else None,
                gpts=gen_val(rng, "G", dims, valid=True) if "g" in which else None,
                sampling=gen_val(rng, "S", dims, valid=True) if "s" in which else None)


def gen_history(ctx: Ctx, length, valid=False):
    rng = ctx.rng
    init = gen_init(rng, valid)
    ops = [[rng.choice("EGS"), None] for _ in range(length)]
    return dict(init=init, ops=ops)  # values are filled in while the history runs (they depend on the state)


# ----------------------------------------------------------------------------- the property
class C17(Property):
    id = "C17"
    props_file = "AbtemVerif/Props/C17.lean"
    drive_file = "AbtemVerif/Drive/C17.lean"
    extra_lean = ["AbtemVerif/Lib/GridInv.lean"]
    trusted = [
        "hand model `Grid.step/init/checkMatch` of the control flow of the Grid setters around the generated per-dimension "
        "expressions (tied by differential correspondence on every run; fingerprints of the setters in evidence)",
        "IEEE: float64 evaluation of n*d, r/n, ceil(r/d) is within 1e-11 relative of the exact rational value; quotients r/d within "
        "1e-9 of an integer that are not exactly representable are classified `boundary` (either ceil accepted)",
        "numpy.allclose / isclose default tolerances rtol=1e-5, atol=1e-8 and broadcasting rules as modelled",
    ]
    assumptions = ["finite float inputs; numpy scalar types other than Python int/float are not exercised"]
    rule = ("random Grid histories: dims 1-3, endpoint bool/tuple, 8 lock sets, constructor with any subset of extent/gpts/sampling, "
            "then 1-12 (quick) / 1-40 (thorough) assignments of None / scalar / sequence (right and wrong length) values, dyadic and "
            "decimal; malformed stream: zero / negative / fractional gpts, zero sampling, wrong lengths; distinct = distinct history JSON; "
            "non-trivial = history with at least one successful assignment on a grid with two defined quantities")

    # -- correspondence ---------------------------------------------------------------------
    def correspondence(self, ctx: Ctx):
        drv = LeanDriver(self.drive_file)
        rng = ctx.rng
        hist = []
        lines = []
        tags = []
        for _ in range(ctx.n(220, 1500)):
            h = gen_history(ctx, rng.randint(1, ctx.n(12, 40)))
            init = h["init"]
            ep_list = [init["endpoint"]] * init["dims"] if isinstance(init["endpoint"], bool) else list(init["endpoint"])
            lines.append(" ".join(["init", str(init["dims"]), list_s(ep_list, bool_s), init["locks"], val_s(init["extent"]),
                                   val_s(init["gpts"]), val_s(init["sampling"])]))
            try:
                g = make_grid(init)
                ib = near_ceil_boundary(dict(extent=None, sampling=None if init["sampling"] is None else
                                             [unval(init["sampling"])] if init["sampling"][0] == "s" else list(init["sampling"][1])),
                                        ["E", init["extent"]])
                tags.append(("init", h, snap(g), ib))
            except Exception as e:  # noqa
                tags.append(("init", h, None, kind_of(e)))
                ctx.count("init:err:" + kind_of(e))
                hist.append(h)
                continue
            ctx.count("init:ok:locks=" + init["locks"])
            s0 = snap(g)
            boundary = False
            steps = []
            nontrivial = False
            for op in h["ops"]:
                before = snap(g)
                op[1] = gen_val(rng, op[0], init["dims"], before)
                out = apply(g, op)
                after = snap(g)
                b = near_ceil_boundary(before, op)
                boundary = boundary or b
                lines.append(" ".join(["step", grid_s(before), op[0], val_s(op[1])]))
                tags.append(("step", dict(init=init, before=before, op=op), (after, out), b))
                steps.append(out)
                ctx.count(f"step:{op[0]}:{'ok' if out == 'ok' else out}")
                if out == "ok" and sum(x is not None for x in (before["extent"], before["gpts"], before["sampling"])) >= 2:
                    nontrivial = True
                # reciprocal sampling of the state reached
                lines.append("recip " + grid_s(after))
                try:
                    tags.append(("recip", dict(state=after), ["ok", list(g.reciprocal_space_sampling)], None))
                except Exception as e:  # noqa
                    tags.append(("recip", dict(state=after), ["err", kind_of(e)], None))
            ops_s = ";".join(f"{op[0]}={val_s(op[1])}" for op in h["ops"]) or "~"
            lines.append(" ".join(["run", grid_s(s0), ops_s]))
            tags.append(("run", h, (snap(g), steps), boundary))
            hist.append(h)
            ctx.case(h, nontrivial=nontrivial)
        # check_match on pairs of small grids
        for _ in range(ctx.n(150, 2000)):
            a, b = gen_init(rng, True), gen_init(rng, True)
            if rng.random() < 0.6:
                b = dict(a, locks=b["locks"])
                if rng.random() < 0.5 and b["extent"] is not None and b["extent"][0] == "s":
                    b = dict(b, extent=["s", b["extent"][1] * rng.choice([1 + 1e-7, 1 + 1e-3])])
            try:
                ga, gb = make_grid(a), make_grid(b)
            except Exception:  # noqa
                continue
            lines.append(" ".join(["check", grid_s(snap(ga)), grid_s(snap(gb))]))
            try:
                ga.check_match(gb)
                tags.append(("check", dict(a=a, b=b), "ok", None))
            except Exception as e:  # noqa
                tags.append(("check", dict(a=a, b=b), "err " + kind_of(e), None))
        # Grid.match on pairs of grids (both grids are mutated; the two float32 comparisons are inputs of the model)
        for _ in range(ctx.n(200, 2500)):
            a, b = gen_init(rng, True), gen_init(rng, True)
            if rng.random() < 0.8:
                b = dict(b, dims=a["dims"], endpoint=a["endpoint"] if rng.random() < 0.8 else b["endpoint"])
                for k in ("extent", "gpts", "sampling"):
                    if b[k] is not None and b[k][0] == "q" and len(b[k][1]) != b["dims"]:
                        b[k] = ["s", b[k][1][0]]
                if isinstance(b["endpoint"], list) and len(b["endpoint"]) != b["dims"]:
                    b["endpoint"] = False
            if rng.random() < 0.3:
                b = dict(b, **{k: a[k] for k in rng.sample(["extent", "gpts", "sampling"], 2)})
            if rng.random() < 0.7:
                a, b = dict(a, locks=rng.choice(["FFF", "FFF", "FTF", "TFF"])), dict(b, locks=rng.choice(["FFF", "FFF", "FTF", "TFF"]))
            try:
                ga, gb = make_grid(a), make_grid(b)
            except Exception:  # noqa
                continue
            sa, sb = snap(ga), snap(gb)
            ck = rng.random() < 0.3
            try:
                with np.errstate(all="ignore"):
                    c1 = bool(np.any(np.array(ga.extent, np.float32) != np.array(gb.extent, np.float32)))
                    c3 = bool(np.allclose(np.array(ga.sampling, np.float32), np.array(gb.sampling, np.float32)))
            except Exception:  # noqa  (broadcasting of different dimensions: not modelled)
                continue
            # c3 is evaluated by the code after the extent / gpts phases: recompute it on copies that went through them
            try:
                g1, g2 = make_grid(a), make_grid(b)
                out = "ok"
                try:
                    g1.match(g2, check_match=ck)
                except Exception as e:  # noqa
                    out = "err:" + kind_of(e)
                # replay the first two phases on fresh copies to observe what the sampling comparison saw
                h1, h2 = make_grid(a), make_grid(b)
                try:
                    if ck:
                        h1.check_match(h2)
                    if h2.extent is None:
                        h2.extent = h1.extent
                    elif c1:
                        h1.extent = h2.extent
                    if h2.gpts is None:
                        h2.gpts = h1.gpts
                    elif h1.gpts != h2.gpts:
                        h1.gpts = h2.gpts
                    with np.errstate(all="ignore"):
                        c3 = bool(np.allclose(np.array(h1.sampling, np.float32), np.array(h2.sampling, np.float32)))
                except Exception:  # noqa
                    pass
            except Exception:  # noqa
                continue
            lines.append(" ".join(["match", grid_s(sa), grid_s(sb), bool_s(ck), bool_s(c1), bool_s(c3)]))
            # IEEE boundary: any quotient extent / sampling among the values the call has seen (initial, intermediate, final)
            snaps = [sa, sb, snap(g1), snap(g2), snap(h1), snap(h2)]
            allr = [r for x in snaps if x["extent"] is not None for r in x["extent"]]
            alld = [d for x in snaps if x["sampling"] is not None for d in x["sampling"]]
            nb = near_ceil_boundary(dict(extent=allr, sampling=alld), ["E", None])
            tags.append(("match", dict(a=a, b=b, check=ck, c1=c1, c3=c3), (snap(g1), snap(g2), out), nb))
            ctx.count("match:" + out)
        # malformed requests must be rejected, not guessed
        for bad in ["step 2 F,F 1,1 4,4 1/4 FFF X s:1", "step 2 F,F 1,1 4,4 1/4,1/4 FF E s:1", "init 2 F FFF s:1 s:x none", "frobnicate"]:
            lines.append(bad)
            tags.append(("bad", bad, "bad-op", None))
        outs = drv.query(lines)
        ctx.driver_lines = len(lines)
        for out, (kind, case, impl, flag) in zip(outs, tags):
            t = out.split()
            if kind == "init":
                if impl is None:
                    ctx.agree("Grid.__init__", case["init"], t, ["err", flag])
                else:
                    ok = t[0] == "ok" and same_state(parse_grid(t[1:7]), impl)
                    if not ok and flag:
                        ctx.boundary += 1
                        continue
                    ctx.agree("Grid.__init__", case["init"], out, grid_s(impl), ok=ok)
            elif kind == "step":
                after, outcome = impl
                ok = len(t) == 7 and t[6] == outcome and same_state(parse_grid(t[:6]), after)
                if not ok and flag:
                    ctx.boundary += 1
                    continue
                ctx.agree("Grid setter " + case["op"][0], case, out, grid_s(after) + " " + outcome, ok=ok)
            elif kind == "recip":
                if impl[0] == "err":
                    ctx.agree("Grid.reciprocal_space_sampling", case, t, impl)
                else:
                    ok = t[0] == "ok" and close_list([Fraction(x) for x in ([] if t[1] == "_" else t[1].split(","))], impl[1])
                    ctx.agree("Grid.reciprocal_space_sampling", case, out, impl, ok=ok)
            elif kind == "run":
                final, steps = impl
                if flag:
                    ctx.boundary += 1
                    continue
                ok = len(t) == 7 and same_state(parse_grid(t[:6]), final) and (t[6] == "_" and not steps or t[6].split(",") == steps)
                ctx.agree("Grid history (run)", case, out, grid_s(final) + " " + list_s(steps), ok=ok)
                ctx.traces += 1
            elif kind == "match":
                s1, s2, outcome = impl
                ok = len(t) == 13 and t[12] == outcome and same_state(parse_grid(t[:6]), s1) and same_state(parse_grid(t[6:12]), s2)
                if not ok and flag:
                    ctx.boundary += 1
                    continue
                ctx.agree("Grid.match", case, out, grid_s(s1) + " " + grid_s(s2) + " " + outcome, ok=ok)
            elif kind == "check":
                ctx.agree("Grid.check_match", case, out, impl)
            else:
                ctx.agree("malformed request rejected", case, out, impl)

    # -- conformance: the property's conclusion observed on the real Grid, independent of the model ------------------
    def run_history(self, ctx: Ctx, h, fill=None):
        """run one history on the real Grid, checking the property's conclusions after every assignment"""
        init = h["init"]
        try:
            g = make_grid(init)
        except Exception:  # noqa
            return
        rng = fill
        lockname = init["locks"]  # the exact lock string (extent, gpts, sampling)
        done = []
        state = dict(init=init, done=done, tainted=False)
        self.check_state(ctx, state, g, None, None, "ok", lockname, "constructor")
        for op in h["ops"]:
            before = snap(g)
            if rng is not None:
                op[1] = gen_val(rng, op[0], init["dims"], before, valid=rng.random() < 0.93)
            done.append([op[0], op[1]])
            out = apply(g, op)
            opname = {"E": "extent", "G": "gpts", "S": "sampling"}[op[0]] + ("-none" if op[1] is None else "") + "-assignment"
            self.check_state(ctx, state, g, before, op, out, lockname, opname)

    @staticmethod
    def in_domain(op):
        """guards of the property: assigned extents / samplings > 0, gpts >= 1"""
        v = unval(op[1])
        if v is None:
            return True
        vals = list(v) if isinstance(v, tuple) else [v]
        if op[0] == "G":
            return all(int(x) >= 1 for x in vals)
        return all(x > 0 for x in vals)

    def check_state(self, ctx, h, g, before, op, out, lockname, opname):
        """the property's conclusions after one assignment.  Violation keys name the operation, the exact lock string and the
        observed sub-case; a sub-case that belongs to a recorded finding is only named as such after checking that the state
        really is what the recorded mechanism produces (otherwise the key ends in `:unexplained`)."""
        import math

        after = snap(g)
        case = dict(init=h["init"], ops=[list(o) for o in h["done"]])
        det = dict(before=before, op=op, outcome=out, after=after)
        close = lambda a, b: abs(a - b) <= 1e-9 * max(abs(a), abs(b), 1e-300)
        if out != "ok":
            if after != before:
                ctx.violation(f"raised-but-grid-changed:{opname}:locks={lockname}", case, det)
            return
        if op is not None and not self.in_domain(op):
            ctx.count("oracle:assignment-outside-the-guards-accepted")
        ep = after["endpoint"]
        ext, gp, sa = after["extent"], after["gpts"], after["sampling"]
        if ext is not None and gp is not None:
            if sa is None:
                mech = before is not None and op is not None and op[0] == "G" and before["sampling"] is None and after["locks"][2] == "T"
                ctx.violation(f"sampling-undefined-on-defined-grid:{opname}:locks={lockname}" + ("" if mech else ":unexplained"), case, det)
            else:
                bad = [k for k, (r, n, d, e) in enumerate(zip(ext, gp, sa, ep)) if not close(r, (n - 1) * d if e else n * d)]
                if bad:
                    one = [k for k in bad if ep[k] and gp[k] == 1 and sa[k] == 0.0 and ext[k] != 0]
                    zero = [k for k in bad if gp[k] == 0 and sa[k] == 0.0 and ext[k] != 0]
                    if one and set(bad) <= set(one) | set(zero):
                        ctx.violation("inconsistent:endpoint-with-gpts-1", case, det)
                    if zero and set(bad) <= set(one) | set(zero):
                        vv = None if op is None else unval(op[1])
                        vl = None if vv is None else (list(vv) if isinstance(vv, tuple) else [vv] * after["dims"])

                        def negq(k):  # the quotient extent/sampling that ceil saw in dimension k is negative (re-derived from the inputs)
                            if op is None or vl is None or before is None or len(vl) != after["dims"]:
                                return False
                            if op[0] == "E" and before["sampling"] is not None:
                                return before["sampling"][k] != 0 and vl[k] / before["sampling"][k] < 0
                            if op[0] == "S" and before["extent"] is not None:
                                return vl[k] != 0 and before["extent"][k] / vl[k] < 0
                            return False
                        if op is not None and op[0] == "G":
                            how = "assigned"
                        elif op is not None and op[0] == "E" and before is not None and before["gpts"] is not None and all(before["gpts"][k] == 0 for k in zero):
                            how = "zero-gpts-kept"
                        elif all(negq(k) for k in zero):
                            how = "computed-from-negative-quotient"
                        else:
                            how = "unexplained"
                        ctx.violation(f"inconsistent:gpts-0-with-nonzero-extent:{how}", case, det)
                    if not (set(bad) <= set(one) | set(zero)):
                        ctx.violation(f"inconsistent:{opname}:locks={lockname}", case, dict(det, dims=bad))
                if all(n * d != 0 for n, d in zip(gp, sa)):
                    try:
                        rec = list(g.reciprocal_space_sampling)
                        for k, n, d, r, e in zip(rec, gp, sa, ext, ep):
                            if abs(k - 1 / (n * d)) > 1e-9 * abs(k) or (not e and not bad and abs(k - 1 / r) > 1e-9 * abs(k)):
                                ctx.violation(f"reciprocal-sampling-wrong:{opname}", case, det)
                                break
                    except Exception as e:  # noqa
                        ctx.violation(f"reciprocal-sampling-raises:{opname}", case, dict(det, error=repr(e)))
        if before is None or op is None:
            return
        locks = after["locks"]
        v = unval(op[1])
        vals = None if v is None else (list(v) if isinstance(v, tuple) else [v] * after["dims"])

        def ceil_ok(k, r, d):  # gpts[k] is ceil(r/d) (+1 with endpoint), up to the IEEE boundary
            if d == 0:
                return False
            q = r / d
            want = math.ceil(q) + (1 if ep[k] else 0)
            return after["gpts"] is not None and (after["gpts"][k] == want or (abs(q - round(q)) < 1e-9 * max(1, abs(q)) and abs(after["gpts"][k] - want) <= 1))

        if locks[0] == "T" and before["extent"] is not None:
            if after["extent"] is None:
                ctx.violation("locked-extent-unset-by-none-assignment", case, det)
            elif list(after["extent"]) != list(before["extent"]):  # exactly: an accepted (allclose) assignment keeps the locked value
                mech = ""
                if op[0] == "G" and locks[2] == "T" and before["sampling"] is not None and after["gpts"] is not None:
                    ok = all(close(r, ((n - 1) if e else n) * d) for r, n, d, e in zip(after["extent"], after["gpts"], before["sampling"], ep))
                    mech = ":extent-recomputed-from-locked-sampling" if ok else ":unexplained"
                elif op[0] == "S" and locks[1] == "T" and vals is not None and before["gpts"] is not None:
                    ok = all(close(r, ((n - 1) if e else n) * d) for r, n, d, e in zip(after["extent"], before["gpts"], vals, ep))
                    mech = ":extent-recomputed-from-locked-gpts" if ok else ":unexplained"
                else:
                    mech = ":unexplained"
                ctx.violation(f"locked-extent-changed:{opname}:locks={lockname}{mech}", case, det)
        if locks[1] == "T" and before["gpts"] is not None and after["gpts"] != before["gpts"]:
            ok = (op[0] == "E" and locks[2] == "T" and vals is not None and before["sampling"] is not None
                  and all(ceil_ok(k, vals[k], before["sampling"][k]) for k in range(after["dims"])))
            ctx.violation(f"locked-gpts-changed:{opname}:locks={lockname}" + (":gpts-recomputed-from-locked-sampling" if ok else ":unexplained"), case, det)
        if locks[2] == "T" and before["sampling"] is not None and (
                after["sampling"] is None or not np.allclose(after["sampling"], before["sampling"], rtol=1e-9, atol=0)):
            ok = (op[0] == "E" and vals is not None and after["sampling"] is not None and after["gpts"] is not None
                  and all(ceil_ok(k, vals[k], before["sampling"][k]) for k in range(after["dims"]))
                  and all(close(d * ((n - 1) if e else n), r) or (e and n == 1) or n == 0 for d, n, r, e in zip(after["sampling"], after["gpts"], vals, ep)))
            ctx.violation(f"locked-sampling-changed:{opname}:locks={lockname}" + (":resampled-to-fit-extent" if ok else ":unexplained"), case, det)
        # the assigned value is what the grid reports afterwards (sampling: at most the requested one when gpts were recomputed)
        if vals is not None and len(vals) == after["dims"]:
            if op[0] == "E" and not (locks[0] == "T" and before["extent"] is not None) and not np.allclose(after["extent"], vals, rtol=1e-12, atol=0):
                ctx.violation(f"assigned-extent-not-kept:locks={lockname}", case, det)
            if op[0] == "G" and after["gpts"] != [int(x) for x in vals]:
                ctx.violation(f"assigned-gpts-not-kept:locks={lockname}", case, det)
            if op[0] == "S" and self.in_domain(op) and after["sampling"] is not None and all(x > 0 for x in (after["extent"] or [1])) and any(
                    d > x * (1 + 1e-9) for d, x in zip(after["sampling"], vals)):
                ctx.violation(f"sampling-coarser-than-requested:locks={lockname}", case, det)

    def conformance(self, ctx: Ctx):
        rng = ctx.rng
        for _ in range(ctx.n(400, 4000)):
            h = gen_history(ctx, rng.randint(1, ctx.n(12, 40)), valid=True)
            self.run_history(ctx, h, fill=rng)
            ctx.case(h, nontrivial=len(h["ops"]) > 1)

    def replay(self, ctx: Ctx, case):
        h = dict(init=case["init"], ops=[list(op) for op in case["ops"]])
        self.run_history(ctx, h, fill=None)


if __name__ == "__main__":
    sys.exit(run_property(C17()))
