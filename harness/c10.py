"""C10 — potential building (eager / lazy, ensembles) and slice windows are consistent.

Tie between the Lean model (`Model/Build.lean`) and the code: *tracing*.  The numeric kernels are
replaced inside this process by tagging versions — a `FieldIntegrator` whose result array encodes
the arguments it was called with (slice limits a, b, number of atoms, atomic numbers, x position =
configuration id), constant-valued `PotentialArray`s whose value encodes (configuration, slice) —
so that every array produced by the real `generate_slices` / `build` code decodes to the *symbol*
the model predicts (`cfg:idx`, `c.j`, or `z` for an entry never written).  The conformance oracle is
independent of the model: windows against sub-lists of the full sequence, eager against lazy
against fresh one-configuration potentials, with the tagging kernels (all windows) and with small
real numeric builds (lobato, infinite and finite projection, frozen phonons).
"""
import sys
import warnings

import numpy as np

from common import (Ctx, LeanDriver, Property, err_kind, list_s, listlist_s, opt_s, rat_s, run_property)

warnings.filterwarnings("ignore")
G = 8  # grid points of the tag arrays
CELL = 4.0


# ------------------------------------------------------------------------------- tagging kernels
def _tag_integrator(finite: bool):
    from abtem.core.utils import get_dtype
    from abtem.integrals import FieldIntegrator

    class TagIntegrator(FieldIntegrator):
        """records what it was asked to integrate in the array it returns"""

        def __init__(self, finite=False):
            self._fin = finite
            super().__init__(periodic=not finite, finite=finite)

        def cutoff(self, symbol):
            return 0.0

        def integrate_on_grid(self, atoms, a, b, gpts, sampling, device="cpu"):
            arr = np.zeros(gpts, dtype=get_dtype(complex=False))
            arr[0, 0], arr[0, 1], arr[0, 2] = a, b, len(atoms)
            arr[0, 3] = float(np.sum(atoms.numbers))
            arr[1, 0] = 1.0
            arr[1, 1] = float(np.sum(atoms.positions[:, 0])) if len(atoms) else 0.0
            return arr

    return TagIntegrator(finite=finite)


def tag_atoms(c, ts, zmode):
    """configuration `c`: one atom in the middle of every slice, x = (c+1)/4, Z = idx+1 (distinct) or 1"""
    from ase import Atoms

    z0 = np.concatenate([[0.0], np.cumsum(ts)])
    pos = [[(c + 1) * 0.25, 0.5, (z0[j] + z0[j + 1]) / 2] for j in range(len(ts))]
    numbers = [j + 1 if zmode == "distinct" else 1 for j in range(len(ts))]
    return Atoms(numbers=numbers, positions=pos, cell=[CELL, CELL, float(z0[-1])], pbc=True)


def decode_atoms(A, ts, zmode):
    """array produced from TagIntegrator results -> (cfg, idx) | 'z' | '?…'"""
    A = np.asarray(A)
    if not A.any():
        return "z"
    cum = np.concatenate([[0.0], np.cumsum(ts)])
    a, b, nat, sz, one, x = (float(A[0, 0]), float(A[0, 1]), float(A[0, 2]), float(A[0, 3]), float(A[1, 0]), float(A[1, 1]))
    idx = [i for i in range(len(ts)) if float(np.float32(cum[i])) == a and float(np.float32(cum[i + 1])) == b]
    if len(idx) != 1 or one != 1.0 or nat != 1.0:
        return f"?a={a},b={b},n={nat},one={one}"
    i = idx[0]
    if sz != (i + 1 if zmode == "distinct" else 1):
        return f"?Z={sz}@{i}"
    c = x / 0.25 - 1
    if c != int(c):
        return f"?x={x}"
    return (int(c), i)


def tag_array(ncfg, n, ens=True):
    """PotentialArray whose slice (c, j) is the constant 10*c + j + 1"""
    import abtem
    from abtem.core.axes import FrozenPhononsAxis

    arr = np.zeros((ncfg, n, G, G), dtype=np.float32)
    for c in range(ncfg):
        for j in range(n):
            arr[c, j] = 10 * c + j + 1
    return arr if ens else arr[0]


def decode_const(A):
    A = np.asarray(A)
    v = float(A.reshape(-1)[0])
    if not np.all(A == v):
        return "?nonconst"
    if v == 0:
        return "z"
    v = int(v) - 1
    return (v // 10, v % 10)


# ------------------------------------------------------------------------------- building the objects of a case
def eps_arg(eps):
    return tuple(eps) if isinstance(eps, list) else eps


def make_potential(case):
    """the abTEM object of a case (kinds atoms / array / crystal)"""
    import abtem
    from abtem.core.axes import FrozenPhononsAxis

    ts = case["ts"]
    kind = case["kind"]
    if kind == "atoms":
        k = case.get("k")
        if k is None:
            atoms = tag_atoms(0, ts, case["zmode"])
        else:
            atoms = [tag_atoms(c, ts, case["zmode"]) for c in range(k)]
        return abtem.Potential(atoms, gpts=G, slice_thickness=tuple(ts), exit_planes=eps_arg(case["eps"]),
                               integrator=_tag_integrator(case.get("finite", False)))
    if kind == "array":
        m = case.get("k")
        arr = tag_array(m or 1, len(ts), ens=m is not None)
        return abtem.PotentialArray(arr, slice_thickness=tuple(ts), exit_planes=eps_arg(case["eps"]), extent=(CELL, CELL),
                                    ensemble_axes_metadata=[FrozenPhononsAxis()] if m is not None else None)
    if kind == "crystal":
        ncfg = case["ncfg"]
        if case["unit"] == "array":
            unit = abtem.PotentialArray(tag_array(ncfg, len(ts), ens=ncfg > 1 or case.get("unit_ens", False)),
                                        slice_thickness=tuple(ts), extent=(CELL, CELL),
                                        ensemble_axes_metadata=[FrozenPhononsAxis()] if (ncfg > 1 or case.get("unit_ens", False)) else None)
        else:
            atoms = [tag_atoms(c, ts, case["zmode"]) for c in range(ncfg)] if ncfg > 1 else tag_atoms(0, ts, case["zmode"])
            unit = abtem.Potential(atoms, gpts=G, slice_thickness=tuple(ts), integrator=_tag_integrator(False))
        seeds = case.get("seeds")
        return abtem.CrystalPotential(unit, tuple(case["reps"]), exit_planes=eps_arg(case["eps"]),
                                      seeds=tuple(seeds) if seeds is not None else None)
    raise ValueError(kind)


def crystal_draws(case):
    """the RNG stream `CrystalPotential.generate_slices` sees, re-derived independently (RNG assumption)"""
    seeds = case.get("seeds")
    out = []
    for s in (seeds if seeds is not None else [None]):
        if case["ncfg"] == 1:
            out.append([0] * case["reps"][2])
        else:
            rng = np.random.default_rng(s)
            out.append([int(rng.integers(0, case["ncfg"])) for _ in range(case["reps"][2])])
    return out


def decode_slice(case, slic, block_cfg=None):
    """one yielded one-slice PotentialArray -> 'val|thickness|exits' (the driver's wire format)"""
    A = np.asarray(slic.array)
    kind = case["kind"]
    if A.ndim != 3 or A.shape[0] != 1:
        val = f"?shape={A.shape}"
    elif kind == "atoms":
        d = decode_atoms(A[0], case["ts"], case["zmode"])
        val = str(d[1]) if isinstance(d, tuple) and (block_cfg is None or d[0] == block_cfg) else f"?{d}"
    elif kind == "array":
        d = decode_const(A[0])
        val = str(d[1]) if isinstance(d, tuple) and d[0] == 0 else f"?{d}"
    else:
        rx, ry = case["reps"][:2]
        if A.shape != (1, G * rx, G * ry):
            val = f"?shape={A.shape}"
        else:
            tile0 = A[0, :G, :G]
            if not np.array_equal(A[0], np.tile(tile0, (rx, ry))):
                val = "?not-tiled"
            else:
                d = decode_const(tile0) if case["unit"] == "array" else decode_atoms(tile0, case["ts"], case["zmode"])
                val = f"{d[0]}.{d[1]}" if isinstance(d, tuple) else f"?{d}"
    th = list_s(slic.slice_thickness, rat_s)
    ex = list_s([int(e) for e in slic.exit_planes])
    return f"{val}|{th}|{ex}"


def impl_gen(case):
    try:
        pot = make_potential(case)
        if case["kind"] == "atoms" and case.get("k") is not None:
            # slices are generated per ensemble block, as the multislice loops do
            blocks = [b[2].item() for b in pot.generate_blocks(1)]
            pot = blocks[case.get("block", 0)]
            cfg = case.get("block", 0)
        else:
            cfg = 0 if case["kind"] == "atoms" else None
        sl = list(pot.generate_slices(case["first"], case["last"]))
        return "ok " + (";".join(decode_slice(case, s, cfg) for s in sl) if sl else "~")
    except Exception as e:  # noqa
        return "err " + err_kind(e)


def decode_built(case, built):
    arr = np.asarray(built.array)
    k = case.get("k") if case["kind"] == "atoms" else (len(case["seeds"]) if case.get("seeds") is not None else None)
    if k is None:
        arr = arr[None]
    rows = []
    for r in arr:
        row = []
        for A in r:
            if case["kind"] == "atoms":
                d = decode_atoms(A, case["ts"], case["zmode"])
                row.append(f"{d[0]}:{d[1]}" if isinstance(d, tuple) else d)
            else:
                rx, ry = case["reps"][:2]
                if A.shape != (G * rx, G * ry) or not np.array_equal(A, np.tile(A[:G, :G], (rx, ry))):
                    row.append("?not-tiled")
                else:
                    d = decode_const(A[:G, :G]) if case["unit"] == "array" else decode_atoms(A[:G, :G], case["ts"], case["zmode"])
                    row.append(f"{d[0]}.{d[1]}" if isinstance(d, tuple) else d)
        rows.append(row)
    return "ok " + listlist_s(rows) + " " + list_s(built.slice_thickness, rat_s) + " " + list_s([int(e) for e in built.exit_planes])


def impl_build(case):
    try:
        pot = make_potential(case)
        built = pot.build(case["first"], case["last"], lazy=case["mode"] == "lazy")
        if case["mode"] == "lazy":
            built = built.compute(progress_bar=False)
        return decode_built(case, built)
    except Exception as e:  # noqa
        return "err " + err_kind(e)


def spec_s(eps):
    if eps is None:
        return "none"
    if isinstance(eps, int):
        return f"i:{eps}"
    return "t:" + list_s(eps)


def model_lines(case, legacy=False):
    """requests for the Lean driver: first the validated exit planes are needed -> two-stage (vep is evaluated in Python
    through the real `_validate_exit_planes`, which is itself compared with the model in `vep` cases)"""
    from abtem.potentials.iam import _validate_exit_planes

    ts = case["ts"]
    n = len(ts) * (case["reps"][2] if case["kind"] == "crystal" else 1)
    eps = _validate_exit_planes(eps_arg(case["eps"]), n)
    eps_l = list_s([int(e) for e in eps])
    last = opt_s(case["last"])
    if case["op"] == "gen":
        if case["kind"] == "crystal":
            return " ".join([("lgen" if legacy else "gen"), "crystal", list_s(ts, rat_s), str(case["reps"][2]), eps_l,
                             list_s(crystal_draws(case)[0]), str(case["first"]), last])
        return " ".join(["gen", case["kind"], list_s(ts, rat_s), eps_l, str(case["first"]), last])
    op = "lbuild" if legacy else "build"
    if case["kind"] == "atoms":
        return " ".join([op, case["mode"], "atoms", list_s(ts, rat_s), eps_l, opt_s(case.get("k")), str(case["first"]), last])
    k = len(case["seeds"]) if case.get("seeds") is not None else None
    return " ".join([op, case["mode"], "crystal", list_s(ts, rat_s), str(case["reps"][2]), eps_l, opt_s(k),
                     listlist_s(crystal_draws(case)), str(case["first"]), last])


# ------------------------------------------------------------------------------- generators
def gen_ts(rng, nmax=6):
    n = rng.randint(1, nmax)
    return [rng.randint(1, 8) / 4 for _ in range(n)]


def gen_eps(rng, n, malformed=False):
    r = rng.random()
    if malformed and r < 0.3:
        return rng.choice([[], [n + 1], [2, 1, 0], [-1], 0, -2, [-1, -1, 0]])
    if r < 0.3:
        return None
    if r < 0.55:
        return rng.randint(1, n + 1)
    sub = sorted(rng.sample(range(n), rng.randint(1, n)))
    if rng.random() < 0.5:
        sub = [-1] + sub
    return sub


def gen_window(rng, n, malformed=False):
    if malformed:
        return rng.choice([(0, n + 1), (n, n + 2), (2, 1), (n + 1, None), (1, -1), (0, -1), (n, None), (n + 2, n + 3)])
    first = rng.randint(0, n)
    last = rng.choice([None, rng.randint(first, n), rng.randint(first, n)])
    return first, last


def gen_case(ctx: Ctx, malformed=False):
    rng = ctx.rng
    kind = rng.choice(["atoms", "atoms", "array", "crystal", "crystal"])
    op = "gen" if kind == "array" else rng.choice(["gen", "build", "build"])
    c = dict(kind=kind, op=op)
    if kind == "crystal":
        c["ts"] = gen_ts(rng, 3)
        c["reps"] = [rng.randint(1, 2), rng.randint(1, 2), rng.randint(1, 3)]
        c["ncfg"] = rng.randint(1, 3)
        c["unit"] = rng.choice(["array", "array", "atoms"])
        c["zmode"] = rng.choice(["same", "distinct"])
        n = len(c["ts"]) * c["reps"][2]
        if op == "build":
            c["seeds"] = rng.choice([None, [rng.randint(0, 99) for _ in range(rng.randint(1, 3))]])
            if c["seeds"] is None and c["ncfg"] > 1:
                c["seeds"] = [rng.randint(0, 99)]
        else:
            c["seeds"] = [rng.randint(0, 99)] if (c["ncfg"] > 1 or rng.random() < 0.5) else None
    else:
        c["ts"] = gen_ts(rng)
        n = len(c["ts"])
        c["zmode"] = rng.choice(["same", "distinct"])
        c["finite"] = rng.random() < 0.3
        c["k"] = rng.choice([None, None, 1, 2, 3, 4])
        if kind == "atoms" and op == "gen" and c["k"] is not None:
            c["block"] = rng.randrange(c["k"])
    c["eps"] = gen_eps(rng, n, malformed and rng.random() < 0.5)
    c["first"], c["last"] = gen_window(rng, n, malformed and rng.random() < 0.7)
    if op == "build":
        c["mode"] = rng.choice(["eager", "lazy"])
    return c


# ------------------------------------------------------------------------------- conformance oracles (implementation only)
def slices_equal(a, b):
    return (np.array_equal(np.asarray(a.array), np.asarray(b.array)) and tuple(a.slice_thickness) == tuple(b.slice_thickness)
            and tuple(int(e) for e in a.exit_planes) == tuple(int(e) for e in b.exit_planes))


def real_potential(case):
    """small real numeric potentials (lobato; infinite / finite projection; atoms, frozen phonons, ensembles, crystal)"""
    import abtem
    from ase import Atoms

    rs = np.random.default_rng(case["aseed"])
    nat = case["natoms"]
    H = case["height"]
    pos = np.column_stack([rs.uniform(0, CELL, nat), rs.uniform(0, CELL, nat), rs.uniform(0.05, H - 0.05, nat)])
    atoms = Atoms(numbers=rs.choice(case["elements"], nat), positions=pos, cell=[CELL, CELL, H], pbc=True)
    src = case["source"]
    if src == "atoms":
        a = atoms
    elif src == "phonons":
        a = abtem.FrozenPhonons(atoms, num_configs=len(case["fseeds"]), sigmas=0.08, seed=tuple(case["fseeds"]))
    else:  # explicit ensemble
        a = []
        for s in case["fseeds"]:
            at = atoms.copy()
            at.positions[:, :2] += np.random.default_rng(s).normal(scale=0.1, size=(nat, 2))
            a.append(at)
    pot = abtem.Potential(a, gpts=case["gpts"], slice_thickness=case["st"], projection=case["projection"],
                          exit_planes=eps_arg(case.get("eps")))
    if case.get("crystal"):
        cr = case["crystal"]
        pot = abtem.CrystalPotential(pot, tuple(cr["reps"]), exit_planes=eps_arg(case.get("eps")),
                                     seeds=tuple(cr["seeds"]) if cr.get("seeds") is not None else None)
    return pot


def single_config(case, i):
    c = dict(case)
    c["fseeds"] = [case["fseeds"][i]]
    return c


class C10(Property):
    id = "C10"
    props_file = "AbtemVerif/Props/C10.lean"
    drive_file = "AbtemVerif/Drive/C10.lean"
    trusted = [
        "hand model Model/Build.lean of the loops/index bookkeeping in abtem/potentials/iam.py (tied by tracing correspondence; "
        "fingerprints of the modelled functions are reported in evidence); py2lean translator for the generated expressions of Gen/Build "
        "(eagerWidth, lazyWidth, atomsCount, atomsStart, crystalInWindow, crystalStop, crystalFlagLo, crystalFlagHi)",
        "tagging kernels of the harness (TagIntegrator, constant-valued PotentialArrays) replace numerics by symbols; the orchestration "
        "that runs is the real abTEM code",
        "DASK: map_blocks calls the block function once per ensemble block and places block c at position c",
        "RNG: numpy default_rng(seed).integers is a deterministic function of the seed (the crystal's draws are re-derived in the harness)",
        "NUMPY-INDEXING: basic slicing/assignment `array[i + (j,)] = …`, `xs[a:b]`, `np.where`, `np.tile` behave as modelled",
        "IEEE: `0 + x = x` for the accumulate-into-zeros branch of generate_slices",
    ]
    assumptions = ["CrystalPotential with a frozen-phonon unit and seeds=None is unseeded (not reproducible by design) and is excluded",
                   "negative first_slice (Python wrap-around indexing) is outside the model"]
    rule = ("random cases over kinds atoms (Atoms / AtomsEnsemble k=1..4, tagging integrator infinite/finite), PotentialArray (with and "
            "without ensemble axis), CrystalPotential (unit array/atoms, 1-3 unit configurations, repetitions, seeds); ops gen (slice "
            "windows) and build (eager/lazy); 1-6 slices, exit planes none/int/tuple, windows incl. last=None plus a malformed stream "
            "(last>n, last<first, empty/unsorted exit planes); distinct = distinct case JSON; non-trivial = window differs from the full "
            "range or ensemble size > 1")

    legacy = False  # development only: compare with the pre-fix model

    # ------------------------------------------------------------------ correspondence
    def correspondence(self, ctx: Ctx):
        from abtem.potentials.iam import PotentialArray, _validate_exit_planes

        drv = LeanDriver(self.drive_file)
        lines, checks = [], []
        # (1) exit-plane helpers
        for _ in range(ctx.n(120, 1500)):
            n = ctx.rng.randint(1, 7)
            spec = gen_eps(ctx.rng, n, malformed=True)
            lines.append(f"vep {spec_s(spec)} {n}")
            try:
                got = "ok " + list_s([int(e) for e in _validate_exit_planes(eps_arg(spec), n)])
            except Exception as e:  # noqa
                got = "err " + err_kind(e)
            checks.append(("_validate_exit_planes", {"spec": spec, "n": n}, got))
            ctx.count(f"vep:{got.split()[0]}")
            if got.startswith("ok"):
                eps = [int(t) for t in got.split()[1].split(",")] if got.split()[1] != "_" else []
            else:
                eps = spec if isinstance(spec, list) else [n - 1]
            lines.append(f"flags {list_s(eps)} {n}")
            try:
                pa = PotentialArray(np.zeros((n, 2, 2), dtype=np.float32), slice_thickness=1.0, sampling=0.1)
                pa._exit_planes = tuple(eps)  # the flag loop is compared on arbitrary tuples, also ones the constructor now rejects
                got = "ok " + list_s(["T" if b else "F" for b in pa._exit_plane_after])
            except Exception as e:  # noqa
                got = "err " + err_kind(e)
            checks.append(("BaseField._exit_plane_after", {"eps": eps, "n": n}, got))
            ctx.count(f"flags:{got.split()[0]}")
        # (2) traced generate_slices / build
        cases = [gen_case(ctx) for _ in range(ctx.n(260, 4000))] + [gen_case(ctx, malformed=True) for _ in range(ctx.n(90, 1200))]
        for c in cases:
            try:
                line = model_lines(c, self.legacy)
            except Exception:  # exit planes rejected by _validate_exit_planes itself (covered by the vep cases)
                ctx.count("case:eps-rejected")
                continue
            lines.append(line)
            got = impl_gen(c) if c["op"] == "gen" else impl_build(c)
            name = {"atoms": "_FieldBuilderFromAtoms.generate_slices", "array": "FieldArray.generate_slices",
                    "crystal": "CrystalPotential.generate_slices"}[c["kind"]] if c["op"] == "gen" else f"_FieldBuilder.build[{c['mode']}]"
            checks.append((name, c, got))
            n = len(c["ts"]) * (c["reps"][2] if c["kind"] == "crystal" else 1)
            nontrivial = (c["first"], c["last"]) not in ((0, None), (0, n)) or (c.get("k") or 0) > 1 or len(c.get("seeds") or []) > 1
            ctx.case(c, nontrivial=nontrivial)
            ctx.count(f"{c['op']}:{c['kind']}:{c.get('mode', '-')}:{got.split()[0]}")
            ctx.traces += 1
        outs = drv.query(lines)
        for (name, case, got), model in zip(checks, outs):
            ctx.agree(name, case, model, got)

    # ------------------------------------------------------------------ conformance
    def oracle_windows(self, ctx: Ctx, case):
        """every window of generate_slices equals the corresponding part of the full sequence (tagging kernels)"""
        pot = make_potential(case)
        if case["kind"] == "atoms" and case.get("k") is not None:
            pot = [b[2].item() for b in pot.generate_blocks(1)][case.get("block", 0)]
        full = list(pot.generate_slices())
        n = len(full)
        wins = [tuple(case["window"])] if case.get("window") else [(a, b) for a in range(n + 1) for b in range(a, n + 1)]
        for a, b in wins:
            try:
                w = list(pot.generate_slices(a, b))
                ok = len(w) == b - a and all(slices_equal(x, y) for x, y in zip(w, full[a:b]))
                detail = {"window": [a, b], "yielded": len(w), "expected": b - a}
            except Exception as e:  # noqa
                ok, detail = False, {"window": [a, b], "raised": f"{type(e).__name__}: {e}"}
            ctx.evaluations += 1
            if not ok:
                c = dict(case, window=[a, b], oracle="windows")
                ctx.violation(f"window-not-sublist-{case['kind']}", c, detail)
                return

    def oracle_build(self, ctx: Ctx, case, real=False):
        """eager == lazy == per-configuration fresh build, and build(first,last) == full[first:last]"""
        mk = real_potential if real else make_potential
        tol = dict(rtol=2e-5, atol=1e-4) if real else dict(rtol=0, atol=0)
        kind = "real-" + case["source"] + ("-crystal" if case.get("crystal") else "") if real else case["kind"]
        pot = mk(case)
        n = len(pot)

        def fail(key, detail):
            ctx.violation(key, dict(case, oracle="build-real" if real else "build"), detail)

        try:
            eager = np.asarray(pot.build(lazy=False).array)
        except Exception as e:  # noqa
            return fail(f"eager-build-raises-{kind}", {"raised": f"{type(e).__name__}: {e}"})
        try:
            lazy = np.asarray(mk(case).build(lazy=True).compute(progress_bar=False).array)
        except Exception as e:  # noqa
            return fail(f"lazy-build-raises-{kind}", {"raised": f"{type(e).__name__}: {e}"})
        ctx.evaluations += 2
        if eager.shape != lazy.shape or not np.allclose(eager, lazy, **tol):
            bad = [i for i in range(eager.shape[0])] if eager.shape != lazy.shape or eager.ndim < 4 else \
                [i for i in range(eager.shape[0]) if not np.allclose(eager[i], lazy[i], **tol)]
            return fail(f"eager-ne-lazy-{kind}", {"rows_differing": bad, "eager_shape": eager.shape, "lazy_shape": lazy.shape,
                                                  "eager_row_abs_sums": [float(np.abs(r).sum()) for r in eager] if eager.ndim == 4 else None})
        # every ensemble member equals the potential built from that configuration alone
        members = None
        if real and case["source"] != "atoms" and not case.get("crystal"):
            members = [np.asarray(real_potential(single_config(case, i)).build(lazy=False).array)[0] for i in range(len(case["fseeds"]))]
        elif real and case.get("crystal") and case["crystal"].get("seeds") is not None:
            members = []
            for s in case["crystal"]["seeds"]:
                c1 = dict(case, crystal=dict(case["crystal"], seeds=[s]))
                members.append(np.stack([np.asarray(x.array)[0] for x in real_potential(c1).generate_blocks(1).__next__()[2].item().generate_slices()]))
        elif not real and case["kind"] == "atoms" and case.get("k") is not None:
            # tagged configurations: row i must hold the integrator results of configuration i, slices 0..n-1 in order
            for i in range(case["k"]):
                tags = [decode_atoms(A, case["ts"], case["zmode"]) for A in eager[i]]
                if tags != [(i, j) for j in range(n)]:
                    return fail("eager-build-ensemble-rows", {"row": i, "tags": [str(t) for t in tags]})
        if members is not None:
            for i, m in enumerate(members):
                ctx.evaluations += 1
                if eager[i].shape != m.shape or not np.allclose(eager[i], m, **tol):
                    return fail(f"build-row-ne-configuration-{kind}", {"row": i, "maxdiff": float(np.abs(eager[i] - m).max()) if eager[i].shape == m.shape else None})
        # windows of build
        wins = [tuple(case["window"])] if case.get("window") else \
            ([(a, b) for a in range(n) for b in range(a + 1, n + 1)] if not real else [(0, n), (1, n), (0, max(1, n - 1)), (1, max(2, n - 1))])
        for a, b in wins:
            if not (0 <= a < b <= n):
                continue
            for mode in ("eager", "lazy"):
                try:
                    w = mk(case).build(a, b, lazy=mode == "lazy")
                    if mode == "lazy":
                        w = w.compute(progress_bar=False)
                    wa = np.asarray(w.array)
                    ref = eager[..., a:b, :, :]
                    ok = wa.shape == ref.shape and np.allclose(wa, ref, **tol) and len(w.slice_thickness) == b - a
                    detail = {"window": [a, b], "mode": mode, "shape": wa.shape, "expected_shape": ref.shape}
                except Exception as e:  # noqa
                    ok, detail = False, {"window": [a, b], "mode": mode, "raised": f"{type(e).__name__}: {e}"}
                ctx.evaluations += 1
                if not ok:
                    ctx.violation(f"{mode}-build-window-{kind}", dict(case, window=[a, b], oracle="build-real" if real else "build"), detail)
                    return

    def oracle_window_planes(self, ctx: Ctx, case):
        """a windowed potential array (build(a, b), potential_array[a:b]) carries the parent's exit planes that fall inside the
        window, shifted to it (entrance plane kept when the window starts at slice 0, the window's last slice when none is left),
        and a multislice run over it equals the run over an independently assembled array of the same slices"""
        import abtem

        ts = case["ts"]
        a, b = case["window"]
        eps = case.get("eps")
        atoms = tag_atoms(0, ts, "same")
        pot = abtem.Potential(atoms, gpts=G, slice_thickness=tuple(ts), exit_planes=eps_arg(eps))
        full = pot.build(lazy=False)
        parent = [int(p) for p in full.exit_planes]
        expected = [p - a for p in parent if a <= p < b]
        if parent[0] == -1 and a == 0:
            expected = [-1] + expected
        if not expected:
            expected = [b - a - 1]
        ref = abtem.PotentialArray(np.asarray(full.array)[a:b], slice_thickness=tuple(ts[a:b]), extent=(CELL, CELL),
                                   exit_planes=tuple(expected))
        ref_wave = np.asarray(abtem.PlaneWave(energy=100e3).multislice(ref, lazy=False).array)
        for how, w in (("getitem", full[a:b]), ("build", pot.build(a, b, lazy=False)), ("build-lazy", pot.build(a, b, lazy=True).compute(progress_bar=False))):
            planes = [int(p) for p in w.exit_planes]
            ctx.evaluations += 1
            if planes != expected:
                ctx.violation(f"window-array-exit-planes-wrong-{how}", case, {"exit_planes": planes, "expected": expected, "parent": parent})
                return
            wave = np.asarray(abtem.PlaneWave(energy=100e3).multislice(w, lazy=False).array)
            if wave.shape != ref_wave.shape or not np.allclose(wave, ref_wave, rtol=1e-5, atol=1e-6):
                ctx.violation(f"window-array-multislice-differs-{how}", case, {"shape": wave.shape, "ref_shape": ref_wave.shape})
                return
        # other selections of __getitem__: stepped (increasing: the parent's planes that fall on selected slices, at their position
        # in the selection) and reversed (not increasing: no consistent planes, the last slice of the selection)
        n = len(ts)
        for name, sel in (("reversed", slice(None, None, -1)), ("stepped", slice(a, None, 2)), ("reversed-window", slice(b - 1, None if a == 0 else a - 1, -1))):
            idx = list(range(n))[sel]
            if not idx:
                continue
            inc = all(y > x for x, y in zip(idx[:-1], idx[1:]))
            exp = [idx.index(p) for p in parent if p in idx] if inc else []
            if inc and parent[0] == -1 and idx[0] == 0:
                exp = [-1] + exp
            if not exp:
                exp = [len(idx) - 1]
            w = full[sel]
            planes = [int(p) for p in w.exit_planes]
            ctx.evaluations += 1
            if planes != exp:
                ctx.violation(f"selection-exit-planes-wrong-{name}", dict(case, selection=name), {"exit_planes": planes, "expected": exp, "parent": parent, "selected": idx})
                return
            ref = abtem.PotentialArray(np.asarray(full.array)[idx], slice_thickness=tuple(ts[i] for i in idx), extent=(CELL, CELL), exit_planes=tuple(exp))
            rw = np.asarray(abtem.PlaneWave(energy=100e3).multislice(ref, lazy=False).array)
            ww = np.asarray(abtem.PlaneWave(energy=100e3).multislice(w, lazy=False).array)
            if ww.shape != rw.shape or not np.allclose(ww, rw, rtol=1e-5, atol=1e-6):
                ctx.violation(f"selection-multislice-differs-{name}", dict(case, selection=name), {"shape": ww.shape, "ref_shape": rw.shape})
                return

    def conformance(self, ctx: Ctx):
        rng = ctx.rng
        for _ in range(ctx.n(8, 60)):
            ts = gen_ts(rng)
            n = len(ts)
            a = rng.randint(0, n - 1)
            c = {"oracle": "window-planes", "ts": ts, "window": [a, rng.randint(a + 1, n)], "eps": gen_eps(rng, n)}
            self.oracle_window_planes(ctx, c)
            ctx.case(c)
            ctx.count("conf-window-planes")
        # (a) windows with tagging kernels, all three kinds, all windows
        for _ in range(ctx.n(40, 500)):
            c = gen_case(ctx)
            c["op"] = "gen"
            c.pop("window", None)
            if c["kind"] == "crystal" and c.get("seeds") is None and c["ncfg"] > 1:
                c["seeds"] = [rng.randint(0, 99)]
            c["eps"] = gen_eps(rng, len(c["ts"]) * (c["reps"][2] if c["kind"] == "crystal" else 1))
            self.oracle_windows(ctx, c)
            ctx.case(c)
            ctx.count(f"conf-windows:{c['kind']}")
        # (b) builds with tagging kernels
        for _ in range(ctx.n(30, 400)):
            c = gen_case(ctx)
            while c["kind"] == "array":
                c = gen_case(ctx)
            c["op"] = "build"
            if c["kind"] == "crystal":
                c["seeds"] = rng.choice([None, [rng.randint(0, 99) for _ in range(rng.randint(1, 3))]])
                if c["seeds"] is None and c["ncfg"] > 1:
                    c["seeds"] = [rng.randint(0, 99), rng.randint(0, 99)]
            c["eps"] = gen_eps(rng, len(c["ts"]) * (c["reps"][2] if c["kind"] == "crystal" else 1))
            self.oracle_build(ctx, c)
            ctx.case(c)
            ctx.count(f"conf-build:{c['kind']}:k={c.get('k') if c['kind'] == 'atoms' else len(c.get('seeds') or [])}")
        # (c) small real numeric builds
        reals = []
        for src in ("phonons", "ensemble", "atoms"):
            for proj in ("infinite", "finite"):
                reals.append(dict(source=src, projection=proj))
        rng.shuffle(reals)
        for r in reals[: ctx.n(6, 6)] + [dict(source="phonons", projection="infinite", crystal=True), dict(source="ensemble", projection="finite", crystal=True)][: ctx.n(1, 2)]:
            H = rng.choice([3.0, 4.0, 5.0])
            c = dict(r, aseed=rng.randint(0, 10 ** 6), natoms=rng.randint(3, 6), height=H, elements=rng.choice([[6], [6, 14], [14, 8]]),
                     gpts=rng.choice([8, 12, 16]), st=rng.choice([1.0, 1.25, 2.0]), eps=rng.choice([None, 2]),
                     fseeds=[rng.randint(0, 10 ** 6) for _ in range(rng.randint(2, 3))] if r["source"] != "atoms" else [0])
            if r.get("crystal"):
                c["crystal"] = dict(reps=[1, 1, 2], seeds=[rng.randint(0, 99) for _ in range(rng.randint(2, 3))])
            self.oracle_build(ctx, c, real=True)
            ctx.case(c)
            ctx.count(f"conf-real:{c['source']}:{c['projection']}:{'crystal' if c.get('crystal') else 'plain'}")

    def replay(self, ctx: Ctx, case):
        which = case.get("oracle")
        if which == "window-planes":
            self.oracle_window_planes(ctx, case)
        elif which == "windows":
            self.oracle_windows(ctx, case)
        elif which == "build-real":
            self.oracle_build(ctx, case, real=True)
        else:
            self.oracle_build(ctx, case)


if __name__ == "__main__":
    import os

    p = C10()
    p.legacy = os.environ.get("C10_LEGACY") == "1"
    sys.exit(run_property(p))
