"""C29 — array-object structural operations keep data and metadata aligned."""
import sys
import warnings

import numpy as np

from common import Ctx, LeanDriver, Property, err_kind, list_s, rat_s, run_property

warnings.filterwarnings("ignore")


# ------------------------------------------------------------------ building real objects from a spec
def build(spec, lazy=False, offset=0):
    """spec = {"bd": base dims, "shape": [...], "axes": [["O", label, [vals]] | ["T", tag] | ["U"]]}"""
    import dask.array as da
    from abtem.core import axes as A
    from abtem import measurements as M
    shape = tuple(spec["shape"])
    arr = (np.arange(int(np.prod(shape)), dtype=np.float64) + offset).reshape(shape)
    if lazy:
        arr = da.from_array(arr, chunks=-1)
    ens = [mk_axis(a) for a in spec["axes"]]
    bd = spec["bd"]
    cls = spec.get("cls", "Images")
    if bd == 2 and cls == "Waves":
        import abtem
        return abtem.Waves(arr.astype(np.complex64), energy=100e3, sampling=0.5, ensemble_axes_metadata=ens)
    if bd == 2 and cls == "DiffractionPatterns":
        return M.DiffractionPatterns(arr, sampling=0.5, fftshift=True, ensemble_axes_metadata=ens, metadata={"energy": 100e3})
    if bd == 2:
        return M.Images(arr, sampling=0.5, ensemble_axes_metadata=ens)
    if bd == 1:
        return M.RealSpaceLineProfiles(arr, sampling=0.5, ensemble_axes_metadata=ens)
    return M.MeasurementsEnsemble(arr, ensemble_axes_metadata=ens)


def mk_axis(a):
    from abtem.core import axes as A
    if a[0] == "O":
        cls = [A.OrdinalAxis, A.ParameterAxis, A.ThicknessAxis][a[1] % 3]
        return cls(label=f"L{a[1]}", values=tuple(a[2]))
    if a[0] == "U":
        return A.UnknownAxis()
    t = a[1]
    if t % 3 == 0:
        return A.ScanAxis(label=f"t{t}", sampling=0.5, offset=1.0)
    if t % 3 == 1:
        return A.FrozenPhononsAxis(label=f"t{t}")
    return A.LinearAxis(label=f"t{t}", sampling=0.25)


def axis_s(a):
    if a[0] == "O":
        return f"O{a[1]}:{list_s(a[2])}"
    if a[0] == "U":
        return "U"
    t = a[1]
    if t % 3 == 0:
        return f"N{t}:1:1/2"      # ScanAxis(sampling=0.5, offset=1.0)
    if t % 3 == 2:
        return f"N{t}:0:1/4"      # LinearAxis(sampling=0.25)
    return f"T{t}"


def obj_s(spec):
    axes = ";".join(axis_s(a) for a in spec["axes"]) if spec["axes"] else "~"
    return f"{spec['bd']} {list_s(spec['shape'])} {axes}"


def canon(o):
    """real result -> the reply string of the Lean driver"""
    from abtem.core import axes as A
    arr = o.compute().array if o.is_lazy else o.array
    arr = np.real(np.asarray(arr))
    axes = [canon_axis(a) for a in o.ensemble_axes_metadata]
    md = [f"{k[1:]}:{int(v)}" for k, v in o.metadata.items() if isinstance(k, str) and k.startswith("L")]
    data = [int(round(float(v))) for v in arr.reshape(-1)]
    return f"ok {list_s(arr.shape)} {';'.join(axes) if axes else '~'} {list_s(data)} {list_s(md)}"


def canon_axis(a):
    from abtem.core import axes as A
    if isinstance(a, A.OrdinalAxis) and a.label.startswith("t"):   # a linear axis turned into the ordinal axis of selected coordinates
        return f"Q{a.label[1:]}:{list_s((rat_s(v) for v in a.values))}"
    if isinstance(a, A.OrdinalAxis):
        return f"O{a.label[1:]}:{list_s(int(v) for v in a.values)}"
    if isinstance(a, A.LinearAxis):
        return f"N{a.label[1:]}:{rat_s(a.offset)}:{rat_s(a.sampling)}"
    return "U" if type(a) is A.UnknownAxis else f"T{a.label[1:]}"


def select_item_by_item(raw, items):
    out, dim = raw, 0
    for it in items:
        if it is None:
            out = np.expand_dims(out, dim)
            dim += 1
        elif isinstance(it, int):
            out = out[(slice(None),) * dim + (it,)]     # plain indexing: bounds are checked even when another dimension is empty
        else:
            out = out[(slice(None),) * dim + (it,)]
            dim += 1
    return out


def py_item(it):
    k = it[0]
    if k == "i":
        return it[1]
    if k == "s":
        return slice(it[1], it[2], it[3])
    if k == "n":
        return None
    if k == "l":
        return list(it[1])
    return Ellipsis


def item_s(it):
    k = it[0]
    if k == "i":
        return f"i{it[1]}"
    if k == "s":
        return "s" + ":".join("" if x is None else str(x) for x in it[1:4])
    if k == "l":
        return "l" + list_s(it[1])
    return k


def run_op(spec, op, lazy=False):
    """apply the op to the real object; returns the result object (or raises)"""
    import abtem
    from abtem.core import axes as A
    o = build(spec, lazy)
    k = op["op"]
    if k == "get":
        items = tuple(py_item(i) for i in op["items"])
        if len(items) == 1 and op.get("bare"):
            items = items[0]
        if op["keepdims"]:
            return o.__class__(**o.get_items(items, keepdims=True))
        return o[items]
    if k == "expand":
        ax = tuple(op["axes"]) if len(op["axes"]) != 1 or not op.get("bare") else op["axes"][0]
        am = None if op["new"] is None else [mk_axis(a) for a in op["new"]]
        return o.expand_dims(axis=ax, axis_metadata=am)
    if k == "squeeze":
        return o.squeeze(axis=None if op["axes"] is None else tuple(op["axes"]))
    if k == "reduce":
        ax = tuple(op["axes"]) if len(op["axes"]) != 1 else op["axes"][0]
        return getattr(o, op.get("func", "sum"))(axis=ax, keepdims=op["keepdims"])
    if k == "concat":
        objs = []
        for j in range(op["k"]):
            sp = dict(spec, axes=[(["O", a[1], [v + 100 * j for v in a[2]]] if (a[0] == "O" and i == op["axis"]) else a)
                                  for i, a in enumerate(spec["axes"])])
            objs.append(build(sp, lazy, offset=1000 * j))
        return abtem.concatenate(objs, axis=op["axis"])
    if k == "arith":
        other = build(spec, lazy, offset=1000) if op["other"] == "obj" else (2.0 if op["other"] == "scalar" else np.full(spec["shape"], 3.0))
        return {"add": lambda: o + other, "sub": lambda: o - other, "mul": lambda: o * other, "div": lambda: o / (other if op["other"] != "obj" else 2.0)}[op["fn"]]()
    if k == "stack":
        objs = [build(spec, lazy, offset=1000 * j) for j in range(op["k"])]
        return abtem.stack(objs, axis_metadata=None if op["new"][0] == "U" else mk_axis(op["new"]), axis=op["axis"])
    raise ValueError(k)


def dask_unsafe(spec, op):
    """dask deviates from NumPy for negative-step slices whose bounds lie outside the axis: run those eagerly only"""
    if op["op"] == "reduce":  # dask accepts a repeated axis (NumPy: ValueError "duplicate value in 'axis'")
        nd = len(spec["shape"])
        ax = [a if a >= 0 else a + nd for a in op["axes"]]
        return len(set(ax)) != len(ax)
    if op["op"] != "get":
        return False
    kinds = [i[0] for i in op["items"]]
    if "l" in kinds and "n" in kinds:   # dask: "Don't yet support nd fancy indexing" with None next to an index list
        return True
    return _dask_slice_unsafe(spec, op)


def multi_invalid(spec, op):
    """several independently invalid items (step 0, out-of-range int / list entry): which error is raised first depends on the
    order in which metadata and array are indexed and on the array library (NumPy: item order, dask: integers first) — for such
    tuples only "an error is raised" is compared"""
    if op["op"] != "get":
        return False
    dim, invalid = 0, 0
    for it in op["items"]:
        if it[0] == "n":
            continue
        n = spec["shape"][dim] if dim < len(spec["shape"]) else 1
        dim += 1
        if it[0] == "s" and it[3] == 0:
            invalid += 1
        elif it[0] == "i" and not -n <= it[1] < n:
            invalid += 1
        elif it[0] == "l" and any(not -n <= v < n for v in it[1]):
            invalid += 1
    return invalid >= 2


def _dask_slice_unsafe(spec, op):
    dim = 0
    for it in op["items"]:
        if it[0] == "n":
            continue
        n = spec["shape"][dim] if dim < len(spec["shape"]) else 1
        dim += 1
        if it[0] == "s" and it[3] is not None and it[3] < 0:
            for b in (it[1], it[2]):
                if b is not None and (b < -n or b >= n):
                    return True
    return False


def op_line(spec, op):
    k = op["op"]
    o = obj_s(spec)
    if k == "get":
        items = ";".join(item_s(i) for i in op["items"]) if op["items"] else "~"
        return f"get {o} {'T' if op['keepdims'] else 'F'} {items}"
    if k == "expand":
        new = "default" if op["new"] is None else (";".join(axis_s(a) for a in op["new"]) if op["new"] else "~")
        return f"expand {o} {list_s(op['axes'])} {new}"
    if k == "squeeze":
        return f"squeeze {o} {'none' if op['axes'] is None else list_s(op['axes'])}"
    if k == "reduce":
        return f"reduce {o} {list_s(op['axes'])} {'T' if op['keepdims'] else 'F'}"
    if k == "concat":
        return f"concat {o} {op['k']} {op['axis']}"
    return f"stack {o} {op['k']} {axis_s(op['new'])} {op['axis']}"


# ------------------------------------------------------------------ generators
def gen_spec(rng, force_ens=None):
    bd = rng.choice([0, 1, 2, 2])
    ne = rng.randint(1 if bd == 0 else 0, 3) if force_ens is None else force_ens
    shape, axes = [], []
    for j in range(ne):
        n = rng.choice([1, 1, 2, 3, 4])
        shape.append(n)
        c = rng.random()
        if c < 0.5:
            axes.append(["O", j, [rng.randint(-9, 30) for _ in range(n)]])
        elif c < 0.9:
            axes.append(["T", 10 + j * 3 + rng.randint(0, 2)])
        else:
            axes.append(["U"])
    shape += [rng.choice([2, 3]) for _ in range(bd)]
    spec = {"bd": bd, "shape": shape, "axes": axes}
    if bd == 2:
        spec["cls"] = rng.choice(["Images", "Images", "Waves", "DiffractionPatterns"])
    return spec


def gen_item(rng, n, allow_list=True, edge=False):
    c = rng.random()
    lo, hi = (-n - 2, n + 1) if edge else (-n, n - 1)
    if c < 0.35:
        return ["i", rng.randint(lo, hi)]
    if c < 0.75:
        f = lambda: rng.choice([None, rng.randint(-n - 2, n + 2), rng.randint(0, max(n - 1, 0))])
        return ["s", f(), f(), rng.choice([None, None, 1, 2, 2, -1, -2, 3] + ([0] if edge else []))]
    if c < 0.85:
        return ["n"]
    if allow_list:
        return ["l", [rng.randint(lo, hi) for _ in range(rng.randint(0, 3))]]
    return ["s", None, None, None]


def gen_op(rng, spec, edge=False, with_arith=False):
    ne = len(spec["axes"])
    nd = len(spec["shape"])
    k = rng.choice(["get", "get", "get", "expand", "squeeze", "reduce", "reduce", "stack", "concat"] + (["arith"] if with_arith else []))
    if k == "concat" and ne == 0:
        k = "stack"
    if k == "concat":
        return {"op": "concat", "k": rng.randint(1, 3), "axis": rng.randrange(ne)}
    if k == "arith":
        return {"op": "arith", "fn": rng.choice(["add", "sub", "mul", "div"]), "other": rng.choice(["obj", "scalar", "array"])}
    if k == "get":
        cnt = rng.randint(0, ne + (2 if edge else 0))
        items, dim, has_list, has_int = [], 0, False, False
        for _ in range(cnt + rng.randint(0, 1)):
            n = spec["shape"][dim] if dim < nd else 2
            it = gen_item(rng, n, allow_list=True, edge=edge)
            if it[0] == "l":
                has_list = True
            if it[0] == "i":
                has_int = True
            if it[0] != "n":
                dim += 1
            items.append(it)
        if edge and rng.random() < 0.1:
            items.insert(rng.randint(0, len(items)), ["e"])
        return {"op": "get", "items": items, "keepdims": rng.random() < 0.25, "bare": rng.random() < 0.5}
    if k == "expand":
        m = rng.randint(1, 2)
        hi = ne + m - 1 + (2 if edge else 0)
        axes = rng.sample(range(-nd - (1 if edge else 0), hi + 1), m) if hi + nd + 1 >= m else [0]
        new = None if rng.random() < 0.5 else [rng.choice([["T", 50 + j], ["O", 60 + j, [7]], ["U"]]) for j in range(m)]
        return {"op": "expand", "axes": axes, "new": new, "bare": rng.random() < 0.5}
    if k == "squeeze":
        return {"op": "squeeze", "axes": None if rng.random() < 0.4 else [rng.randint(-nd, nd - 1) for _ in range(rng.randint(1, 2))]}
    if k == "reduce":
        m = rng.randint(1, 2)
        pool = list(range(-nd, nd)) if edge or rng.random() < 0.25 else (list(range(ne)) or [0])
        axes = [rng.choice(pool) for _ in range(m)] if edge else rng.sample(pool, min(m, len(pool)))
        return {"op": "reduce", "axes": axes, "keepdims": rng.random() < 0.4,
                "func": rng.choice(["sum", "mean", "max", "min", "std"]) if with_arith else "sum"}
    kk = rng.randint(1, 3)
    new = rng.choice([["O", 70, [rng.randint(0, 9) for _ in range(kk)]], ["T", 71], ["U"], ["O", 72, [1, 2, 3, 4][:kk + rng.choice([0, 0, 1])]]])
    return {"op": "stack", "k": kk, "new": new, "axis": rng.randint(0 if not edge else -1, ne + (1 if edge else 0))}


# ------------------------------------------------------------------ property
class C29(Property):
    id = "C29"
    props_file = "AbtemVerif/Props/C29.lean"
    drive_file = "AbtemVerif/Drive/C29.lean"
    trusted = [
        "hand model Model/ArrayObject.lean of get_items/_validate_array_items/_get_ensemble_axes_metadata_items, expand_dims, squeeze, "
        "_reduction, _stack and the constructor check _check_axes_metadata (tied by differential correspondence on random objects "
        "and operations, eager and lazy; fingerprints in the evidence)",
        "NUMPY-INDEXING: basic indexing (ints, slices with step, None) and indexing with one index list, reshape, squeeze, sum, stack "
        "on row-major arrays behave as modelled (`sliceIndices`, `gather`, `reduceData`); the model's array values are compared "
        "with the real result of every operation",
        "DASK: lazy arrays compute to the same values (exercised: every correspondence case also runs lazily)",
    ]
    assumptions = ["axis metadata other than OrdinalAxis values and LinearAxis offset/sampling is an opaque tag in the model",
                   "index lists combined with integer indices or with a second index list (NumPy advanced-index broadcasting) are outside "
                   "the model (`unsupported`) and are exercised by the conformance oracle only"]
    rule = ("random array objects (0-3 ensemble axes of size 1-4: ordinal / tagged / unknown; base dims 0, 1, 2; data = row-major "
            "provenance) and random operations (indexing with ints, slices with any step, None, one index list, keepdims; expand_dims; "
            "squeeze; sum over axes with/without keepdims; stack) plus an edge stream (out-of-range, too many indices, Ellipsis, base "
            "axes, duplicate/negative axes, step 0); distinct = distinct case JSON; non-trivial = the object has an ensemble axis")

    def correspondence(self, ctx: Ctx):
        rng = ctx.rng
        drv = LeanDriver(self.drive_file)
        cases = []
        for i in range(ctx.n(500, 8000)):
            spec = gen_spec(rng)
            op = gen_op(rng, spec, edge=i % 4 == 3)
            cases.append((spec, op))
        for i in range(ctx.n(60, 600)):
            n = rng.randint(3, 6)
            spec = {"bd": rng.choice([0, 1, 2]), "shape": [n], "axes": [["T", rng.choice([12, 15, 17, 18, 20])]]}
            spec["shape"] += [2] * spec["bd"]
            if spec["bd"] == 2:
                spec["cls"] = rng.choice(["Images", "Waves", "DiffractionPatterns"])
            start, step = rng.randint(1, n - 1), rng.choice([2, 3])
            cases.append((spec, {"op": "get", "items": [["s", start, rng.choice([None, n, n - 1]), step]], "keepdims": False, "bare": rng.random() < 0.5}))
        outs = drv.query([op_line(s, o) for s, o in cases])
        for (spec, op), out in zip(cases, outs):
            if out == "err unsupported":
                ctx.count("unsupported-by-model")
                continue
            for lazy in (False,) if dask_unsafe(spec, op) else (False, True):
                try:
                    got = canon(run_op(spec, op, lazy))
                except Exception as e:  # noqa
                    got = "err " + err_kind(e)
                if multi_invalid(spec, op) and out.startswith("err") and got.startswith("err"):
                    got = out   # several invalid items: only "an error is raised" is compared (see multi_invalid)
                ctx.agree(f"ArrayObject {op['op']} ({'lazy' if lazy else 'eager'})", {"spec": spec, "op": op}, out, got)
            ctx.count(f"{op['op']}:{out.split(' ')[0]}{':' + out.split(' ')[1] if out.startswith('err') else ''}")
            ctx.case({"spec": spec, "op": op}, nontrivial=bool(spec["axes"]))
        ctx.traces += len(cases)

    # -- the property's conclusion, checked on the implementation without the model -------
    def oracle(self, ctx: Ctx, case):
        return self._oracle(ctx, case)

    def _oracle(self, ctx: Ctx, case):
        from abtem.core import axes as A
        spec, op, lazy = case["spec"], case["op"], case.get("lazy", False)
        ne = len(spec["axes"])
        raw = np.arange(int(np.prod(spec["shape"])), dtype=np.float64).reshape(spec["shape"])
        k = op["op"]
        # what NumPy does with the raw array (the specification)
        try:
            if k == "get":
                items = tuple(py_item(i) for i in op["items"])
                consumed = sum(1 for i in items if i is not None)
                if consumed > ne or any(i is Ellipsis for i in items):
                    expect = "refuse"
                else:
                    if op["keepdims"]:
                        items = tuple([i] if isinstance(i, int) else i for i in items)
                    # specification: every item selects along its own dimension (the order the metadata is in); this IS
                    # NumPy's result unless an index list meets an integer or another list (checked right below)
                    expect = select_item_by_item(raw, items)
                    adv = [i for i in items if isinstance(i, (int, list))]
                    if len(adv) < 2 or all(isinstance(i, int) for i in adv):
                        assert np.array_equal(expect, raw[items]), "oracle specification differs from NumPy on an ordinary index"
            elif k == "expand":
                nd = raw.ndim + len(op["axes"])
                ax = [a if a >= 0 else a + nd for a in op["axes"]]
                if any(a < 0 or a > ne + len(ax) - 1 for a in ax) or len(set(ax)) != len(ax):
                    expect = "refuse"
                else:
                    expect = np.expand_dims(raw, tuple(ax))
            elif k == "squeeze":
                nd = raw.ndim
                ax = range(nd) if op["axes"] is None else [a if a >= 0 else a + nd for a in op["axes"]]
                sq = tuple(i for i in range(ne) if raw.shape[i] == 1 and i in ax)
                expect = np.squeeze(raw, axis=sq)
            elif k == "reduce":
                nd = raw.ndim
                ax = [a if a >= 0 else a + nd for a in op["axes"]]
                if any(ne <= a < nd for a in ax):
                    expect = "refuse"
                elif len(set(ax)) != len(ax) or any(a < 0 or a >= nd for a in ax):
                    expect = "refuse"
                else:
                    expect = getattr(raw, op.get("func", "sum"))(axis=tuple(ax), keepdims=op["keepdims"])
            elif k == "concat":
                expect = np.concatenate([raw + 1000 * j for j in range(op["k"])], axis=op["axis"])
            elif k == "arith":
                other = raw + 1000 if op["other"] == "obj" else (2.0 if op["other"] == "scalar" else np.full(raw.shape, 3.0))
                if op["fn"] == "div" and op["other"] == "obj":
                    other = 2.0
                expect = {"add": raw + other, "sub": raw - other, "mul": raw * other, "div": raw / other}[op["fn"]]
            else:
                if not (0 <= op["axis"] <= ne):
                    expect = "refuse"
                else:
                    expect = np.stack([raw + 1000 * j for j in range(op["k"])], axis=op["axis"])
                    if op["new"][0] == "O" and len(op["new"][2]) != op["k"]:
                        expect = "refuse"
                    if op["new"][0] == "T":   # documented: stack accepts None, strings, dict or an OrdinalAxis only
                        expect = "refuse"
        except (IndexError, ValueError):
            expect = "refuse"
        try:
            r = run_op(spec, op, lazy)
            got = np.real(np.asarray(r.compute().array if r.is_lazy else r.array))
        except Exception as e:  # noqa
            if isinstance(expect, str):
                return "refused"
            key = f"{k}-{'keepdims-' if op.get('keepdims') else ''}valid-operation-raises-{type(e).__name__}"
            ctx.violation(key, case, {"error": f"{type(e).__name__}: {e}"[:200], "numpy_shape": list(expect.shape)})
            return "raises"
        if isinstance(expect, str):
            ctx.violation(f"{k}-invalid-operation-accepted", case, {"result_shape": list(got.shape)})
            return "accepted"
        if got.shape != expect.shape or not np.allclose(got, expect, rtol=1e-5, atol=1e-5):
            ctx.violation(f"{k}-{'keepdims-' if op.get('keepdims') else ''}values-differ-from-numpy", case,
                          {"numpy_shape": list(expect.shape), "shape": list(got.shape)})
            return "values"
        if len(r.axes_metadata) != got.ndim:
            ctx.violation(f"{k}-axes-count-differs-from-ndim", case, {"axes": len(r.axes_metadata), "ndim": got.ndim})
            return "count"
        for n, a in zip(got.shape, r.axes_metadata):
            if isinstance(a, A.OrdinalAxis) and len(a) != n:
                ctx.violation(f"{k}-ordinal-length-differs-from-dimension", case, {"len": len(a), "dim": n})
                return "ordlen"
        if k == "concat":
            res_axes = [canon_axis(a) for a in r.ensemble_axes_metadata]
            want = []
            for i, a in enumerate(spec["axes"]):
                if i == op["axis"] and a[0] == "O":
                    want.append(axis_s(["O", a[1], [v + 100 * j for j in range(op["k"]) for v in a[2]]]))
                else:
                    want.append(axis_s(a))
            if res_axes != want:
                ctx.violation("concatenate-axes-metadata-wrong", case, {"axes": res_axes, "expected": want})
                return "concat-axes"
        if k == "arith":
            res_axes = [canon_axis(a) for a in r.ensemble_axes_metadata]
            if res_axes != [axis_s(a) for a in spec["axes"]] or type(r).__name__ != spec.get("cls", type(r).__name__):
                ctx.violation("arithmetic-axes-metadata-changed", case, {"axes": res_axes})
                return "arith-axes"
        if k == "expand":
            nd2 = got.ndim
            pos = [a if a >= 0 else a + nd2 for a in op["axes"]]
            res_axes = [canon_axis(a) for a in r.ensemble_axes_metadata]
            olds = [x for i, x in enumerate(res_axes) if i not in pos]
            news = [res_axes[p] for p in pos]
            want_new = ["U"] * len(pos) if op["new"] is None else [axis_s(a) for a in op["new"]][:len(pos)]
            if olds != [axis_s(a) for a in spec["axes"]] or news != want_new:
                ctx.violation("expand-axes-metadata-misplaced", case, {"axes": res_axes, "new_positions": pos, "new": want_new})
                return "moved"
        if k == "get":
            # metadata of the selected items is carried along
            items = [py_item(i) for i in op["items"]]
            src = [a for a in spec["axes"]]
            j = 0
            out_axes = list(r.ensemble_axes_metadata)
            oi = 0
            for it in items:
                if it is None:
                    oi += 1
                    continue
                a = src[j]
                j += 1
                if isinstance(it, int) and not op["keepdims"]:
                    if a[0] == "O" and r.metadata.get(f"L{a[1]}") != a[2][it]:
                        ctx.violation("get-int-item-metadata-not-carried", case, {"label": f"L{a[1]}", "expected": a[2][it],
                                                                                   "metadata": repr(r.metadata)[:100]})
                        return "itemmd"
                    continue
                sel = [it] if isinstance(it, int) else it
                if a[0] == "O":
                    want = list(np.array(a[2], dtype=object)[sel])
                    have = [int(v) for v in out_axes[oi].values]
                    if want != have:
                        ctx.violation("get-ordinal-values-not-carried", case, {"expected": want, "values": have})
                        return "ordvals"
                elif a[0] == "T" and a[1] % 3 != 1:
                    n_src = spec["shape"][j - 1]
                    src_axis = mk_axis(a)
                    want = list(np.array(src_axis.coordinates(n_src))[sel])
                    ax = out_axes[oi]
                    have = [float(v) for v in (ax.values if isinstance(ax, A.OrdinalAxis) else ax.coordinates(len(want)))] if len(want) else []
                    if len(have) != len(want) or not np.allclose(want, have):
                        forward = isinstance(it, slice) and (it.start is None or it.start >= 0) and (it.step is None or it.step >= 1)
                        # the recorded defect is "the axis is copied unchanged": re-derive that before using a known key
                        plain_copy = type(ax) is type(src_axis) and ax.offset == src_axis.offset and ax.sampling == src_axis.sampling
                        if forward or not plain_copy:
                            key = "get-linear-axis-coordinates-wrong"
                        elif isinstance(it, slice):
                            key = "get-backward-or-negative-start-slice-linear-axis-coordinates-not-updated"
                        else:
                            key = "get-index-list-linear-axis-coordinates-not-updated"
                        ctx.violation(key, case, {"expected": want, "coordinates": have})
                        return "coords"
                oi += 1
        return "ok"

    def gen_conf(self, ctx: Ctx, i):
        rng = ctx.rng
        spec = gen_spec(rng)
        op = gen_op(rng, spec, edge=i % 5 == 4, with_arith=True)
        if op["op"] == "get" and i % 7 == 0:  # NumPy advanced-index corner: int and list (outside the model)
            op["items"] = [["i", 0], ["s", None, None, None], ["l", [0, 0]]][:max(1, len(spec["axes"]))]
            op["keepdims"] = False
        return {"spec": spec, "op": op, "lazy": rng.random() < 0.4 and not dask_unsafe(spec, op)}

    def conformance(self, ctx: Ctx):
        for i in range(ctx.n(1200, 20000)):
            case = self.gen_conf(ctx, i)
            r = self.oracle(ctx, case)
            ctx.count(f"conf:{case['op']['op']}:{r}")
            ctx.case(case, nontrivial=bool(case["spec"]["axes"]))

    def replay(self, ctx: Ctx, case):
        self.oracle(ctx, case)


if __name__ == "__main__":
    sys.exit(run_property(C29()))
