"""C28 — ptychographic operators honour their mathematical contracts (abtem/reconstruct.py)."""
import math
import sys
from fractions import Fraction

import numpy as np

from common import (Ctx, LeanDriver, Property, close, dyadic, err_kind, list_s, rat_s, run_property)


def R():
    from abtem.reconstruct import RegularizedPtychographicOperator

    return RegularizedPtychographicOperator


def pair_s(p):
    return "none" if p is None else f"{rat_s(p[0])},{rat_s(p[1])}"


def pairs_s(ps):
    if ps is None:
        return "none"
    return ";".join(f"{rat_s(x)},{rat_s(y)}" for x, y in ps) if len(ps) else "~"


# ----------------------------------------------------------------------------- implementation drivers
def impl_window(c):
    from abtem.reconstruct import _wrapped_indices_2D_window

    rows, cols = _wrapped_indices_2D_window(np.array([c["cx"], c["cy"]]), (c["nx"], c["ny"]), (c["sx"], c["sy"]))
    return [[int(v) for v in rows.ravel()], [int(v) for v in cols.ravel()]]


def params_of(c):
    return dict(grid_scan_shape=None if c["grid"] is None else tuple(c["grid"]),
                scan_step_sizes=None if c["steps"] is None else tuple(c["steps"]),
                rotation_angle=c["angle"], object_px_padding=None if c["pad"] is None else tuple(c["pad"]))


def impl_positions(c):
    pos = None if c["positions"] is None else np.array(c["positions"], dtype=np.float64).reshape(-1, 2)
    try:
        out, ep = R()._calculate_scan_positions_in_pixels(pos, tuple(c["sampling"]), tuple(c["roi"]), params_of(c))
        return ["ok", [[float(a), float(b)] for a, b in np.asarray(out)], [float(v) for v in ep["object_px_padding"]]]
    except Exception as e:  # noqa
        return ["err", err_kind(e)]


def positions_line(c):
    rot = None if c["angle"] is None else (math.cos(c["angle"]), math.sin(c["angle"]))
    return " ".join(["positions", pairs_s(c["positions"]), rat_s(c["sampling"][0]), rat_s(c["sampling"][1]),
                     str(c["roi"][0]), str(c["roi"][1]),
                     "none" if c["grid"] is None else f"{c['grid'][0]},{c['grid'][1]}",
                     pair_s(c["steps"]), pair_s(rot), pair_s(c["pad"])])


def parse_positions(out):
    t = out.split()
    if t[0] == "err":
        return ["err", t[1]]
    ps = [] if t[1] == "~" else [[float(Fraction(v)) for v in p.split(",")] for p in t[1].split(";")]
    return ["ok", ps, [float(Fraction(v)) for v in t[2].split(",")]]


def same_positions(a, b, tol):
    if a[0] != b[0]:
        return False
    if a[0] == "err":
        return a[1] == b[1]
    if len(a[1]) != len(b[1]):
        return False
    flat = lambda r: [v for p in r[1] for v in p] + list(r[2])
    return all(abs(x - y) <= tol * max(1.0, abs(x), abs(y)) for x, y in zip(flat(a), flat(b)))


def traced_shift(pos, old):
    """the `positions` argument `_overlap_projection` hands to fft_shift (recorded by wrapping the function inside abtem.reconstruct)"""
    import abtem.reconstruct as rec

    seen = []
    orig = rec.fft_shift

    def wrapper(array, positions):
        seen.append([float(v) for v in np.asarray(positions)])
        return orig(array, positions)

    rec.fft_shift = wrapper
    try:
        R()._overlap_projection(np.ones((6, 6), dtype=complex), np.ones((3, 3), dtype=complex), np.array(pos, dtype=float), np.array(old, dtype=float))
    finally:
        rec.fft_shift = orig
    return seen[0] if len(seen) == 1 else seen


def reference_shift(P, d):
    """independent Fourier shift of P by d pixels"""
    nx, ny = P.shape
    return np.fft.ifft2(np.fft.fft2(P) * np.exp(-2j * np.pi * (np.fft.fftfreq(nx)[:, None] * d[0] + np.fft.fftfreq(ny)[None] * d[1])))


def reconstruct_at_true_solution(c):
    """run `reconstruct()` of an operator started at the true object and probe; returns per iteration (sse, probe error, object error).
    The data follow the physical contract, independently of the operator's bookkeeping: at scan position p the object window centred
    on round(p) is illuminated by the probe shifted by the fractional part of p."""
    import abtem.reconstruct as rec
    from abtem.core.energy import energy2wavelength

    Rcls = getattr(rec, c.get("cls", "RegularizedPtychographicOperator"))
    rs = np.random.default_rng(c["seed"])
    energy, n, samp = 80e3, c["roi"], 0.2
    dk = energy2wavelength(energy) * 1e3 / samp / n
    g = np.exp(-((np.arange(n)[:, None] - n / 2) ** 2 + (np.arange(n)[None] - n / 2) ** 2) / (2 * (n / 5) ** 2)).astype(complex)
    P_true = g * np.exp(1j * 0.3 * rs.normal(size=(n, n))) + 0.05
    steps = np.array([[i * c["step"], j * c["step"] * 1.1] for i in range(4) for j in range(4)])
    op = Rcls(np.ones((len(steps), n, n)), energy=energy, positions=steps.copy(), probes=P_true.copy(), angular_sampling=(dk, dk), semiangle_cutoff=20.0)
    op.preprocess()
    obj_shape = op._objects.shape
    O_true = np.exp(1j * 0.5 * rs.normal(size=obj_shape))
    D2 = []
    for p in np.asarray(op._positions_px):
        ctr = [int(round(v)) for v in p]
        f = [v - round(v) for v in p]
        ix = np.ix_((np.arange(n) + ctr[0] - n // 2) % obj_shape[0], (np.arange(n) + ctr[1] - n // 2) % obj_shape[1])
        D2.append(np.abs(np.fft.fft2(O_true[ix] * reference_shift(P_true, f))) ** 2)
    D2 = np.fft.fftshift(np.array(D2), axes=(-2, -1))
    order = None
    if c.get("dead") is not None:  # one empty diffraction pattern, placed where the first sweep visits it first / last
        np.random.seed(c["rseed"]); order = np.arange(len(steps)); np.random.shuffle(order)
        D2[int(order[0] if c["dead"] == "first" else order[-1])] = 0.0
    op = Rcls(D2, energy=energy, positions=steps.copy(), objects=O_true.astype(np.complex128).copy(), probes=P_true.copy(), angular_sampling=(dk, dk),
              semiangle_cutoff=20.0)
    op.preprocess()
    objs, probes, positions, sse = op.reconstruct(max_iterations=c["iterations"], fix_com=False, random_seed=c["rseed"], return_iterations=True)
    out = []
    for k in range(c["iterations"]):
        Pk, Ok = np.asarray(probes.array[k]), np.asarray(objs.array[k])
        out.append([float(sse[k]), float(np.abs(Pk - P_true).max() / np.abs(P_true).max()), float(np.abs(Ok - O_true).max())])
    return out


# ----------------------------------------------------------------------------- generators
def gen_window(ctx):
    rng = ctx.rng
    kind = rng.choice(["inside", "tie", "wrap", "big"])
    sx, sy = rng.randint(1, 10), rng.randint(1, 10)
    if kind == "big":
        nx, ny = rng.randint(1, 12), rng.randint(1, 12)
    else:
        nx, ny = rng.randint(1, sx), rng.randint(1, sy)
    if kind == "tie":
        cx, cy = rng.randint(-6, 14) + 0.5, rng.randint(-6, 14) + rng.choice([0.5, 0.0])
    elif kind == "inside":
        cx, cy = dyadic(rng, 0, sx, 3), dyadic(rng, 0, sy, 3)
    else:
        cx, cy = dyadic(rng, -25, 25, 3), dyadic(rng, -25, 25, 3)
    return dict(op="window", kind=kind, cx=cx, cy=cy, nx=nx, ny=ny, sx=sx, sy=sy)


def gen_positions(ctx, explicit=None):
    rng = ctx.rng
    explicit = rng.random() < 0.6 if explicit is None else explicit
    c = dict(op="positions", sampling=[rng.choice([0.25, 0.5, 1.0, 2.0]), rng.choice([0.25, 0.5, 1.0, 2.0])],
             roi=[rng.randint(2, 12), rng.randint(2, 12)],
             angle=rng.choice([None, None, dyadic(rng, -3, 3, 4)]),
             pad=rng.choice([None, [rng.randint(0, 6), rng.randint(0, 6)], [dyadic(rng, 0, 6, 2), dyadic(rng, 0, 6, 2)]]))
    if explicit:
        j = rng.choice([0, 1, 1, 2, 3, 3, 4, 5, 6])
        c["positions"] = [[dyadic(rng, -8, 8, 3), dyadic(rng, -8, 8, 3)] for _ in range(j)]
        c["grid"] = rng.choice([None, [2, 2]]); c["steps"] = rng.choice([None, [0.5, 0.5]])
    else:
        c["positions"] = None
        c["grid"] = rng.choice([None, [rng.randint(0, 4), rng.randint(0, 4)], [rng.randint(1, 4), rng.randint(1, 4)]])
        c["steps"] = rng.choice([None, [dyadic(rng, 0.25, 2, 2), dyadic(rng, 0.25, 2, 2)], [dyadic(rng, 0.25, 2, 2), dyadic(rng, 0.25, 2, 2)]])
    c["kind"] = "explicit" if explicit else "raster"
    return c


class C28(Property):
    id = "C28"
    props_file = "AbtemVerif/Props/C28.lean"
    drive_file = "AbtemVerif/Drive/C28.lean"
    trusted = [
        "FFT: numpy fft2/ifft2 implement a DFT pair in the sense of Lib/DFT.lean `FourierPair` (inverse laws); the projection "
        "theorems are proved for every such pair and validated numerically on the real static methods",
        "IEEE: complex128 evaluation of exp(1j*angle(z)), |z|, products and quotients is within 1e-9 of the real value (oracle tolerances)",
        "NUMPY-INDEXING: np.ix_ fancy indexing / `+=` on an index window without repeated indices behaves as a pointwise update",
        "hand model `Ptycho.wrappedWindow/scanPositions/roundHalfEven` of numpy round, arange, meshgrid/ravel, ptp, column minimum "
        "(tied by correspondence; fingerprints reported); cos/sin of the rotation angle enter the model as exact rationals of the float values",
    ]
    assumptions = ["unregularised updates (alpha = 0 or beta = 0) are validated for well-conditioned probes/objects only (|P|, |O| of order one): a probe "
                   "pixel of 1e-13 with alpha = 0 amplifies the rounding noise of psi' - psi to 3e-3; nearly dark pixels are generated with alpha, beta > 0",
                   "an all-zero diffraction pattern gives sse = NaN (0/0) in _fourier_projection and a vanishing summed modal intensity gives NaN in the "
                   "mixed-state projection; both are the guards of zero_error / mixed_projection_total_intensity and are asserted as such by the oracle",
                   "sampling != 0 and array extents > 0 (numpy yields inf/nan or warnings there, not exceptions)",
                   "probe window not larger than the object array for the update contract (repeated fancy indices drop updates)"]
    rule = ("random windows (inside / half-integer ties / far outside / larger than the array), random explicit (J=0..6) and raster "
            "scan position requests with dyadic coordinates, power-of-two samplings, optional rotation and padding; random complex "
            "exit waves and amplitudes (zeros included) for the projection and update oracles; distinct = distinct case JSON")

    # ------------------------------------------------------------------ correspondence
    def correspondence(self, ctx: Ctx):
        drv = LeanDriver(self.drive_file)
        rng = ctx.rng
        cases = []
        for _ in range(ctx.n(200, 4000)):
            cases.append(dict(op="round", x=rng.choice([rng.randint(-40, 40) + 0.5, dyadic(rng, -40, 40, 4), float(rng.randint(-5, 5))])))
        for _ in range(ctx.n(150, 3000)):  # quarter-pixel grid: fractional parts that differ by more than 1/2, ties, negatives
            cases.append(dict(op="shift", pos=[rng.randint(-12, 40) / 4, rng.randint(-12, 40) / 4],
                              old=[rng.randint(-12, 40) / 4, dyadic(rng, -3, 10, 3)]))
        cases += [gen_window(ctx) for _ in range(ctx.n(300, 6000))]
        cases += [gen_positions(ctx) for _ in range(ctx.n(300, 6000))]
        lines = []
        for c in cases:
            if c["op"] == "round":
                lines.append(f"round {rat_s(c['x'])}")
            elif c["op"] == "shift":
                lines.append(f"shift {rat_s(c['pos'][0])} {rat_s(c['old'][0])}")
                lines.append(f"shift {rat_s(c['pos'][1])} {rat_s(c['old'][1])}")
            elif c["op"] == "window":
                lines.append(f"window {rat_s(c['cx'])} {rat_s(c['cy'])} {c['nx']} {c['ny']} {c['sx']} {c['sy']}")
            else:
                lines.append(positions_line(c))
        bad = ["round", "window 1 1 2 2 3", "positions none 1 1 4 4 none none none", "window a 1 2 2 3 3", "positions 1,2,3 1 1 4 4 none none none none"]
        outs = drv.query(lines + bad)
        for l, o in zip(bad, outs[len(lines):]):
            ctx.agree("driver rejects malformed request", l, o, "bad-op")
        outs = iter(outs)
        for c in cases:
            out = next(outs)
            if c["op"] == "shift":
                out2 = next(outs)
                ctx.agree("_overlap_projection sub-pixel shift handed to fft_shift", c,
                          [float(Fraction(out.split()[1])), float(Fraction(out2.split()[1]))], traced_shift(c["pos"], c["old"]))
                d = abs((c["pos"][0] - round(c["pos"][0])) - (c["old"][0] - round(c["old"][0])))
                ctx.count("shift:" + ("fractional parts differ by > 1/2" if d > 0.5 else "<= 1/2"))
                ctx.case(c, nontrivial=True)
                continue
            if c["op"] == "round":
                ctx.agree("np.round (half to even)", c, int(out.split()[1]), int(np.round(c["x"])))
                ctx.count("round:" + ("tie" if (c["x"] * 2) % 2 == 1 else "plain"))
            elif c["op"] == "window":
                t = out.split()
                model = [[int(v) for v in t[1].split(",")], [int(v) for v in t[2].split(",")]]
                ctx.agree("_wrapped_indices_2D_window", c, model, impl_window(c))
                ctx.count("window:" + c["kind"])
            else:
                got = impl_positions(c)
                model = parse_positions(out)
                tol = 0.0 if c["angle"] is None else 1e-12
                ctx.agree("_calculate_scan_positions_in_pixels", c, model, got, ok=same_positions(model, got, tol))
                ctx.count(f"positions:{c['kind']}:{got[0] if got[0] == 'ok' else got[1]}:rot={c['angle'] is not None}")
            ctx.case(c, nontrivial=c["op"] != "round")
        ctx.traces += len(cases)

    # ------------------------------------------------------------------ conformance (independent of the model)
    def oracle(self, ctx: Ctx, c):
        kind = c["kind"]
        rs = np.random.default_rng(c.get("seed", 0))
        if kind == "projection":
            n, m = c["shape"]
            psi = rs.normal(size=(n, m)) + 1j * rs.normal(size=(n, m))
            D = np.abs(rs.normal(size=(n, m))) * c["scale"]
            D[rs.random((n, m)) < c["zero_fraction"]] = 0.0
            if c["kill"]:
                f = np.fft.fft2(psi); f[0, 0] = 0.0; psi = np.fft.ifft2(f)  # a Fourier coefficient that is exactly zero
            out, sse = R()._fourier_projection(psi, D, c["sse0"])
            F0, F1 = np.fft.fft2(psi), np.fft.fft2(out)
            tol = 1e-9 * max(1.0, float(D.max()), float(np.abs(F0).max()))
            if not (np.abs(np.abs(F1) - D).max() <= tol):
                ctx.violation("fourier-projection-amplitude", c, {"max_abs_diff": float(np.abs(np.abs(F1) - D).max())})
            mask = (D > 1e-6 * c["scale"]) & (np.abs(F0) > 1e-6)
            if mask.any():
                dphi = np.angle(F1[mask] * np.conj(F0[mask]))
                if not (np.abs(dphi).max() <= 1e-7):
                    ctx.violation("fourier-projection-phase", c, {"max_phase_diff": float(np.abs(dphi).max())})
            out2, _ = R()._fourier_projection(out, D, 0.0)
            if not (np.abs(out2 - out).max() <= tol):
                ctx.violation("fourier-projection-idempotent", c, {"max_abs_diff": float(np.abs(out2 - out).max())})
            denom = float(np.sum(D ** 2))
            if denom == 0:
                # documented behaviour for an all-zero pattern: 0/0 (`reconstruct` skips such patterns); the theorem carries the guard sum(D^2) != 0
                ctx.count("projection:all-zero-pattern")
                if np.isfinite(sse):  # inf (or nan for a zero exit wave): division by sum(D^2) = 0
                    ctx.violation("fourier-projection-sse-finite-for-empty-pattern", c, {"sse": float(sse)})
            if denom > 0:
                exp_sse = c["sse0"] + float(np.mean((np.abs(F0) - D) ** 2)) / denom
                if not close(sse, exp_sse, rel=1e-9, abs_=1e-12):
                    ctx.violation("fourier-projection-sse", c, {"observed": float(sse), "expected": exp_sse})
        elif kind == "mixed-projection":
            from abtem.reconstruct import MixedStatePtychographicOperator as M

            k, (n, m) = c["modes"], c["shape"]
            psi = rs.normal(size=(k, n, m)) + 1j * rs.normal(size=(k, n, m))
            D = np.abs(rs.normal(size=(n, m))) * c["scale"]
            if c.get("kill"):  # one Fourier coefficient that vanishes in every mode: current intensity 0 there
                f = np.fft.fft2(psi); f[:, 0, 0] = 0.0; psi = np.fft.ifft2(f)
            out, sse = M._fourier_projection(psi, D, 0.0)
            if c.get("kill"):
                # hypothesis of mixed_projection_total_intensity violated (norm = 0): the code divides by zero and the NaN spreads through ifft2
                ctx.count("mixed-projection:zero-intensity-coefficient")
                if np.isfinite(out).all() and D[0, 0] > 0:
                    ctx.violation("mixed-projection-finite-at-zero-intensity-but-amplitude-not-imposed", c, {}) if \
                        abs(np.sqrt((np.abs(np.fft.fft2(out)) ** 2).sum(axis=0))[0, 0] - D[0, 0]) > 1e-9 else None
                return
            F0, F1 = np.fft.fft2(psi), np.fft.fft2(out)
            tol = 1e-9 * max(1.0, float(D.max()))
            total = np.sqrt((np.abs(F1) ** 2).sum(axis=0))
            if not (np.abs(total - D).max() <= tol):
                ctx.violation("mixed-projection-total-intensity", c, {"max_abs_diff": float(np.abs(total - D).max())})
            mask = (np.abs(F0) > 1e-6) & (D[None] > 1e-6 * c["scale"])
            if mask.any() and not (np.abs(np.angle(F1[mask] * np.conj(F0[mask]))).max() <= 1e-7):
                ctx.violation("mixed-projection-phase", c, {})
            out2, _ = M._fourier_projection(out, D, 0.0)
            if not (np.abs(out2 - out).max() <= tol):
                ctx.violation("mixed-projection-idempotent", c, {"max_abs_diff": float(np.abs(out2 - out).max())})
        elif kind == "reconstruct":
            res = reconstruct_at_true_solution(c)
            ctx.count(f"reconstruct:roi={'odd' if c['roi'] % 2 else 'even'}:dead={c.get('dead')}")
            for k, (sse, dp, do) in enumerate(res):
                # started at the true object and probe, every sweep must leave both unchanged and report zero error (complex64 shift kernels: 1e-6)
                if not (sse <= 1e-10 and dp <= 1e-5 and do <= 1e-5):
                    key = "reconstruct-true-solution-drifts" + ("-with-skipped-pattern-visited-" + c["dead"] if c.get("dead") else "-odd-roi" if c["roi"] % 2 else "")
                    ctx.violation(key, c, {"iteration": k, "sse": sse, "probe_error": dp, "object_error": do}); return
        elif kind == "overlap-path":
            (sx, sy), (nx, ny) = c["object_shape"], c["probe_shape"]
            obj = np.exp(1j * rs.normal(size=(sx, sy)))
            probe0 = rs.normal(size=(nx, ny)) + 1j * rs.normal(size=(nx, ny))
            from abtem.reconstruct import _wrapped_indices_2D_window

            probes, old = probe0.copy(), np.array(c["path"][0], dtype=float)
            fr = lambda v: np.array([x - round(x) for x in v])  # Python round: half to even, like numpy
            for pos in c["path"][1:]:
                pos = np.array(pos, dtype=float)
                probes, exit_wave = R()._overlap_projection(obj, probes, pos, old)
                # after any path the probe sits at the fractional part of the current position (relative to the start)
                ref = reference_shift(probe0, fr(pos) - fr(np.array(c["path"][0], dtype=float)))
                if not (np.abs(probes - ref).max() <= 1e-5 * max(1.0, np.abs(ref).max())):
                    ctx.violation("overlap-probe-not-at-fractional-position", c, {"position": pos.tolist(), "old_position": old.tolist(),
                                                                                "max_abs_diff": float(np.abs(probes - ref).max())})
                    return
                idx = _wrapped_indices_2D_window(pos, probes.shape, obj.shape)
                if not (np.abs(exit_wave - obj[idx] * probes).max() <= 1e-12):
                    ctx.violation("overlap-projection-not-object-times-probe", c, {"position": pos.tolist()}); return
                old = pos
        elif kind == "true-solution":
            (sx, sy), (nx, ny) = c["object_shape"], c["probe_shape"]
            obj = np.exp(1j * rs.normal(size=(sx, sy))) * (0.5 + rs.random((sx, sy)))
            probe = rs.normal(size=(nx, ny)) + 1j * rs.normal(size=(nx, ny))
            if c["alpha"] > 0 and c["beta"] > 0 and c["seed"] % 3 == 0:
                probe[0, 0] = 1e-13  # a nearly dark probe pixel: harmless with regularisation (alpha > 0); alpha = 0 is ill-conditioned there
            pos = np.array(c["position"], dtype=float)
            old = np.array(c["old_position"], dtype=float)
            probes, exit_wave = R()._overlap_projection(obj, probe, pos, old)
            from abtem.reconstruct import _wrapped_indices_2D_window

            idx = _wrapped_indices_2D_window(pos, probes.shape, obj.shape)
            if not (np.abs(exit_wave - obj[idx] * probes).max() <= 1e-12):
                ctx.violation("overlap-projection-not-object-times-probe", c, {"max_abs_diff": float(np.abs(exit_wave - obj[idx] * probes).max())})
            D = np.abs(np.fft.fft2(exit_wave))
            mod, sse = R()._fourier_projection(exit_wave, D, 0.0)
            if not (abs(sse) <= 1e-20):
                ctx.violation("true-solution-nonzero-error", c, {"sse": float(sse)})
            rp = dict(alpha=c["alpha"], beta=c["beta"], object_step_size=c["object_step"], probe_step_size=c["probe_step"])
            o2, p2, pos2 = R()._update_function(obj.copy(), probes.copy(), pos.copy(), exit_wave, mod, D, fix_probe=c["fix_probe"],
                                                reconstruction_parameters=rp)
            scale = max(1.0, float(np.abs(obj).max()), float(np.abs(probes).max()))
            if not (np.abs(o2 - obj).max() <= 1e-9 * scale and np.abs(p2 - probes).max() <= 1e-9 * scale and np.abs(pos2 - pos).max() <= 0):
                ctx.violation("true-solution-not-fixed-point", c, {"object_change": float(np.abs(o2 - obj).max()),
                                                                  "probe_change": float(np.abs(p2 - probes).max())})
        elif kind == "update":
            (sx, sy), (nx, ny) = c["object_shape"], c["probe_shape"]
            obj = rs.normal(size=(sx, sy)) + 1j * rs.normal(size=(sx, sy))
            probe = rs.normal(size=(nx, ny)) + 1j * rs.normal(size=(nx, ny))
            pos = np.array(c["position"], dtype=float)
            psi = rs.normal(size=(nx, ny)) + 1j * rs.normal(size=(nx, ny))
            psi2 = rs.normal(size=(nx, ny)) + 1j * rs.normal(size=(nx, ny))
            rp = dict(alpha=c["alpha"], beta=c["beta"], object_step_size=c["object_step"], probe_step_size=c["probe_step"])
            o2, p2, _ = R()._update_function(obj.copy(), probe.copy(), pos.copy(), psi, psi2, None, fix_probe=c["fix_probe"],
                                             reconstruction_parameters=rp)
            # reference by explicit loops over the window (centre pixel nx//2 sits on round(position))
            cx, cy = int(np.round(pos[0])), int(np.round(pos[1]))
            exp_o, exp_p = obj.copy(), probe.copy()
            pmax = (np.abs(probe) ** 2).max()
            roi = np.empty((nx, ny), dtype=complex)
            for i in range(nx):
                for j in range(ny):
                    roi[i, j] = obj[(cx - nx // 2 + i) % sx, (cy - ny // 2 + j) % sy]
            omax = (np.abs(roi) ** 2).max()
            for i in range(nx):
                for j in range(ny):
                    d = psi2[i, j] - psi[i, j]
                    exp_o[(cx - nx // 2 + i) % sx, (cy - ny // 2 + j) % sy] += c["object_step"] * np.conj(probe[i, j]) * d / (
                        (1 - c["alpha"]) * abs(probe[i, j]) ** 2 + c["alpha"] * pmax)
                    if not c["fix_probe"]:
                        exp_p[i, j] += c["probe_step"] * np.conj(roi[i, j]) * d / ((1 - c["beta"]) * abs(roi[i, j]) ** 2 + c["beta"] * omax)
            if not (np.abs(o2 - exp_o).max() <= 1e-9 * max(1.0, np.abs(exp_o).max())):
                ctx.violation("update-object-not-rpie-formula", c, {"max_abs_diff": float(np.abs(o2 - exp_o).max())})
            if not (np.abs(p2 - exp_p).max() <= 1e-9 * max(1.0, np.abs(exp_p).max())):
                ctx.violation("update-probe-not-rpie-formula", c, {"max_abs_diff": float(np.abs(p2 - exp_p).max())})
        elif kind in ("explicit", "raster"):
            got = impl_positions(c)
            if got[0] != "ok":
                ctx.violation(f"{kind}-positions-raise", c, {"raised": got[1]}); return
            out = np.array(got[1]).reshape(-1, 2)
            if kind == "explicit":
                src = np.array(c["positions"], dtype=float).reshape(-1, 2)
                if len(out) != len(src):
                    ctx.violation("explicit-positions-count", c, {"given": len(src), "returned": len(out)}); return
            else:
                gx, gy = c["grid"]
                src = np.array([[i * c["steps"][0], j * c["steps"][1]] for i in range(gx) for j in range(gy)], dtype=float).reshape(-1, 2)
                if len(out) != gx * gy:
                    ctx.violation("raster-positions-count", c, {"expected": gx * gy, "returned": len(out)}); return
            # same order: displacement from the first position is the scaled (and rotated) input displacement
            d = (src - src[0]) / np.array(c["sampling"])
            if c["angle"] is not None:
                co, si = math.cos(c["angle"]), math.sin(c["angle"])
                d = np.stack([d[:, 0] * co + d[:, 1] * si, -d[:, 0] * si + d[:, 1] * co], axis=1)
            if not (np.abs((out - out[0]) - d).max() <= 1e-9 * max(1.0, np.abs(d).max())):
                ctx.violation(f"{kind}-positions-order", c, {"expected_displacements": d.tolist(), "observed": (out - out[0]).tolist()})
            pad = np.array(c["pad"] if c["pad"] is not None else [c["roi"][0] / 2, c["roi"][1] / 2], dtype=float)
            if not (np.abs(out.min(axis=0) - pad).max() <= 1e-9 * max(1.0, np.abs(pad).max())):
                ctx.violation(f"{kind}-positions-padding", c, {"min": out.min(axis=0).tolist(), "padding": pad.tolist()})

    def gen(self, ctx: Ctx):
        rng = ctx.rng
        out = []
        for _ in range(ctx.n(60, 1200)):
            out.append(dict(kind="projection", seed=rng.randint(0, 2**31), shape=[rng.randint(1, 9), rng.randint(1, 9)],
                            scale=rng.choice([1.0, 1e-3, 50.0]), zero_fraction=rng.choice([0.0, 0.2, 1.0]), kill=rng.random() < 0.3,
                            sse0=rng.choice([0.0, 0.25])))
        # reconstruct() end to end at the true solution: even / odd region of interest (whole / half-pixel padding), whole-pixel and
        # fractional scan steps, an empty pattern visited first / last
        recon = [dict(roi=8, step=0.6, dead=None), dict(roi=9, step=0.6, dead=None), dict(roi=9, step=0.5, dead=None),
                 dict(roi=8, step=0.5, dead="last"), dict(roi=8, step=0.37, dead="first"), dict(roi=9, step=0.37, dead="last")]
        for r in recon if ctx.thorough else rng.sample(recon[1:], 3) + recon[:1]:
            out.append(dict(kind="reconstruct", seed=rng.randint(0, 2**31), rseed=rng.randint(0, 50), iterations=2, **r))
        for _ in range(ctx.n(40, 800)):
            sx, sy = rng.randint(4, 12), rng.randint(4, 12)
            out.append(dict(kind="overlap-path", seed=rng.randint(0, 2**31), object_shape=[sx, sy], probe_shape=[rng.randint(2, sx), rng.randint(2, sy)],
                            path=[[rng.randint(-8, 40) / 4, rng.randint(-8, 40) / 4] for _ in range(rng.randint(2, 5))]))
        for _ in range(ctx.n(20, 400)):
            out.append(dict(kind="mixed-projection", seed=rng.randint(0, 2**31), modes=rng.randint(1, 4), shape=[rng.randint(1, 8), rng.randint(1, 8)],
                            scale=rng.choice([1.0, 1e-3, 50.0]), kill=rng.random() < 0.2))
        for k in range(ctx.n(120, 2400)):
            sx, sy = rng.randint(3, 12), rng.randint(3, 12)
            nx, ny = rng.randint(1, sx), rng.randint(1, sy)
            pos = [dyadic(rng, -4, 16, 2), dyadic(rng, -4, 16, 2)]
            c = dict(kind="true-solution" if k % 2 else "update", seed=rng.randint(0, 2**31), object_shape=[sx, sy], probe_shape=[nx, ny],
                     position=pos, old_position=rng.choice([pos, [pos[0] + 0.25, pos[1] - 0.5]]),
                     alpha=rng.choice([1.0, 0.5, 0.125, 0.0]), beta=rng.choice([1.0, 0.25, 0.0]), object_step=rng.choice([1.0, 0.5]),
                     probe_step=rng.choice([1.0, 0.75]), fix_probe=rng.random() < 0.3)
            out.append(c)
        for _ in range(ctx.n(150, 3000)):
            c = gen_positions(ctx)
            if c["kind"] == "explicit" and not c["positions"]:
                continue
            if c["kind"] == "raster" and (c["grid"] is None or c["steps"] is None or 0 in c["grid"]):
                continue
            out.append(c)
        return out

    def conformance(self, ctx: Ctx):
        for c in self.gen(ctx):
            self.oracle(ctx, c)
            ctx.case(c, nontrivial=True)

    def replay(self, ctx: Ctx, case):
        self.oracle(ctx, case)


if __name__ == "__main__":
    sys.exit(run_property(C28()))
