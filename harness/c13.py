"""C13 — PolarMeasurements.integrate selects exactly the bins inside aligned limits."""
import sys

import numpy as np

from common import (Ctx, LeanDriver, Property, dyadic, err_kind, list_s, rat_s, run_property)


def build(case):
    from abtem.core.axes import ScanAxis
    from abtem.measurements import PolarMeasurements

    nr, na = case["nr"], case["na"]
    arr = np.array(case["bins"], dtype=np.float64).reshape(case["members"], nr, na)
    return PolarMeasurements(
        arr, radial_sampling=case["rs"], azimuthal_sampling=case["as"], radial_offset=case["ro"],
        azimuthal_offset=case["ao"], ensemble_axes_metadata=[ScanAxis(sampling=0.1)],
    )


def impl(case):
    m = build(case)
    try:
        r = m.integrate(radial_limits=tuple(case["rl"]) if case["rl"] is not None else None,
                        azimuthal_limits=tuple(case["al"]) if case["al"] is not None else None)
        return ["ok"] + [int(round(float(v))) for v in np.asarray(r.array).reshape(-1)]
    except Exception as e:  # noqa
        return ["err", err_kind(e)]


def gen_case(ctx: Ctx, kind: str):
    rng = ctx.rng
    nr, na = rng.randint(1, 7), rng.randint(1, 9)
    members = rng.randint(1, 3)
    case = dict(nr=nr, na=na, members=members,
                bins=[rng.randint(-9, 40) for _ in range(members * nr * na)],
                ro=dyadic(rng, 0, 8, 3), rs=dyadic(rng, 0.25, 4, 2) or 0.25,
                ao=dyadic(rng, -2, 2, 3), **{"as": dyadic(rng, 0.125, 2, 3) or 0.125})
    if kind == "nondyadic":
        # samplings/offsets that are NOT exactly representable: (limit-offset)/sampling is then only near an integer
        case["rs"] = rng.choice([0.7, 0.1, 0.3, 1 / 3, 0.35, 2.2, 1e-3])
        case["as"] = rng.choice([2 * np.pi / 7, 0.1, np.pi / 8, 2 * np.pi / 12, 0.3])
        case["ro"] = rng.choice([0.0, 0.2, 5.1, 1 / 3])
        case["ao"] = rng.choice([0.0, 0.1, -np.pi / 5])
    if kind in ("aligned", "nondyadic"):
        i0 = rng.randint(0, nr); i1 = rng.randint(i0, nr)
        j0 = rng.randint(0, na); j1 = rng.randint(j0, na)
        which = rng.choice(["r", "a", "ra", "ra", "none"])
        case["rl"] = [case["ro"] + i0 * case["rs"], case["ro"] + i1 * case["rs"]] if "r" in which else None
        case["al"] = [case["ao"] + j0 * case["as"], case["ao"] + j1 * case["as"]] if "a" in which and which != "none" else None
        case["idx"] = [i0, i1, j0, j1]
    else:  # arbitrary (unaligned, reversed, negative, beyond the range)
        case["rl"] = rng.choice([None, sorted([dyadic(rng, -4, 40, 4), dyadic(rng, -4, 40, 4)]),
                                 [dyadic(rng, -4, 40, 4), dyadic(rng, -4, 40, 4)]])
        case["al"] = rng.choice([None, [dyadic(rng, -6, 12, 4), dyadic(rng, -6, 12, 4)]])
        case["idx"] = None
    case["kind"] = kind
    return case


def to_line(case, member):
    nr, na = case["nr"], case["na"]
    bins = case["bins"][member * nr * na:(member + 1) * nr * na]
    pair = lambda p: "none" if p is None else f"{rat_s(p[0])},{rat_s(p[1])}"
    return " ".join(["integrate", rat_s(case["ro"]), rat_s(case["rs"]), rat_s(case["ao"]), rat_s(case["as"]),
                     str(nr), str(na), list_s(bins), pair(case["rl"]), pair(case["al"])])


class C13(Property):
    id = "C13"
    props_file = "AbtemVerif/Props/C13.lean"
    drive_file = "AbtemVerif/Drive/C13.lean"
    trusted = [
        "NUMPY-INDEXING: `array[..., slice, slice].sum(axis=(-2,-1))` follows Python slice semantics as modelled by `Polar.pySlice`",
        "IEEE: float64 evaluation of `(limit - offset) / sampling` is within 1e-9 relative of the exact quotient of the float inputs "
        "(the code snaps limits within that distance of a bin edge to the edge; the model applies the same rule to the exact rational "
        "reading of the floats; dyadic and non-dyadic samplings are both generated)",
        "hand model `Polar.select/integrate` of the control flow around the generated index expressions (tied by correspondence)",
    ]
    assumptions = ["bin tables are compared through integer-valued float64 arrays (exact sums)"]
    rule = ("random polar measurements (1-3 scan members, nr<=7, na<=9, dyadic offsets/samplings); kinds: aligned limit pairs "
            "(radial, azimuthal, both, none) with dyadic and with non-representable samplings/offsets (0.7, 0.1, 1/3, 2pi/7 ...), and arbitrary/unaligned/reversed/out-of-range limits; distinct = distinct case JSON; "
            "non-trivial = at least one limit given")

    def correspondence(self, ctx: Ctx):
        drv = LeanDriver(self.drive_file)
        cases = [gen_case(ctx, "aligned") for _ in range(ctx.n(150, 3000))] + \
                [gen_case(ctx, "nondyadic") for _ in range(ctx.n(150, 3000))] + \
                [gen_case(ctx, "arbitrary") for _ in range(ctx.n(150, 3000))]
        lines, owners = [], []
        for c in cases:
            for m in range(c["members"]):
                lines.append(to_line(c, m)); owners.append(c)
        outs = drv.query(lines)
        k = 0
        for c in cases:
            got = impl(c)
            model = None
            vals = []
            for m in range(c["members"]):
                t = outs[k].split(); k += 1
                if t[0] == "err":
                    model = ["err", t[1]]
                else:
                    vals.append(int(t[5]))
                    if c["idx"] is not None and c["kind"] in ("aligned", "nondyadic"):
                        i0, i1, j0, j1 = c["idx"]
                        exp = [i0 if c["rl"] else 0, i1 if c["rl"] else c["nr"], j0 if c["al"] else 0, j1 if c["al"] else c["na"]]
                        ctx.agree("select(aligned) = stated index ranges", c, [int(x) for x in t[1:5]], exp)
            if model is None:
                model = ["ok"] + vals
            ctx.agree("PolarMeasurements.integrate", c, model, got)
            ctx.count(f"{c['kind']}:{'err' if got[0] == 'err' else 'ok'}:rl={c['rl'] is not None}:al={c['al'] is not None}")
            ctx.case(c, nontrivial=c["rl"] is not None or c["al"] is not None)
        ctx.traces += len(cases)

    def oracle(self, ctx: Ctx, c):
        """the property's conclusion on the implementation, independent of the model"""
        arr = np.array(c["bins"], dtype=np.float64).reshape(c["members"], c["nr"], c["na"])
        got = impl(c)
        i0, i1, j0, j1 = c["idx"]
        rs = slice(i0, i1) if c["rl"] else slice(None)
        as_ = slice(j0, j1) if c["al"] else slice(None)
        exp = ["ok"] + [int(v) for v in arr[:, rs, as_].sum(axis=(-2, -1))]
        if got != exp:
            which = ("radial" if c["rl"] else "") + ("azimuthal" if c["al"] else "") or "nolimits"
            ctx.violation(f"aligned-{which}-limits-select-wrong-bins", c, {"expected": exp, "observed": got})
        # partition additivity along the azimuth: [j0,j1) + [j1,na) == [j0,na)
        if c["al"] and got[0] == "ok":
            c2 = dict(c); c2["al"] = [c["ao"] + j1 * c["as"], c["ao"] + c["na"] * c["as"]]
            c3 = dict(c); c3["al"] = [c["ao"] + j0 * c["as"], c["ao"] + c["na"] * c["as"]]
            g2, g3 = impl(c2), impl(c3)
            if g2[0] == "ok" and g3[0] == "ok" and [a + b for a, b in zip(got[1:], g2[1:])] != g3[1:]:
                ctx.violation("azimuthal-partition-not-additive", c, {"parts": [got, g2], "whole": g3})

    def oracle_extra(self, ctx: Ctx, c):
        """further clauses, all on aligned cases: radial partition additivity, robustness of aligned limits against one-ulp
        perturbations, and rejection (RuntimeError) of lattice limits outside the binned range (no silent empty/partial sums)"""
        i0, i1, j0, j1 = c["idx"]
        got = impl(c)
        if c["rl"] and got[0] == "ok":
            c2 = dict(c); c2["rl"] = [c["ro"] + i1 * c["rs"], c["ro"] + c["nr"] * c["rs"]]
            c3 = dict(c); c3["rl"] = [c["ro"] + i0 * c["rs"], c["ro"] + c["nr"] * c["rs"]]
            g2, g3 = impl(c2), impl(c3)
            if g2[0] != "ok" or g3[0] != "ok" or [a + b for a, b in zip(got[1:], g2[1:])] != g3[1:]:
                ctx.violation("radial-partition-not-additive", c, {"parts": [got, g2], "whole": g3})
        for which in ("rl", "al"):
            if c[which] and got[0] == "ok":
                for d in (-1, 1):
                    cp = dict(c)
                    cp[which] = [float(np.nextafter(v, v + d)) for v in c[which]]
                    gp = impl(cp)
                    if gp != got:
                        ctx.violation(f"aligned-{which}-limits-not-robust-to-one-ulp", c, {"exact": got, "perturbed": gp})
        # lattice limits reaching outside the binned range select the bins inside the limits (never a silently empty or
        # end-relative selection); an outer RADIAL limit beyond the last edge raises (existing behaviour, pinned by the code)
        arr = np.array(c["bins"], dtype=np.float64).reshape(c["members"], c["nr"], c["na"])
        k = 1 + (i0 % 3)
        below = dict(c); below["al"] = None; below["rl"] = [c["ro"] - k * c["rs"], c["ro"] + i1 * c["rs"]]
        exp = ["ok"] + [int(v) for v in arr[:, 0:i1, :].sum(axis=(-2, -1))]
        if impl(below) != exp:
            ctx.violation("radial-limit-below-first-edge-selects-wrong-bins", c, {"expected": exp, "observed": impl(below)})
        both_below = dict(c); both_below["al"] = None; both_below["rl"] = [c["ro"] - (k + 2) * c["rs"], c["ro"] - k * c["rs"]]
        exp0 = ["ok"] + [0] * c["members"]
        if impl(both_below) != exp0:
            ctx.violation("radial-limits-entirely-below-range-not-empty", c, {"expected": exp0, "observed": impl(both_below)})
        lower = dict(c); lower["rl"] = None; lower["al"] = [c["ao"] - k * c["as"], c["ao"] + j1 * c["as"]]
        exp = ["ok"] + [int(v) for v in arr[:, :, 0:j1].sum(axis=(-2, -1))]
        if impl(lower) != exp:
            ctx.violation("azimuthal-limit-below-first-edge-selects-wrong-bins", c, {"expected": exp, "observed": impl(lower)})
        above = dict(c); above["rl"] = None; above["al"] = [c["ao"] + j0 * c["as"], c["ao"] + (c["na"] + k) * c["as"]]
        exp = ["ok"] + [int(v) for v in arr[:, :, j0:].sum(axis=(-2, -1))]
        if impl(above) != exp:
            ctx.violation("azimuthal-limit-beyond-last-edge-selects-wrong-bins", c, {"expected": exp, "observed": impl(above)})
        beyond = dict(c); beyond["al"] = None; beyond["rl"] = [c["ro"] + i0 * c["rs"], c["ro"] + (c["nr"] + k) * c["rs"]]
        if impl(beyond)[0] != "err":
            ctx.violation("radial-limit-beyond-last-edge-accepted", c, {"observed": impl(beyond)})

    def conformance(self, ctx: Ctx):
        for k in range(ctx.n(400, 8000)):
            c = gen_case(ctx, "aligned" if k % 2 == 0 else "nondyadic")
            ctx.count("oracle:" + c["kind"])
            self.oracle(ctx, c)
            self.oracle_extra(ctx, c)
            ctx.case(c, nontrivial=c["rl"] is not None or c["al"] is not None)

    def replay(self, ctx: Ctx, case):
        if case.get("idx") is not None:
            self.oracle(ctx, case)
            self.oracle_extra(ctx, case)
        else:
            raise NotImplementedError


if __name__ == "__main__":
    sys.exit(run_property(C13()))
