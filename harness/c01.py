"""C01 — lazy and eager evaluation produce the same simulation results."""
import sys
import warnings

import numpy as np

from common import (Ctx, LeanDriver, Property, bool_s, dyadic, err_kind, list_s, listlist_s, run_property)
from msd_trace import Tracer, expected_ids, tagged_potential_array


# ----------------------------------------------------------------------------- traced runs
def trace_case(rng):
    n = rng.randint(1, 3)
    ncfg = rng.choice([1, 1, 2, 3])
    ens = True if ncfg > 1 else rng.random() < 0.5
    kind = rng.choice(["none", "int", "tuple", "tuple"])
    if kind == "none":
        spec = None
    elif kind == "int":
        spec = rng.randint(1, n + 1)
    else:
        spec = ([-1] if rng.random() < 0.5 else []) + sorted(rng.sample(range(n), rng.randint(1, n)))
    nb = rng.randint(1, 5)
    chunks, left = [], nb
    while left:
        k = rng.randint(1, left); chunks.append(k); left -= k
    nb2 = rng.choice([0, 0, 1, 2, 3])  # a second batch axis (grid scans): 0 = none
    chunks2, left = [], nb2
    while left:
        k = rng.randint(1, left); chunks2.append(k); left -= k
    return dict(nb2=nb2, chunks2=chunks2, recip=rng.random() < 0.4, algorithm=rng.choice(["fourier", "fourier", "realspace"]),
                n=n, ncfg=ncfg, ens=ens, spec=spec, nb=nb, chunks=chunks, pot=rng.choice(["array", "frozen"]) if ens else "array",
                seeds=rng.sample(range(1, 10 ** 6), ncfg))


def _members_s(hists):
    return "|".join(",".join(str(x) for x in h) for h in hists)


def run_traced(c, lazy):
    """the real pipeline (Waves.multislice -> MultisliceTransform -> apply_transform [-> dask blockwise]) with the tagging
    kernel and a batch of individually tagged waves; returns (potential, configs, reply text, dask chunks or None)"""
    import abtem
    import ase
    from abtem.core.axes import OrdinalAxis
    from abtem.detectors import WavesDetector

    spec = tuple(c["spec"]) if isinstance(c["spec"], list) else c["spec"]
    tr = Tracer()
    if c["pot"] == "array":
        configs = [[10 * k + j + 1 for j in range(c["n"])] for k in range(c["ncfg"])]
        pot = tagged_potential_array(configs, 4, [1.0] * c["n"], spec, c["ens"])
        kw = dict(sampling=0.5)
    else:
        atoms = ase.Atoms(numbers=[14] * c["n"], positions=[(0.5 + 0.75 * j, 1.0 + 0.5 * j, j + 0.5) for j in range(c["n"])],
                          cell=(4.0, 4.0, float(c["n"])))
        fp = abtem.FrozenPhonons(atoms, c["ncfg"], 0.1, seed=tuple(c["seeds"]), ensemble_mean=False)
        pot = abtem.Potential(fp, gpts=4, slice_thickness=1.0, exit_planes=spec)
        configs = []
        for k in range(c["ncfg"]):
            one = abtem.FrozenPhonons(atoms, 1, 0.1, seed=(c["seeds"][k],))
            single = abtem.Potential(one.randomize(one.atoms), gpts=4, slice_thickness=1.0)
            configs.append(tr.register_slices(list(single.generate_slices()), 10 * k + 1))
        kw = dict(extent=4.0)
    nb2 = c.get("nb2", 0)
    bshape = (c["nb"], nb2) if nb2 else (c["nb"],)
    nmem = int(np.prod(bshape))
    arr = np.ones(bshape + (4, 4), dtype=np.complex64)
    ids = [1000 + m for m in range(nmem)]
    flat = arr.reshape((nmem, 4, 4))
    for m, i in enumerate(ids):
        flat[m] = tr.code_of((i,))
    w = abtem.waves.Waves(arr, energy=100e3, ensemble_axes_metadata=[OrdinalAxis(values=tuple(range(b))) for b in bshape],
                          reciprocal_space=bool(c.get("recip")), **kw)
    akw = {}
    if c.get("algorithm") == "realspace":
        from abtem.multislice import RealSpaceMultislice
        akw["algorithm"] = RealSpaceMultislice()
    chunks = None
    try:
        with tr.patched(), warnings.catch_warnings():
            warnings.simplefilter("ignore")
            if lazy:
                w = w.ensure_lazy(chunks=((tuple(c["chunks"]),) + ((tuple(c["chunks2"]),) if nb2 else ()) + (-1, -1)))
                r = w.multislice(pot, detectors=WavesDetector(), **akw)
                chunks = [list(x) for x in r.array.chunks]
                out = r.compute(progress_bar=False).array
            else:
                out = w.multislice(pot, detectors=WavesDetector(), **akw).array
        ens_shape, hs = tr.decode(out)
        nlead = len(ens_shape) - len(bshape)
        lead = int(np.prod(ens_shape[:nlead])) if nlead else 1
        rows = [hs[i * nmem:(i + 1) * nmem] for i in range(lead)]
        if nb2:
            text = ";".join("/".join(_members_s(r[k * nb2:(k + 1) * nb2]) for k in range(c["nb"])) for r in rows)
        else:
            text = ";".join(_members_s(r) for r in rows)
        return pot, configs, ids, "ok " + text, chunks
    except Exception as e:  # noqa
        return pot, configs, ids, "err " + err_kind(e), chunks


# ----------------------------------------------------------------------------- numeric pipelines
def gen_pipeline(ctx: Ctx, focus=False, force_algorithm=False, failing=False, partial_blocks=False, detect=False):
    """random pipeline; `focus`: the region where most bookkeeping meets — ensemble potential x several exit planes x a
    detector that drops base axes x a scan"""
    rng = ctx.rng
    n = rng.randint(2 if focus else 1, 3)
    atoms = [[rng.choice([6, 14, 29]), dyadic(rng, 0.25, 3.5, 3), dyadic(rng, 0.25, 3.5, 3), j + 0.5] for j in range(n)]
    pot = rng.choice(["atoms", "frozen", "frozen_mean", "atoms_ensemble", "crystal", "array"])
    kind = rng.choice(["none", "none", "int", "tuple"])
    spec = None if kind == "none" else rng.randint(1, n + 1) if kind == "int" else \
        ([-1] if rng.random() < 0.5 else []) + sorted(rng.sample(range(n), rng.randint(1, n)))
    builder = rng.choice(["probe", "probe", "plane"])
    builder_was_plane = builder == "plane"
    if builder == "plane":
        scan = "none"
        dets = rng.choice([["waves"], ["pixelated"], ["waves", "pixelated"]])
    else:
        scan = rng.choice(["none", "custom", "line", "grid"])
        dets = rng.choice([["waves"], ["annular"], ["flexible"], ["segmented"], ["pixelated"], ["annular", "pixelated"],
                           ["annular", "flexible", "waves"]])
    if focus:
        pot = rng.choice(["frozen", "frozen_mean", "atoms_ensemble"])
        spec = rng.choice([1, [-1, n - 1], list(range(n))])
        builder = "probe"
        scan = rng.choice(["none", "custom", "line", "grid"])
        dets = rng.choice([["annular"], ["flexible"], ["segmented"], ["annular", "pixelated"], ["annular", "flexible", "waves"]])
    post = rng.choice(["none", "ctf", "ctf+intensity"]) if dets == ["waves"] else "none"
    r = rng.random()
    kind = "multislice" if focus else ("detect" if detect else "build" if r < 0.12 else "detect" if r < 0.2 else "multislice")
    if kind == "build":
        dets, post = ["waves"], rng.choice(["none", "ctf", "ctf+intensity", "ctf-ensemble"])
    elif kind == "detect":  # detection as a step of its own: detector.detect(waves) on lazy vs eager built waves
        builder, post = "probe", "none"
        scan = rng.choice(["none", "custom", "line", "grid"])
        dets = [rng.choice(["waves", "segmented"] if detect else ["waves", "annular", "flexible", "segmented", "pixelated"])]
    entry = "builder" if kind in ("build", "detect") else rng.choice(["builder", "builder", "real", "reciprocal"])
    # the real-space kernel costs ~30 s CPU per run (JIT compilation per operator): thorough tier, ~5 % of the pipelines
    slow = ["realspace"] if (ctx.thorough and rng.random() < 0.15) else []
    algorithm = rng.choice(["default", "default", "fourier-conjugate", "fourier-transpose", "fourier-order2"] + slow)
    if partial_blocks:  # scan shapes that are not a multiple of the chunk chosen from max_batch (a smaller trailing block)
        builder, entry, kind = "probe", "builder", "multislice"
        scan = rng.choice(["grid", "grid", "line"])
        if dets == ["waves"] or builder_was_plane:
            dets = rng.choice([["annular"], ["pixelated"], ["annular", "flexible", "waves"]])
    fail = "none"
    if failing:  # pipelines that must fail — in both modes, with the same exception class
        fail = rng.choice(["detector-angle", "grid-mismatch", "exit-plane-range"])
        kind, post, focus = "multislice", "none", False
        if fail == "detector-angle":
            builder, dets, scan = "probe", ["annular-too-wide"], rng.choice(["none", "custom"])
        elif fail == "grid-mismatch":   # a built PotentialArray has a fixed grid (a Potential builder would adapt to the waves)
            entry, pot = rng.choice(["real", "reciprocal"]), "array"
        else:
            spec = [0, 99]  # beyond the last slice of every potential kind
    ens_probe = builder == "probe" and fail == "none" and rng.random() < 0.25  # distribution-valued defocus: a parameter axis
    if force_algorithm:  # a non-default algorithm keyword must reach every lazy block
        algorithm = rng.choice(["fourier-conjugate", "fourier-transpose"] + slow)
        kind = "multislice"
    if partial_blocks:
        post = "none"
    return dict(ae_mean=rng.random() < 0.5, fail=fail, ens_probe=ens_probe, algorithm=algorithm, entry=entry, kind=kind, post=post, nslices=n, atoms=atoms, pot=pot, spec=spec, builder=builder, scan=scan, dets=dets, gpts=rng.choice([8, 12]),
                ncfg=rng.randint(1, 3), seed=rng.randint(1, 10 ** 6), max_batch=(2 if partial_blocks else rng.choice(["auto", 1, 2, 3])),
                scheduler=rng.choice(["synchronous", "synchronous", "threads"]),
                points=[[dyadic(rng, 0, 3.5, 2), dyadic(rng, 0, 3.5, 2)] for _ in range(rng.randint(1, 3))])


def _build_pipeline(c):
    import abtem
    import ase

    atoms = ase.Atoms(numbers=[a[0] for a in c["atoms"]], positions=[a[1:] for a in c["atoms"]],
                      cell=(4.0, 4.0, float(c["nslices"])))
    spec = tuple(c["spec"]) if isinstance(c["spec"], list) else c["spec"]
    kw = dict(gpts=c["gpts"], slice_thickness=1.0, exit_planes=spec)
    if c["pot"] == "atoms":
        pot = abtem.Potential(atoms, **kw)
    elif c["pot"] in ("frozen", "frozen_mean"):
        fp = abtem.FrozenPhonons(atoms, c["ncfg"], 0.1, seed=c["seed"], ensemble_mean=c["pot"] == "frozen_mean")
        pot = abtem.Potential(fp, **kw)
    elif c["pot"] == "atoms_ensemble":
        fp = abtem.FrozenPhonons(atoms, c["ncfg"], 0.1, seed=c["seed"])
        pot = abtem.Potential(abtem.AtomsEnsemble(list(fp), ensemble_mean=bool(c.get("ae_mean", False))), **kw)
    elif c["pot"] == "crystal":
        unit = abtem.Potential(atoms, gpts=c["gpts"], slice_thickness=1.0)
        pot = abtem.CrystalPotential(unit, repetitions=(1, 1, 2), exit_planes=spec)
    else:
        pot = abtem.Potential(atoms, **kw).build(lazy=False)
    dets = []
    for d in c["dets"]:
        dets.append({"waves": abtem.detectors.WavesDetector(), "pixelated": abtem.PixelatedDetector(max_angle=None),
                     "annular": abtem.AnnularDetector(inner=5, outer=30), "annular-too-wide": abtem.AnnularDetector(inner=5, outer=400),
                     "flexible": abtem.FlexibleAnnularDetector(step_size=10),
                     "segmented": abtem.SegmentedDetector(inner=5, outer=30, nbins_radial=2, nbins_azimuthal=2)}[d])
    scan = {"none": None, "custom": abtem.CustomScan(np.array(c["points"])), "line": abtem.LineScan(start=(0, 0), end=(2, 2), gpts=3),
            "grid": abtem.GridScan(start=(0, 0), end=(2, 2), gpts=3)}[c["scan"]]
    bkw = dict(energy=100e3, extent=4.0, gpts=c["gpts"])
    if c.get("fail") == "grid-mismatch":
        bkw["gpts"] = c["gpts"] + 2  # the waves do not match the grid of the potential
    pkw = dict(defocus=abtem.distributions.uniform(0.0, 40.0, 3)) if c.get("ens_probe") else {}
    builder = abtem.PlaneWave(**bkw) if c["builder"] == "plane" else abtem.Probe(semiangle_cutoff=30, **bkw, **pkw)
    return builder, pot, dets, scan


def _algorithm_kw(c):
    """the `algorithm=` keyword of the multislice call (a non-default value must reach every lazy block)"""
    from abtem.multislice import FourierMultislice, RealSpaceMultislice

    a = c.get("algorithm", "default")
    return {} if a == "default" else dict(algorithm={
        "fourier-conjugate": FourierMultislice(conjugate=True), "fourier-transpose": FourierMultislice(transpose=True),
        "fourier-order2": FourierMultislice(order=2), "realspace": RealSpaceMultislice(order=1, max_terms=30)}[a])


def _run_pipeline(c, lazy):
    import abtem
    import dask

    builder, pot, dets, scan = _build_pipeline(c)
    akw = _algorithm_kw(c)
    with warnings.catch_warnings():
        warnings.simplefilter("ignore")
        if c.get("kind", "multislice") in ("build", "detect"):  # wave building only (Probe/PlaneWave.build), lazy vs eager
            r = builder.build(lazy=lazy, max_batch=c["max_batch"]) if c["builder"] == "plane" else \
                builder.build(scan=scan, lazy=lazy, max_batch=c["max_batch"])
            if c["kind"] == "detect":
                r = dets[0].detect(r)
        elif c.get("entry", "builder") != "builder":
            # the incident waves are handed to Waves.multislice as an object, in real or reciprocal space
            w = builder.build(lazy=False) if c["builder"] == "plane" else builder.build(scan=scan, lazy=False)
            if c["entry"] == "reciprocal":
                w = w.ensure_reciprocal_space()
            if lazy:
                # chunk every ensemble axis by max_batch (several blocks along the batch), base axes whole
                mb = c["max_batch"]
                w = w.ensure_lazy() if mb == "auto" else w.ensure_lazy(chunks=(mb,) * len(w.ensemble_shape) + (-1, -1))
            r = w.multislice(pot, detectors=dets, **akw)
        elif c["builder"] == "plane":
            r = builder.multislice(pot, detectors=dets, lazy=lazy, max_batch=c["max_batch"], **akw)
        else:
            r = builder.multislice(pot, scan=scan, detectors=dets, lazy=lazy, max_batch=c["max_batch"], **akw)
        post = c.get("post", "none")
        if post != "none":  # CTF application (and intensity) on the exit / built waves
            defocus = abtem.distributions.uniform(20.0, 60.0, 3) if post == "ctf-ensemble" else 40.0  # a transform ensemble axis
            r = r.apply_ctf(abtem.CTF(defocus=defocus, Cs=-2e4, semiangle_cutoff=25), max_batch=c["max_batch"])
            if post == "ctf+intensity":
                r = r.intensity()
        if lazy:
            with dask.config.set(scheduler=c["scheduler"]):
                r = r.compute(progress_bar=False)
    return list(r) if isinstance(r, (list, tuple)) else [r]


def _describe(ms):
    out = []
    for m in ms:
        axes = [(type(a).__name__, {k: (v.tolist() if hasattr(v, "tolist") else v) for k, v in sorted(vars(a).items())})
                for a in m.axes_metadata]
        out.append(dict(type=type(m).__name__, shape=list(m.shape), axes=axes))
    return out


def _close(a, b):
    """every entry must agree: |a-b| <= 1e-4 |b| + 1e-7 max|b| (float32; a global-maximum tolerance would let weak channels,
    dark pixels and high-angle bins be wrong unnoticed)"""
    a = np.asarray(a)
    b = np.asarray(b)
    if a.shape != b.shape:
        return False, f"shape {a.shape} vs {b.shape}"
    gmax = max(float(np.abs(b).max()) if b.size else 0.0, 1e-30)
    err = np.abs(a - b) - (1e-4 * np.abs(b) + 1e-7 * gmax)
    bad = int((~(err <= 0)).sum())  # NaN counts as a difference
    return bad == 0, f"{bad} of {a.size} entries differ, max|diff|={float(np.abs(a - b).max()) if a.size else 0:.3g} max={gmax:.3g}"


class C01(Property):
    id = "C01"
    props_file = "AbtemVerif/Props/C01.lean"
    drive_file = "AbtemVerif/Drive/C01.lean"
    # the supporting lemmas of Lib/Multislice.lean are used by (hence audited through) the property theorems; they are counted
    # and audited on their own in the thorough tier only (a second Mathlib import costs up to a minute on a loaded machine)
    extra_lean = ["AbtemVerif/Lib/Multislice.lean"] if "thorough" in sys.argv else []
    trusted = [
        "DASK: blockwise / map_blocks call the block function once per block with the blocks they were given and concatenate "
        "the results by block position; schedulers do not share mutable state between tasks (exercised with the synchronous and "
        "threaded schedulers, not proved)",
        "member-wise batch kernels: one multislice step and detection act on every wave of a batch independently (explicit "
        "hypothesis `stepB`/`detectB` of the theorems; observed numerically)",
        "tagging kernels of harness/msd_trace.py; hand models `Blockwise.lazyEntry/eagerEntry/applyLazy` and the loop model of "
        "Model/Multislice.lean (traced correspondence); Lib/Partition",
        "float reassociation: every entry of lazy and eager arrays must agree to 1e-4 relative + 1e-7 of the array maximum (float32; NaN fails)",
    ]
    assumptions = [
        "step, detect: arbitrary per-wave functions; batches are lists of member waves",
        "the transform ensemble is partitioned one configuration per block (MultisliceTransform._default_ensemble_chunks, "
        "tied by a generated definition and by comparison with the dask chunks of real lazy results)",
    ]
    rule = ("traced: tagged potentials (PotentialArray ensembles / FrozenPhonons), 1-3 configurations, 1-3 slices, batches of 1-5 "
            "individually tagged waves with random dask chunking, lazy and eager through Waves.multislice; numeric: random pipelines "
            "(Probe/PlaneWave x 6 potential kinds x exit planes x detector sets x scans x max_batch x scheduler), gpts 8-12; "
            "distinct = distinct case JSON")

    # ------------------------------------------------------------------ correspondence
    def correspondence(self, ctx: Ctx):
        rng = ctx.rng
        drv = LeanDriver(self.drive_file)
        lines, impls, names, cases = [], [], [], []

        def add(name, line, impl, case):
            lines.append(line); impls.append(impl); names.append(name); cases.append(case)

        for _ in range(ctx.n(50, 600)):
            c = trace_case(rng)
            for lazy in (False, True):
                pot, configs, ids, text, chunks = run_traced(c, lazy)
                configs = expected_ids(configs, c["algorithm"])
                planes = list_s(int(p) for p in pot.exit_planes)
                two = bool(c.get("nb2"))
                tail = (f"{c['nb']} {c['nb2']}" if two else list_s(ids)) + \
                    f" {bool_s(c['ens'])} {planes} {pot.num_slices} {listlist_s(configs)} {bool_s(c['recip'])}"
                if lazy:
                    add("Waves.multislice(lazy, traced)", (f"lazy2 {list_s(c['chunks'])} {list_s(c['chunks2'])} " if two else
                                                           f"lazy {list_s(c['chunks'])} ") + tail, text, c)
                    # block structure of the real lazy result: one configuration per block, exit planes unchunked,
                    # batch chunks as given
                    nens, npl = (1 if c["ens"] else 0), len(pot.exit_planes)
                    exp = ([[1] * c["ncfg"]] if c["ens"] else []) + ([[npl]] if npl > 1 else []) + [c["chunks"]] + \
                        ([c["chunks2"]] if two else [])
                    ctx.agree("dask chunks of the lazy result = (one configuration per block, planes whole, batch chunks)",
                              c, exp, chunks[: len(exp)] if chunks else chunks)
                    add("MultisliceTransform._default_ensemble_chunks", f"defchunks {nens} {npl}",
                        "ok " + list_s(self._default_chunks(pot)), c)
                else:
                    add("Waves.multislice(eager, traced)", ("eager2 " if two else "eager ") + tail, text, c)
                ctx.traces += 1
            ctx.count(f"trace:{c['pot']}:ncfg={c['ncfg']}:nb={c['nb']}x{c['nb2']}:blocks={len(c['chunks'])}x{len(c['chunks2'])}:recip={c['recip']}:{c['algorithm']}")
        for a in range(0, 3):
            for b in range(0, 5):
                for d in range(0, 4):
                    # packed block result vs. declared blockwise output: a = number of transform argument blocks,
                    # b = sum of their dimensions, d = dimensions of the array
                    add("_apply_transform packing ndims / multi_output_blockwise out_ndim", f"dims {a} {b} {d}", None, [a, b, d])
        outs = drv.query(lines)
        for name, line, impl, out, case in zip(names, lines, impls, outs, cases):
            if line.startswith("dims"):
                t = out.split()
                # the property of the bookkeeping itself is a theorem (Props/C01 pack_ndims_eq_out_ndims); here only well-formedness
                ctx.agree(name, case, t[0], "ok")
                continue
            ctx.agree(name, {"request": line, "case": case}, out, impl)
            ctx.case(case, nontrivial=True)
        bad = drv.query(["lazy 1 1 T 1 1", "eager x T 1 1 1 F", "dims 1 2", ""])
        ctx.agree("driver rejects malformed requests", bad, bad, ["bad-op"] * 4)

    @staticmethod
    def _default_chunks(pot):
        from abtem.multislice import MultisliceTransform

        return [int(x) for x in MultisliceTransform(pot)._default_ensemble_chunks]

    # ------------------------------------------------------------------ conformance
    def oracle(self, ctx: Ctx, c):
        tag = f"{c['pot']}:{c['builder']}:{'+'.join(c['dets'])}:scan={c['scan']}:planes={'yes' if c['spec'] is not None else 'no'}"
        res = {}
        for lazy in (False, True):
            try:
                res[lazy] = ("ok", _run_pipeline(c, lazy))
            except Exception as e:  # noqa
                res[lazy] = ("err", f"{type(e).__name__}: {e}"[:200])
        (se, ve), (sl, vl) = res[False], res[True]
        if se != sl:
            which = "lazy-raises-eager-ok" if sl == "err" else "eager-raises-lazy-ok"
            etype = (vl if sl == "err" else ve).split(":")[0]
            ctx.violation(f"{which}:{etype}:{'+'.join(c['dets'])}:{'ensemble' if c['pot'] in ('frozen', 'frozen_mean', 'atoms_ensemble') else c['pot']}"
                          f":planes={'yes' if c['spec'] is not None else 'no'}", c, {"eager": ve if se == "err" else "ok", "lazy": vl if sl == "err" else "ok", "case": tag})
            return
        if se == "err":
            # the property asks that both modes fail together, not for the same exception class (lazy errors surface inside
            # dask); classes are recorded in the histogram.  A *valid* pipeline failing in both modes is counted separately.
            ctx.count(f"both-raise:{c.get('fail', 'none')}:eager={ve.split(':')[0]}:lazy={vl.split(':')[0]}")
            if c.get("fail", "none") == "none":
                # a pipeline of the property's configuration space must run: failing in both modes is not "equal results"
                ctx.violation(f"valid-pipeline-raises-in-both-modes:{ve.split(':')[0]}:{'+'.join(c['dets'])}:scan={c['scan']}:"
                              f"ensprobe={c.get('ens_probe')}", c, {"eager": ve, "lazy": vl, "case": tag})
            return
        if c.get("fail", "none") != "none":
            ctx.violation(f"malformed-pipeline-accepted:{c['fail']}", c, {"case": tag})
            return
        de, dl = _describe(ve), _describe(vl)
        same_axes = all(list(a.axes_metadata) == list(b.axes_metadata) for a, b in zip(ve, vl))
        if [(d["type"], d["shape"]) for d in de] != [(d["type"], d["shape"]) for d in dl] or not same_axes or len(ve) != len(vl):
            ctx.violation("lazy-eager-type-shape-or-axes-metadata-differ", c, {"eager": de, "lazy": dl, "case": tag})
            return
        for i, (a, b) in enumerate(zip(ve, vl)):
            ok, why = _close(b.array, a.array)
            if not ok:
                ctx.violation(f"lazy-eager-values-differ:{c['dets'][i]}:{c['pot']}:algorithm={c.get('algorithm', 'default')}", c, {"output": i, "what": why, "case": tag})
                return
            if a.metadata != b.metadata:
                ctx.violation("lazy-eager-metadata-differ", c, {"eager": repr(a.metadata)[:300], "lazy": repr(b.metadata)[:300]})
                return

    def conformance(self, ctx: Ctx):
        for i in range(ctx.n(36, 500)):
            c = gen_pipeline(ctx, focus=(i % 4 == 3), force_algorithm=(i % 4 == 1), failing=(i % 6 == 2), partial_blocks=(i % 6 == 4), detect=(i % 12 == 0))
            self.oracle(ctx, c)
            ctx.count(f"numeric:{c['kind']}:{c['pot']}:{c['builder']}:scan={c['scan']}:batch={c['max_batch']}:{c['scheduler']}:post={c['post']}:entry={c['entry']}:{c['algorithm']}:fail={c['fail']}:ensprobe={c['ens_probe']}")
            ctx.case(c, nontrivial=True)

    def replay(self, ctx: Ctx, case):
        self.oracle(ctx, case)


if __name__ == "__main__":
    sys.exit(run_property(C01()))
