"""Tracing of the multislice orchestration (shared by C07, C02, C01) — DESIGN §2.3 "tracing instead of hooks".

Inside the harness process the numeric multislice step (`abtem.multislice.conventional_multislice_step`) is replaced by a
*tagging* kernel: a wave is an array whose entries all hold one integer code; the code indexes an intern table of
histories (tuples of slice identifiers applied so far).  The real loops (`multislice_and_detect`,
`MultisliceTransform`, `apply_transform`, dask blockwise) run unchanged; afterwards the measurement array is decoded back
into histories and compared symbol for symbol with the Lean model (`Model/Multislice.lean` instantiated with
`step w s = w ++ [s]`, `detect = id`).

code 0 = never written (the zeros of the allocation); code 1 = empty history (the incident wave as handed over).
The inverse FFT of `Waves.ensure_real_space` (abtem.waves.ifft2) is replaced by a tagging twin that appends the marker 0
to the history, so a wave handed over in reciprocal space must show `0` before its first slice.
Slice identifiers: for tagged `PotentialArray`s the (integer) value stored in the slice; for potentials built from atoms
a lookup of the slice's content hash in a table prepared from independent single-configuration potentials.
"""
from __future__ import annotations

import contextlib
import hashlib
import threading

import numpy as np


class Tracer:
    def __init__(self):
        self.lock = threading.Lock()
        self.hists = [None, ()]  # code -> history
        self.codes = {(): 1}
        self.hash_ids = {}  # content hash -> slice id (for potentials built from atoms)
        self.calls = 0

    # ---- histories
    def code_of(self, hist):
        with self.lock:
            c = self.codes.get(hist)
            if c is None:
                c = len(self.hists)
                self.hists.append(hist)
                self.codes[hist] = c
            return c

    def hist_of(self, code):
        return self.hists[int(code)]

    # ---- slice identifiers
    @staticmethod
    def content_hash(potential_slice):
        a = np.ascontiguousarray(np.asarray(potential_slice.array, dtype=np.float32))
        h = hashlib.sha256(a.tobytes())
        h.update(np.asarray(potential_slice.slice_thickness, dtype=np.float64).tobytes())
        return h.hexdigest()[:20]

    def register_slices(self, slices, first_id):
        """give consecutive ids to the slices of an independently built configuration; returns the ids"""
        ids = []
        for j, s in enumerate(slices):
            ids.append(self.hash_ids.setdefault(self.content_hash(s), first_id + j))
        return ids

    UNKNOWN = 999999  # a slice whose content matches no registered independent slice
    TO_REAL = 0       # history marker of the representation change (ensure_real_space); slice identifiers are positive

    def slice_id(self, potential_slice):
        if self.hash_ids:
            return self.hash_ids.get(self.content_hash(potential_slice), self.UNKNOWN)
        return int(round(float(np.asarray(potential_slice.array).real.flat[0])))

    # ---- the tagging kernel
    REALSPACE_OFFSET = 500  # the real-space step kernel records slice id + 500: which kernel ran is part of the history

    def step(self, waves, potential_slice, *args, _offset=0, **kwargs):
        sid = self.slice_id(potential_slice) + _offset
        arr = waves._array  # updated in place, like TransmissionFunction.transmit / FresnelPropagator.propagate
        lead = arr.reshape((-1,) + arr.shape[-2:])
        for m in range(lead.shape[0]):
            code = int(round(float(lead[m, 0, 0].real)))
            lead[m, :, :] = self.code_of(self.hist_of(code) + (sid,))
        with self.lock:
            self.calls += 1
        return waves

    def real_step(self, waves, potential_slice, *args, **kwargs):
        """tagging twin of realspace_multislice_step (expansion_scope="propagator": returns the waves)"""
        return self.step(waves, potential_slice, _offset=self.REALSPACE_OFFSET)

    def to_real(self, array, overwrite_x=False):
        """tagging twin of the inverse FFT used by Waves.ensure_real_space: a new array whose members carry the marker"""
        arr = np.array(array, copy=True)
        lead = arr.reshape((-1,) + arr.shape[-2:])
        for m in range(lead.shape[0]):
            code = int(round(float(lead[m, 0, 0].real)))
            lead[m, :, :] = self.code_of(self.hist_of(code) + (self.TO_REAL,))
        return arr

    @contextlib.contextmanager
    def patched(self):
        import abtem.multislice as ms
        import abtem.waves as wv

        old = (ms.conventional_multislice_step, ms.realspace_multislice_step, wv.ifft2)
        ms.conventional_multislice_step = self.step
        ms.realspace_multislice_step = self.real_step
        wv.ifft2 = self.to_real
        try:
            yield self
        finally:
            ms.conventional_multislice_step, ms.realspace_multislice_step, wv.ifft2 = old

    # ---- decoding
    def decode(self, array, base_dims=2):
        """measurement array (…ensemble…, gx, gy) of codes -> nested list of histories over the ensemble axes;
        raises if a wave is not uniformly tagged"""
        a = np.asarray(array)
        ens = a.shape[: a.ndim - base_dims]
        flat = a.reshape((-1,) + a.shape[a.ndim - base_dims:])
        out = []
        for m in range(flat.shape[0]):
            v = flat[m].reshape(-1)
            c = int(round(float(v[0].real)))
            if not np.all(v == v[0]):
                raise AssertionError("wave is not uniformly tagged")
            out.append(self.hist_of(c))
        return ens, out


def expected_ids(configs, algorithm):
    """slice identifiers the step kernel of `algorithm` records for the given configurations"""
    off = Tracer.REALSPACE_OFFSET if algorithm == "realspace" else 0
    return [[i + off for i in cfg] for cfg in configs]


def entry_s(hist):
    """same text as the Lean driver's showEntry"""
    if hist is None:
        return "z"
    return ",".join(str(x) for x in hist) if hist else "_"


def tagged_potential_array(ids, gpts, thickness, exit_planes, ensemble):
    """PotentialArray whose slice (c, j) holds the integer ids[c][j]; `ensemble` adds a FrozenPhononsAxis"""
    from abtem.core.axes import FrozenPhononsAxis
    from abtem.potentials.iam import PotentialArray

    ids = np.asarray(ids, dtype=np.float32)
    arr = np.broadcast_to(ids[..., None, None], ids.shape + (gpts, gpts)).copy()
    if ensemble:
        return PotentialArray(arr, slice_thickness=tuple(thickness), sampling=0.5, exit_planes=exit_planes,
                              ensemble_axes_metadata=[FrozenPhononsAxis(_ensemble_mean=False)])
    return PotentialArray(arr[0], slice_thickness=tuple(thickness), sampling=0.5, exit_planes=exit_planes)


def tagged_waves(gpts, batch=(), lazy=False, recip=False):
    """incident waves carrying the empty history (code 1), declared to be in real or reciprocal space"""
    from abtem.waves import Waves
    from abtem.core.axes import OrdinalAxis

    arr = np.ones(tuple(batch) + (gpts, gpts), dtype=np.complex64)
    meta = [OrdinalAxis(values=tuple(range(b))) for b in batch]
    w = Waves(arr, energy=100e3, sampling=0.5, ensemble_axes_metadata=meta, reciprocal_space=recip)
    if lazy:
        w = w.lazy() if hasattr(w, "lazy") else w
    return w
