"""C03 — parameter ensembles decompose into individual simulations: ensemble member i == the run with scalar value i,
ensemble axes list the distribution values in order, averaged axes are the mean of the (weighted) members."""
import itertools
import sys

import numpy as np

from common import Ctx, LeanDriver, Property, err_kind, list_s, listlist_s, run_property

SYMBOLS = ["C10", "C30", "C12", "phi12", "C21", "phi21"]  # in abtem.transfer.polar_symbols order (checked in correspondence)
SCALE = {"C10": 20.0, "C12": 10.0, "phi12": 0.3, "C21": 200.0, "phi21": 0.5, "C30": 2e4}


# ----------------------------------------------------------------------------- unit level: _unpack_distributions
def arg_s(a):
    return f"s{a}" if not isinstance(a, list) else f"d{list_s(a[0])};{list_s(a[1])}"


def args_s(args):
    return "|".join(arg_s(a) for a in args) if args else "-"


def gen_args(rng, min_len=1):
    args = []
    for _ in range(rng.randint(0, 4)):
        if rng.random() < 0.4:
            args.append(rng.randint(-5, 9))
        else:
            n = rng.randint(min_len, 3)
            args.append([[rng.randint(-9, 20) for _ in range(n)], [rng.randint(1, 4) for _ in range(n)]])
    return args


def py_args(args):
    from abtem.distributions import DistributionFromValues

    return [DistributionFromValues(np.array(a[0], dtype=float), weights=np.array(a[1], dtype=float)) if isinstance(a, list) else float(a)
            for a in args]


def impl_unpack(args, base_shape):
    from abtem.distributions import _unpack_distributions

    unpacked, weights = _unpack_distributions(*py_args(args), shape=base_shape)
    nd = sum(isinstance(a, list) for a in args)
    out = []
    for a, u in zip(args, unpacked):
        if not isinstance(a, list):
            out.append("s")
        else:
            shp = np.shape(u)
            ax = [i for i, s in enumerate(shp) if s != 1]
            out.append(f"a{ax[0]}:{list_s([i for i in range(len(shp)) if i != ax[0]])}" if len(ax) == 1 and len(shp) == nd + len(base_shape) else f"?{shp}")
    full = np.broadcast_shapes(*[np.shape(u) for u in unpacked], np.shape(weights), (1,) * (nd + len(base_shape)))
    ens = full[:nd]
    arrs = [np.broadcast_to(np.asarray(u, dtype=float), full) for u in unpacked]
    w = np.broadcast_to(np.asarray(weights, dtype=float), full)
    members = []
    for idx in np.ndindex(*ens):
        j = idx + (0,) * len(base_shape)
        members.append(f"{int(round(float(w[j])))}:{list_s([int(round(float(a[j]))) for a in arrs])}")
    return "|".join(out) if args else "-", ";".join(members), list(ens)


# ----------------------------------------------------------------------------- objects for the conformance oracle
def dist_of(spec):
    from abtem.distributions import DistributionFromValues

    if isinstance(spec, dict) and "gaussian" in spec:
        import abtem

        g = spec["gaussian"]
        return abtem.distributions.gaussian(g["sigma"], g["n"], center=g["center"], ensemble_mean=bool(spec.get("mean", True)))._distributions[0]
    if isinstance(spec, dict):
        return DistributionFromValues(np.array(spec["values"], dtype=float), weights=np.array(spec["weights"], dtype=float),
                                      ensemble_mean=bool(spec.get("mean", False)))
    return spec


def angular_grid(n=6):
    k = np.linspace(0.0, 0.03, n)
    alpha = np.sqrt(k[:, None] ** 2 + k[None, :] ** 2).astype(np.float32)
    phi = np.arctan2(k[None, :] + 1e-9, k[:, None] + 1e-9).astype(np.float32)
    return alpha, phi


def make_object(kind, params):
    """params: dict name -> scalar or distribution spec; returns the abtem object"""
    import abtem
    from abtem.transfer import Aberrations, Aperture, SpatialEnvelope, TemporalEnvelope

    p = {k: dist_of(v) for k, v in params.items()}
    if kind == "aberrations":
        return Aberrations(energy=100e3, **p)
    if kind == "ctf":
        return abtem.CTF(energy=100e3, **p)
    if kind == "aperture":
        return Aperture(energy=100e3, **p)
    if kind == "temporal":
        return TemporalEnvelope(energy=100e3, **p)
    if kind == "spatial":
        return SpatialEnvelope(energy=100e3, **p)
    raise ValueError(kind)


def gen_dist(rng, name, allow_mean=False):
    n = rng.randint(1, 3)
    sc = SCALE.get(name, 10.0)
    base = {"semiangle_cutoff": 15.0, "focal_spread": 20.0, "angular_spread": 1.0}.get(name, 0.0)
    return {"values": [round(base + sc * rng.choice([-1.0, -0.5, 0.25, 0.5, 1.0, 1.5, 2.0]), 6) for _ in range(n)],
            "weights": [rng.choice([1.0, 1.0, 0.5, 2.0]) for _ in range(n)], "mean": allow_mean and rng.random() < 0.4}


def gen_case(ctx: Ctx):
    rng = ctx.rng
    kind = rng.choice(["aberrations", "aberrations", "ctf", "aperture", "temporal", "spatial", "probe", "probe", "probe", "planewave-multislice",
                       "mean", "mean"])
    if kind == "mean":  # one averaged (ensemble_mean) distribution on a transfer function applied to a wave
        tk = rng.choice(["aberrations", "ctf", "temporal", "spatial", "aperture"])
        name = {"aberrations": rng.choice(["C10", "C30", "C12"]), "ctf": rng.choice(["C10", "C30"]), "temporal": "focal_spread",
                "spatial": "angular_spread", "aperture": "semiangle_cutoff"}[tk]
        how = rng.choice(["unit", "weights", "weights", "gaussian"])
        n = rng.randint(2, 4)
        if how == "gaussian":
            spec = {"gaussian": {"sigma": {"C10": 30.0, "C30": 1e4, "C12": 10.0, "focal_spread": 10.0, "angular_spread": 0.5, "semiangle_cutoff": 3.0}[name],
                                 "n": n, "center": {"focal_spread": 30.0, "angular_spread": 1.5, "semiangle_cutoff": 20.0}.get(name, 0.0)}, "mean": True}
        else:
            spec = gen_dist(rng, name)
            spec["values"] = [abs(v) + 1.0 for v in spec["values"]] if name in ("focal_spread", "angular_spread", "semiangle_cutoff") else spec["values"]
            spec["weights"] = [1.0] * len(spec["values"]) if how == "unit" else [rng.choice([0.5, 1.0, 2.0, 0.25]) for _ in spec["values"]]
            spec["mean"] = True
        return {"kind": "mean", "transform": tk, "name": name, "dist": spec, "lazy": rng.random() < 0.4}
    params = {}
    if kind in ("aberrations", "ctf", "spatial"):
        for s in rng.sample(SYMBOLS, rng.randint(1, 3)):
            params[s] = gen_dist(rng, s) if rng.random() < 0.7 else SCALE[s] * rng.choice([0.5, 1.0])
    if kind == "ctf":
        params["semiangle_cutoff"] = gen_dist(rng, "semiangle_cutoff") if rng.random() < 0.4 else 20.0
        if rng.random() < 0.4:
            params["focal_spread"] = gen_dist(rng, "focal_spread") if rng.random() < 0.6 else 20.0
    if kind == "aperture":
        params["semiangle_cutoff"] = gen_dist(rng, "semiangle_cutoff")
        params["soft"] = rng.random() < 0.5
    if kind == "temporal":
        params["focal_spread"] = gen_dist(rng, "focal_spread")
    if kind == "spatial":
        params["angular_spread"] = gen_dist(rng, "angular_spread") if rng.random() < 0.7 else 1.0
    case = {"kind": kind, "params": params}
    if kind not in ("probe", "planewave-multislice"):
        chunks = []
        for n in ordered_dist_params(kind, params):
            m, cs = len(params[n]["values"]), []
            while m > 0:
                k = rng.randint(1, m); cs.append(k); m -= k
            chunks.append(cs)
        case["chunks"] = chunks
    if kind == "probe":
        for s in rng.sample(["C10", "C30", "C12"], rng.randint(0, 2)):
            params[s] = gen_dist(rng, s, allow_mean=True)
        if rng.random() < 0.5:
            params["semiangle_cutoff"] = gen_dist(rng, "semiangle_cutoff")
        else:
            params["semiangle_cutoff"] = 20.0
        case["tilt"] = rng.choice([None, [gen_dist(rng, "tilt", allow_mean=True), 1.0], [0.5, gen_dist(rng, "tilt")], [gen_dist(rng, "tilt"), gen_dist(rng, "tilt", allow_mean=True)]])
        case["scan"] = rng.choice([None, "custom", "grid"])
        case["lazy"] = rng.random() < 0.5
    if kind == "planewave-multislice":
        sc = rng.choice([0.0, 1.5, -4.0, 12.0])  # the scalar component of a mixed (distribution, scalar) tilt, mostly non-zero
        case["tilt"] = rng.choice([[gen_dist(rng, "tilt", allow_mean=True), sc], [sc, gen_dist(rng, "tilt")], [gen_dist(rng, "tilt", allow_mean=True), gen_dist(rng, "tilt")]])
        case["lazy"] = rng.random() < 0.5
    return case


def dist_params(params):
    return [(k, v) for k, v in params.items() if isinstance(v, dict)]


def ordered_dist_params(kind, params):
    """distribution-valued parameters in the order of the ensemble axes"""
    names = [k for k, v in params.items() if isinstance(v, dict)]
    order = SYMBOLS + ["angular_spread", "focal_spread", "semiangle_cutoff"]  # aberrations, spatial, temporal envelope, aperture
    return sorted(names, key=order.index)


_POT = None


def potential():
    global _POT
    if _POT is None:
        import abtem
        from ase.build import bulk

        _POT = abtem.Potential(bulk("Si", cubic=True), gpts=16, slice_thickness=2.8, projection="infinite").build(lazy=False)
    return _POT


class C03(Property):
    id = "C03"
    props_file = "AbtemVerif/Props/C03.lean"
    drive_file = "AbtemVerif/Drive/C03.lean"
    trusted = [
        "NUMPY broadcasting: a pointwise formula evaluated on the arrays returned by _unpack_distributions computes, at ensemble index "
        "idx, the formula on the values at idx (model `evalEnsemble`/`argsAt`; tied by correspondence on the real broadcast arrays)",
        "hand model `Model/ParamEnsemble.lean` of _unpack_distributions, ensemble_shape, axes metadata, _partition_args/_partial_transform",
        "the numeric kernels (CTF phase, aperture, envelopes, Fresnel propagator with tilt) are uninterpreted in the theorems; "
        "member == scalar run on the real kernels is observed by the conformance oracle (rel. 1e-5, float32)",
    ]
    assumptions = ["averaged axes are compared with the weighted mean of the scalar runs with intensity weights w_i^2 (the default "
                   "'intensity' normalisation of abtem.distributions.gaussian); members of Aberrations/CTF ensembles carry the product of "
                   "their amplitude weights"]
    rule = ("unit: random argument lists mixing scalars and 1-3-value distributions through _unpack_distributions and the block transform; "
            "oracle: Aberrations, CTF, Aperture, TemporalEnvelope, SpatialEnvelope on an angular grid, Probe.build (aberration, aperture, "
            "tilt distributions, custom/grid scans, lazy and eager, ensemble_mean) and PlaneWave tilt ensembles through multislice; "
            "distinct = distinct case JSON")

    # ------------------------------------------------------------------------------------------- correspondence
    def correspondence(self, ctx: Ctx):
        drv = LeanDriver(self.drive_file)
        rng = ctx.rng
        jobs = []
        for _ in range(ctx.n(300, 5000)):
            args = gen_args(rng, min_len=2 if rng.random() < 0.5 else 1)
            base = (2, 3)[: rng.randint(0, 2)]
            unp, members, ens = impl_unpack(args, base)
            case = {"args": args, "base_dims": len(base)}
            if all(len(a[0]) >= 2 for a in args if isinstance(a, list)):
                jobs.append((f"unpack {args_s(args)} {len(base)}", "_unpack_distributions(axes)", case, "ok " + unp))
            jobs.append((f"eval {args_s(args)}", "_unpack_distributions(values, weights)", case, "ok " + members))
            jobs.append((f"shape {args_s(args)}", "broadcast ensemble shape", case, "ok " + list_s(ens)))
            # the real transform objects: shape and axes metadata of an Aberrations built from these arguments
            if 0 < len(args) <= len(SYMBOLS):
                from abtem.transfer import Aberrations

                from abtem.transfer import polar_symbols

                assert [x for x in polar_symbols if x in SYMBOLS] == SYMBOLS
                syms = sorted(rng.sample(SYMBOLS, len(args)), key=SYMBOLS.index)
                ab = Aberrations(energy=100e3, **dict(zip(syms, py_args(args))))
                jobs.append((f"shape {args_s(args)}", "Aberrations.ensemble_shape", case, "ok " + list_s(ab.ensemble_shape)))
                jobs.append((f"axes {args_s(args)}", "Aberrations.ensemble_axes_metadata", case,
                             "ok " + listlist_s([[int(v) for v in a.values] for a in ab.ensemble_axes_metadata])))
                dists = [a for a in args if isinstance(a, list)]
                if dists:
                    chunks = []
                    for d in dists:
                        n, cs = len(d[0]), []
                        while n > 0:
                            c = rng.randint(1, n); cs.append(c); n -= c
                        chunks.append(cs)
                    bi = [rng.randrange(len(cs)) for cs in chunks]
                    blocks = ab._partition_args(tuple(tuple(c) for c in chunks), lazy=False)
                    picked = [blocks[j][bi[j]] for j in range(len(dists))]
                    new = ab._from_partitioned_args()(*picked).item()
                    enc = []
                    for s, a in zip(syms, args):
                        v = getattr(new, s)
                        enc.append(f"d{list_s([int(x) for x in v.values])};{list_s([int(x) for x in v.weights])}" if hasattr(v, "values") else f"s{int(v)}")
                    jobs.append((f"block {args_s(args)} {listlist_s(chunks)} {list_s(bi)}", "EnsembleFromDistributions._partition_args/_partial_transform",
                                 case | {"chunks": chunks, "block": bi}, "ok " + "|".join(enc)))
            ctx.count(f"unit:ndist={sum(isinstance(a, list) for a in args)}")
            ctx.case(case, nontrivial=any(isinstance(a, list) for a in args))
        # averaged distributions: the squared amplitude weights returned by the real _unpack_distributions
        from abtem.distributions import DistributionFromValues, _unpack_distributions
        from common import rat_s

        for _ in range(ctx.n(20, 200)):
            n = rng.randint(1, 4)
            w = [rng.choice([0.25, 0.5, 1.0, 2.0, 3.0]) for _ in range(n)]
            dist = DistributionFromValues(np.arange(n, dtype=float), weights=np.array(w), ensemble_mean=True)
            _, wts = _unpack_distributions(dist, shape=(2,))
            real = [float(x) ** 2 for x in np.asarray(wts, dtype=float).reshape(-1)[:n]] if np.ndim(wts) else [float(wts) ** 2]
            jobs.append((f"normw2 {list_s([x * x for x in w], rat_s)}", "_unpack_distributions(weights of an averaged distribution)", {"weights": w}, real))
        # Probe: the order in which the builder lists its ensembles and the order in which _calculate_array applies them
        # (both read from the current source) must produce the axes order of a really built probe
        import ast
        import inspect

        import abtem
        from abtem.distributions import from_values

        src = ast.parse(inspect.getsource(abtem.waves))
        probe_cls = [n for n in src.body if isinstance(n, ast.ClassDef) and n.name == "Probe"][0]
        init = [n for n in probe_cls.body if isinstance(n, ast.FunctionDef) and n.name == "__init__"][0]
        calc = [n for n in probe_cls.body if isinstance(n, ast.FunctionDef) and n.name == "_calculate_array"][0]
        names = [e.value for n in ast.walk(init) if isinstance(n, ast.Assign) and ast.unparse(n.targets[0]) == "ensemble_names" for e in n.value.elts]
        applied = [n.value.func.value.attr for n in calc.body if isinstance(n, ast.Assign) and isinstance(n.value, ast.Call)
                   and isinstance(n.value.func, ast.Attribute) and n.value.func.attr == "apply" and isinstance(n.value.func.value, ast.Attribute)
                   and ast.unparse(n.value.func.value.value) == "waves_builder"]
        for _ in range(ctx.n(6, 40)):
            sizes = {"tilt": rng.choice([0, 2, 3]), "aberrations": rng.choice([0, 2, 3, 4]), "aperture": rng.choice([0, 2])}
            if len({v for v in sizes.values() if v}) != len([v for v in sizes.values() if v]):
                continue  # distinct sizes identify the axes of the built array
            kw = dict(energy=100e3, gpts=8, extent=4.0)
            if sizes["tilt"]:
                kw["tilt"] = (from_values([float(i) for i in range(sizes["tilt"])]), 1.0)
            if sizes["aberrations"]:
                kw["C10"] = from_values([10.0 * i for i in range(sizes["aberrations"])])
            kw["semiangle_cutoff"] = from_values([15.0 + 5 * i for i in range(sizes["aperture"])]) if sizes["aperture"] else 20.0
            enc = lambda order: "|".join(f"{n}:{sizes.get(n, 0)}" for n in order if n != "scan_positions") or "-"  # noqa
            case = {"sizes": sizes, "names": names, "applied": applied}
            try:
                w = abtem.Probe(**kw).build(lazy=False)
                impl = "ok " + list_s(list(w.shape[:-2])) + " " + list_s([a.label.split("_")[0] if a.label else "semiangle" for a in w.ensemble_axes_metadata])
            except Exception as e:  # noqa
                impl = "err " + err_kind(e)
            jobs.append((f"compose {enc(names)} {enc(applied)}", "Probe ensemble axes order (ensemble_names vs _calculate_array apply order)", case, impl))
        outs = drv.query([j[0] for j in jobs])
        for (line, name, case, impl), out in zip(jobs, outs):
            if isinstance(impl, list):  # float32 squared weights against the exact rationals of the model
                from fractions import Fraction

                model = [float(Fraction(t)) for t in out[3:].split(",")] if out.startswith("ok ") and out != "ok _" else None
                ok = model is not None and len(model) == len(impl) and all(abs(a - b) <= 1e-5 * max(1.0, abs(a)) for a, b in zip(model, impl))
                ctx.agree(name, case | {"line": line}, model, impl, ok=ok)
                continue
            ctx.agree(name, case | {"line": line}, out, impl)
        ctx.traces += len(jobs)

    # ------------------------------------------------------------------------------------------- conformance
    def oracle(self, ctx: Ctx, c):
        kind = c["kind"]
        if kind == "mean":
            return self.oracle_mean(ctx, c)
        if kind in ("probe", "planewave-multislice"):
            return self.oracle_waves(ctx, c)
        params = c["params"]
        alpha, phi = angular_grid()
        obj = make_object(kind, params)
        try:
            arr = np.asarray(obj._evaluate_from_angular_grid(alpha, phi))
        except Exception as e:  # noqa
            ctx.violation(f"{kind}:ensemble-evaluation-raises", c, {"error": f"{type(e).__name__}: {e}"[:200]}); return
        names = ordered_dist_params(kind, params)
        shape = tuple(len(params[n]["values"]) for n in names)
        if tuple(obj.ensemble_shape) != shape or arr.shape != shape + alpha.shape:
            ctx.violation(f"{kind}:ensemble-shape", c, {"ensemble_shape": list(obj.ensemble_shape), "array": list(arr.shape), "expected": list(shape)}); return
        axes = obj.ensemble_axes_metadata
        got_vals = [[float(v) for v in a.values] for a in axes]
        want_vals = [[float(v) * (-1.0 if n == "defocus" else 1.0) for v in params[n]["values"]] for n in names]
        if len(got_vals) != len(want_vals) or any(not np.allclose(g, w, rtol=1e-6) for g, w in zip(got_vals, want_vals)):
            ctx.violation(f"{kind}:axis-values-ne-distribution-values", c, {"axes": got_vals, "distributions": want_vals}); return
        weighted = kind in ("aberrations", "ctf")
        if shape and c.get("chunks") is not None:  # lazy evaluation: every block transform on its own, assembled by chunk ranges
            from abtem.core.chunks import iterate_chunk_ranges

            chunks = tuple(tuple(cs) for cs in c["chunks"])
            try:
                blocks = obj.ensemble_blocks(chunks).compute(scheduler="synchronous")
                asm = np.full(arr.shape, np.nan, dtype=arr.dtype)
                for bi, sl in iterate_chunk_ranges(chunks):
                    asm[sl] = np.asarray(blocks[bi]._evaluate_from_angular_grid(alpha, phi))
            except Exception as e:  # noqa
                ctx.violation(f"{kind}:lazy-blocks-raise", c, {"error": f"{type(e).__name__}: {e}"[:200]}); return
            if not np.allclose(asm, arr, rtol=1e-5, atol=1e-6, equal_nan=False):
                ctx.violation(f"{kind}:lazy-member-ne-eager-member", c, {"max_abs_diff": float(np.nanmax(np.abs(asm - arr)))}); return
        for idx in itertools.product(*[range(n) for n in shape]):
            sp = dict(params)
            w = 1.0
            for n, i in zip(names, idx):
                sp[n] = params[n]["values"][i]
                if weighted and n in SYMBOLS:
                    w *= params[n]["weights"][i]
            ref = np.asarray(make_object(kind, sp)._evaluate_from_angular_grid(alpha, phi)) * w
            if ref.shape != alpha.shape or not np.allclose(arr[idx], ref, rtol=1e-4, atol=1e-5):
                ctx.violation(f"{kind}:member-ne-scalar-run", c, {"index": list(idx), "max_abs_diff": float(np.max(np.abs(arr[idx] - ref))) if ref.shape == arr[idx].shape else "shape"})
                return

    def oracle_mean(self, ctx: Ctx, c):
        """averaged axis of a transfer-function ensemble applied to a wave, through the intensity measurement, against the
        weighted mean the distribution defines (intensity weights w_i^2): sum w_i^2 I_i / sum w_i^2"""
        import abtem

        tk, name = c["transform"], c["name"]
        d = dist_of(c["dist"])
        vals = [float(v) for v in np.asarray(d.values)]
        ws = np.asarray(d.weights, dtype=float)
        wave = abtem.Probe(energy=100e3, semiangle_cutoff=30, gpts=16, extent=5.0, C30=1e4).build(lazy=c["lazy"])
        fixed = {"ctf": {"semiangle_cutoff": 25.0}, "spatial": {"C10": 50.0}}.get(tk, {})
        mk = lambda v: make_object(tk, {**fixed, name: v})  # noqa
        try:
            ens = mk(d).apply(wave)
            got = np.asarray(ens.intensity().reduce_ensemble().compute().array)
            singles = [np.asarray(mk(v).apply(wave).intensity().compute().array) for v in vals]
        except Exception as e:  # noqa
            ctx.violation(f"mean:{tk}:raises", c, {"error": f"{type(e).__name__}: {e}"[:200]}); return
        ctx.count(f"mean:{tk}:{'unit' if np.allclose(ws, ws[0]) else 'weighted'}")
        n = len(vals)
        tol = dict(rtol=2e-4, atol=1e-7 * float(max(np.abs(x).max() for x in singles)))
        weighted = sum(w * w * i for w, i in zip(ws, singles)) / float(np.sum(ws ** 2))
        if got.shape == weighted.shape and np.allclose(got, weighted, **tol):
            return
        detail = {"n": n, "weights": [float(w) for w in ws], "total_got": float(got.sum()), "total_weighted_mean": float(weighted.sum())}
        code_w2 = sum(w * w * i for w, i in zip(ws, singles)) / n
        plain = sum(singles) / n
        if got.shape == weighted.shape and tk in ("aberrations", "ctf") and np.allclose(got, code_w2, **tol):
            ctx.violation("aberrations:ensemble-mean-is-sum-w2I-over-n", c, detail)  # fixed by 4ef047d8: must not come back
        elif got.shape == weighted.shape and tk in ("temporal", "spatial", "aperture") and np.allclose(got, plain, **tol):
            ctx.violation("envelope:ensemble-mean-ignores-distribution-weights", c, detail)
        else:
            ctx.violation(f"mean:{tk}:averaged-axis-unexplained", c, detail)

    def oracle_waves(self, ctx: Ctx, c):
        import abtem

        kind = c["kind"]
        kw = dict(energy=100e3, gpts=16, extent=5.43)
        tilt = c.get("tilt")
        if kind == "probe":
            params = c["params"]
            full = {k: dist_of(v) for k, v in params.items()}
            scan = {"custom": abtem.CustomScan([(0.5, 1.0), (2.0, 2.5), (4.0, 0.25)]),
                    "grid": abtem.GridScan(start=(0, 0), end=(2.0, 3.0), gpts=(2, 3)), None: None}[c["scan"]]

            def run(p, t, positions):
                b = abtem.Probe(tilt=t if t is not None else (0.0, 0.0), **p, **kw)
                return b.build(scan=positions, lazy=False)

            build = lambda: abtem.Probe(tilt=tuple(dist_of(t) for t in tilt) if tilt else (0.0, 0.0), **full, **kw).build(scan=scan, lazy=c["lazy"])  # noqa
            names = [("tilt", j) for j in range(2) if tilt and isinstance(tilt[j], dict)] + \
                    [(n, None) for n in sorted([k for k, v in params.items() if isinstance(v, dict) and k in SYMBOLS], key=SYMBOLS.index)] + \
                    [(n, None) for n in ("semiangle_cutoff",) if isinstance(params.get(n), dict)]
        else:
            params = {}

            def run(p, t, positions):
                return abtem.PlaneWave(tilt=t, **kw).multislice(potential(), lazy=False)

            build = lambda: abtem.PlaneWave(tilt=tuple(dist_of(t) for t in tilt), **kw).multislice(potential(), lazy=c["lazy"])  # noqa
            scan = None
            names = [("tilt", j) for j in range(2) if isinstance(tilt[j], dict)]
        try:
            w = build().compute()
        except Exception as e:  # noqa
            ctx.violation(f"{kind}:ensemble-build-raises", c, {"error": f"{type(e).__name__}: {e}"[:200]}); return
        if tilt:  # a scalar tilt component next to a distribution must survive as the base tilt of every member
            for j, xy in enumerate("xy"):
                if not isinstance(tilt[j], dict) and abs(float(w.metadata.get(f"base_tilt_{xy}", 0.0)) - float(tilt[j])) > 1e-9:
                    ctx.violation(f"{kind}:scalar-tilt-component-lost", c, {"component": xy, "given": tilt[j], "metadata": float(w.metadata.get(f"base_tilt_{xy}", 0.0))}); return
        specs = [tilt[j] if n == "tilt" else params[n] for n, j in names]
        kept = [(n, s) for n, s in zip(names, specs) if not s.get("mean")]
        shape = tuple(len(s["values"]) for _, s in kept)
        full_shape = tuple(len(s["values"]) for s in specs)
        nscan = 0 if scan is None else len(scan.shape)
        ens_shape = tuple(w.shape[: len(w.shape) - 2])
        if ens_shape[: len(ens_shape) - nscan] != full_shape:
            ctx.violation(f"{kind}:ensemble-shape", c, {"array": list(w.shape), "expected_parameter_axes": list(full_shape)}); return
        for ax, (n, s) in zip(w.ensemble_axes_metadata[: len(full_shape)], zip(names, specs)):
            vals = [float(v) for v in ax.values]
            if not np.allclose(vals, s["values"], rtol=1e-6):
                ctx.violation(f"{kind}:axis-values-ne-distribution-values", c, {"axis": type(ax).__name__, "values": vals, "distribution": s["values"]}); return
        mean_specs = [(n, s) for n, s in zip(names, specs) if s.get("mean")]
        if mean_specs:  # wave functions are never averaged; the intensity measurement is
            meas = w.intensity().reduce_ensemble()
        for idx in itertools.product(*[range(n) for n in shape]):
            acc_w, acc_p, wsum, count = 0.0, 0.0, 0.0, 0
            for midx in itertools.product(*[range(len(s["values"])) for _, s in mean_specs]):
                p = dict(params)
                t = list(tilt) if tilt else None
                wt = 1.0
                for ((n, j), s), i in list(zip(kept, idx)) + list(zip(mean_specs, midx)):
                    if n == "tilt":
                        t[j] = s["values"][i]
                    else:
                        p[n] = s["values"][i]
                for ((n, j), s), i in zip(mean_specs, midx):
                    wt *= float(s["weights"][i]) ** 2  # intensity weight of this combination of averaged values
                ref = np.asarray(run(p, tuple(t) if t else None, scan).array)
                inten = np.abs(ref) ** 2 if mean_specs else ref
                acc_w = acc_w + wt * inten
                acc_p = acc_p + inten
                wsum += wt
                count += 1
            weighted = acc_w / wsum if mean_specs else acc_p
            plain = acc_p / count
            got = np.asarray(meas.array if mean_specs else w.array)[idx]
            scale = float(np.abs(weighted).max()) if np.size(weighted) else 1.0
            tol = dict(rtol=2e-4, atol=2e-5 * scale)
            if got.shape == weighted.shape and np.allclose(got, weighted, **tol):
                continue
            detail = {"index": list(idx), "max_abs_diff": float(np.max(np.abs(got - weighted))) if got.shape == weighted.shape else "shape",
                      "axes": [type(a).__name__ for a in w.ensemble_axes_metadata]}
            if not mean_specs:
                ctx.violation(f"{kind}:member-ne-scalar-run", c, detail)
                return
            nonuniform = [n for (n, _), s in mean_specs if len(set(s["weights"])) > 1]
            is_plain = got.shape == plain.shape and np.allclose(got, plain, **tol)
            if is_plain and nonuniform and all(n == "tilt" for n in nonuniform):
                ctx.violation("tilt:ensemble-mean-ignores-distribution-weights", c, detail)  # recorded sub-case, re-derived: got == plain mean
            elif is_plain and nonuniform and kind == "probe":
                ctx.violation("probe:ensemble-mean-weights-cancelled-by-normalisation", c, detail)
            else:
                ctx.violation(f"{kind}:mean-ne-weighted-mean-unexplained", c, detail)
            return

    def conformance(self, ctx: Ctx):
        for _ in range(ctx.n(60, 800)):
            c = gen_case(ctx)
            self.oracle(ctx, c)
            ctx.count("oracle:" + c["kind"])
            ctx.case(c)

    def replay(self, ctx: Ctx, case):
        self.oracle(ctx, case)


if __name__ == "__main__":
    sys.exit(run_property(C03()))
