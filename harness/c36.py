"""C36 — distributions have the values and weights they advertise (abtem/distributions.py)."""
import struct
import sys
from fractions import Fraction

import numpy as np

from common import Ctx, LeanDriver, Property, bool_s, dyadic, err_kind, list_s, rat_s, run_property


def rats(s):
    return [] if s == "_" else [Fraction(x) for x in s.split(",")]


def ratss(s):
    return [] if s == "~" else [rats(t) for t in s.split(";")]


def bits_to_float(n):
    return struct.unpack("<d", struct.pack("<Q", int(n)))[0]


def close(a, b, rel=1e-12, ab=1e-13):
    return abs(float(a) - float(b)) <= ab + rel * max(abs(float(a)), abs(float(b)))


def close_seq(a, b, **kw):
    return len(a) == len(b) and all(close(x, y, **kw) for x, y in zip(a, b))


def gen_gauss(rng, big=True):
    return dict(sigma=rng.choice([dyadic(rng, 0.125, 4, 3) or 1.0, 0.3, 2.7]), limit=rng.choice([3.0, 2.0, 1.5, dyadic(rng, 0.5, 4, 2) or 1.0]),
                center=rng.choice([0.0, dyadic(rng, -4, 4, 3), 0.1, -7.3]), n=rng.choice([1, 2, 3, 4, 5, 7, 8, 11, rng.randint(1, 16)]) if big else rng.randint(1, 4),
                normalize=rng.choice(["intensity", "intensity", "amplitude"]))


def gen_uniform(rng):
    lo = rng.choice([dyadic(rng, -8, 8, 3), 0.1, -0.7])
    hi = lo + rng.choice([dyadic(rng, 0, 8, 3), 0.3, -1.0])
    return dict(low=lo, high=hi, n=rng.choice([0, 1, 2, 3, 5, 8, rng.randint(1, 14)]), endpoint=rng.random() < 0.6)


def gen_chunks(rng, n):
    if n == 0:
        return []
    k = rng.randint(1, min(n, 5))
    cuts = sorted(rng.randint(0, n) for _ in range(k - 1))
    return [b - a for a, b in zip([0] + cuts, cuts + [n])]


class C36(Property):
    id = "C36"
    props_file = "AbtemVerif/Props/C36.lean"
    drive_file = "AbtemVerif/Drive/C36.lean"
    trusted = [
        "hand model (Model/Distributions.lean) of the normalisation, of divide (tuple chunks, entries >= 0) and of outer/meshgrid "
        "around the generated linspace arguments and weight profile (tied by differential correspondence)",
        "IEEE: float64 exp / sqrt / sums within 1e-12 relative of the real values (the Float twin of the generated weight expression is "
        "executed by Lean and compared with numpy on every run)",
        "equal_sized_chunks (int -> tuple of chunk sizes) is C18's subject; here its output is fed to the model as given",
    ]
    assumptions = ["standard deviations > 0 for the Gaussian statements; finite inputs"]
    rule = ("random uniform(low, high, n in 0..14, endpoint) incl. reversed limits and negative n; gaussian(sigma, limit, center, n in "
            "1..16, intensity|amplitude|unknown) 1-D and multi-dimensional; from_values; negation; divide by tuples (valid and not "
            "summing to the length) and by ints; distinct = distinct case JSON; non-trivial = no exception")

    def correspondence(self, ctx: Ctx):
        import abtem.distributions as D

        drv = LeanDriver(self.drive_file)
        rng = ctx.rng
        lines, tags = [], []

        def add(line, name, case, fn):
            lines.append(line)
            try:
                tags.append((name, case, fn()))
            except Exception as e:  # noqa
                tags.append((name, case, ["err", err_kind(e)]))

        for _ in range(ctx.n(200, 3000)):
            c = gen_uniform(rng)
            if rng.random() < 0.05:
                c["n"] = -rng.randint(1, 3)
            add(f"uniform {rat_s(c['low'])} {rat_s(c['high'])} {c['n']} {bool_s(c['endpoint'])}", "uniform", c,
                lambda: (lambda d: ["ok", list(d.values), list(d.weights)])(D.uniform(c["low"], c["high"], c["n"], endpoint=c["endpoint"])))
        for _ in range(ctx.n(250, 4000)):
            c = gen_gauss(rng)
            if rng.random() < 0.04:
                c["normalize"] = "power"
            add(f"gaussian {rat_s(c['sigma'])} {rat_s(c['limit'])} {rat_s(c['center'])} {c['n']} {c['normalize']}", "gaussian", c,
                lambda: (lambda d: ["ok", list(d.values), list(d.weights)])(
                    D.gaussian(c["sigma"], c["n"], center=c["center"], sampling_limit=c["limit"], normalize=c["normalize"])))
        for _ in range(ctx.n(150, 2500)):
            n = rng.randint(0, 9)
            vals = [dyadic(rng, -8, 8, 3) for _ in range(n)]
            ws = [dyadic(rng, 0, 2, 4) for _ in range(n)]
            c = dict(values=vals, weights=ws)
            add(f"neg {list_s(vals, rat_s)} {list_s(ws, rat_s)}", "__neg__", c,
                lambda: (lambda d: ["ok", list(d.values), list(d.weights)])(-D.from_values(vals, np.array(ws))))
            ch = gen_chunks(rng, n) if rng.random() < 0.85 else [rng.randint(0, 3) for _ in range(rng.randint(1, 3))]
            c2 = dict(values=vals, weights=ws, chunks=ch)
            if n > 0 or ch:
                add(f"divide {list_s(vals, rat_s)} {list_s(ws, rat_s)} {list_s(ch)}", "divide(tuple)", c2,
                    lambda: (lambda bl: ["ok", [list(b.values) for b in bl], [list(b.weights) for b in bl]])(
                        D.from_values(vals, np.array(ws)).divide(tuple(ch), lazy=False)))
            if n > 0:
                k = rng.randint(1, n + 1)

                def by_int():
                    from abtem.core.chunks import equal_sized_chunks

                    bl = D.from_values(vals, np.array(ws)).divide(k, lazy=False)
                    return ["ok", [list(b.values) for b in bl], [list(b.weights) for b in bl]], equal_sized_chunks(n, num_chunks=k)
                try:
                    out, chunks = by_int()
                    lines.append(f"divide {list_s(vals, rat_s)} {list_s(ws, rat_s)} {list_s(chunks)}")
                    tags.append(("divide(int)", dict(values=vals, weights=ws, k=k), out))
                except RuntimeError:
                    ctx.count("divide(int):more-chunks-than-items-raises")
            a = [dyadic(rng, 0, 2, 3) for _ in range(rng.randint(1, 4))]
            b = [dyadic(rng, 0, 2, 3) for _ in range(rng.randint(1, 4))]
            add(f"outer {list_s(a, rat_s)} {list_s(b, rat_s)}", "MultidimensionalDistribution.weights", dict(a=a, b=b),
                lambda: ["ok", D.MultidimensionalDistribution([D.from_values(a, np.array(a)), D.from_values(b, np.array(b))]).weights.tolist()])
        for _ in range(ctx.n(60, 800)):
            fs = [[dyadic(rng, 0, 2, 3) for _ in range(rng.randint(1, 3))] for _ in range(rng.randint(2, 4))]
            add("outern " + ";".join(list_s(f, rat_s) for f in fs), "MultidimensionalDistribution.weights (n factors)", dict(factors=fs),
                lambda: (lambda w: ["ok", list(w.shape), w.ravel().tolist()])(
                    np.asarray(D.MultidimensionalDistribution([D.from_values(f, np.array(f)) for f in fs]).weights)))
        for bad in ["uniform 0 1 5", "gaussian 1 3 0 x intensity", "divide 1,2 1,1 -1,3", "frobnicate"]:
            lines.append(bad)
            tags.append(("malformed request rejected", bad, "bad-op"))
        outs = drv.query(lines)
        for line, out, (name, case, impl) in zip(lines, outs, tags):
            t = out.split()
            if impl == "bad-op":
                ok = out == "bad-op"
            elif impl[0] == "err":
                ok = t[:2] == ["err", impl[1]]
            elif t[0] != "ok":
                ok = False
            elif name == "gaussian":
                ws = [bits_to_float(x) for x in ([] if t[2] == "_" else t[2].split(","))]
                ok = close_seq(rats(t[1]), impl[1], rel=1e-12, ab=1e-12) and close_seq(ws, impl[2], rel=1e-11, ab=1e-300)
            elif name in ("uniform", "__neg__"):
                ok = close_seq(rats(t[1]), impl[1]) and close_seq(rats(t[2]), impl[2])
            elif name.endswith("(n factors)"):
                ok = [int(x) for x in t[1].split(",")] == impl[1] and close_seq(rats(t[2]), impl[2])
            elif name.startswith("divide"):
                mv, mw = ratss(t[1]), ratss(t[2])
                ok = (len(mv) == len(impl[1]) and all(close_seq(a, b) for a, b in zip(mv, impl[1]))
                      and len(mw) == len(impl[2]) and all(close_seq(a, b) for a, b in zip(mw, impl[2])))
            else:
                m = ratss(t[1])
                ok = len(m) == len(impl[1]) and all(close_seq(a, b) for a, b in zip(m, impl[1]))
            ctx.agree(name, case, out[:400], impl, ok=ok)
            ctx.count(f"{name}:{'err:' + impl[1] if impl != 'bad-op' and impl[0] == 'err' else 'ok'}")
            ctx.case(line, nontrivial=impl != "bad-op" and impl[0] == "ok")
        ctx.traces += len(lines)

    # --------------------------------------------------------------- conformance (independent of the model)
    def check_case(self, ctx, c):
        import abtem.distributions as D

        if c["kind"] == "uniform":
            d = D.uniform(c["low"], c["high"], c["n"], endpoint=c["endpoint"], ensemble_mean=c.get("ensemble_mean", False))
            if bool(d.ensemble_mean) != bool(c.get("ensemble_mean", False)):
                ctx.violation("uniform-ensemble-mean-flag-wrong", c, {})
            n = c["n"]
            v, w = np.asarray(d.values, float), np.asarray(d.weights, float)
            if len(v) != n or len(w) != n or len(d) != n:
                ctx.violation("uniform-length-wrong", c, dict(len=len(v)))
                return
            if not np.all(w == 1.0):
                ctx.violation("uniform-weights-not-one", c, dict(weights=w.tolist()))
            if n:
                div = (n - 1) if c["endpoint"] else n
                step = (c["high"] - c["low"]) / div if div else 0.0
                want = [c["low"] + i * step for i in range(n)]
                if not close_seq(v, want, rel=1e-12, ab=1e-12):
                    ctx.violation(f"uniform-values-not-equally-spaced:endpoint={c['endpoint']}", c, dict(got=v.tolist(), want=want))
                if c["endpoint"] and n > 1 and not close(v[-1], c["high"]):
                    ctx.violation("uniform-last-value-not-high", c, dict(last=float(v[-1])))
            self.check_neg_divide(ctx, c, d)
        else:
            dims = c["dims"]
            bc = c.get("broadcast", False)  # one number for all axes (number_to_tuple)
            md = D.gaussian(c["sigma"][0] if (dims == 1 or bc) else tuple(c["sigma"]), c["n"][0] if (dims == 1 or bc) else tuple(c["n"]), dimension=dims,
                            ensemble_mean=c.get("ensemble_mean", True),
                            center=tuple(c["center"]) if dims > 1 else c["center"][0],
                            sampling_limit=tuple(c["limit"]) if dims > 1 else c["limit"][0], normalize=c["normalize"])
            facs = md.distributions
            for i, f in enumerate(facs):
                v, w = np.asarray(f.values, float), np.asarray(f.weights, float)
                s, L, mu, n = c["sigma"][i], c["limit"][i], c["center"][i], c["n"][i]
                if len(v) != n:
                    ctx.violation("gaussian-length-wrong", c, dict(axis=i, len=len(v)))
                    continue
                scale = max(1.0, abs(mu), s * L)
                ends_ok = n == 1 or (abs(v[0] - (mu - s * L)) <= 1e-12 * scale and abs(v[-1] - (mu + s * L)) <= 1e-12 * scale)
                if not (np.allclose(v + v[::-1], 2 * mu, rtol=0, atol=1e-12 * scale) and ends_ok
                        and not np.any(np.abs(v - mu) > s * L * (1 + 1e-12) + 1e-300)):
                    ctx.violation(f"gaussian-values-not-symmetric-within-limit:n={'1' if n == 1 else '>1'}", c, dict(axis=i, values=v.tolist()))
                if bool(f.ensemble_mean) != bool(c.get("ensemble_mean", True)):
                    ctx.violation("gaussian-ensemble-mean-flag-wrong", c, dict(axis=i))
                prof = np.exp(-0.5 * (v - mu) ** 2 / s ** 2)
                ratio = w / prof
                if not np.allclose(ratio, ratio[0], rtol=1e-12, atol=0):
                    ctx.violation("gaussian-weights-not-gaussian-profile", c, dict(axis=i, ratio=ratio.tolist()))
                total = float((w ** 2).sum()) if c["normalize"] == "intensity" else float(w.sum())
                if abs(total - 1.0) > 1e-12:
                    ctx.violation(f"gaussian-normalisation-wrong:{c['normalize']}", c, dict(axis=i, total=total))
                if not np.allclose(w, w[::-1], rtol=1e-12, atol=0):
                    ctx.violation("gaussian-weights-not-symmetric", c, dict(axis=i))
            if dims >= 2:
                W = np.asarray(md.weights, float)
                V = np.asarray(md.values, float)
                ws = [np.asarray(f.weights, float) for f in facs]
                want = ws[0]
                for w in ws[1:]:
                    want = np.multiply.outer(want, w)
                shape = tuple(c["n"])
                if W.shape != shape or tuple(md.shape) != shape:
                    ctx.violation(f"multidimensional-weights-shape-wrong:dims={dims}", c, dict(shape=list(W.shape), want=list(shape)))
                elif not np.allclose(W, want, rtol=1e-14, atol=0):
                    ctx.violation("multidimensional-weights-not-outer-product", c, dict(shape=list(W.shape)))
                grids = np.meshgrid(*[np.asarray(f.values) for f in facs], indexing="ij")
                if V.shape != shape + (dims,) or not all(np.array_equal(V[..., k], grids[k]) for k in range(dims)):
                    ctx.violation("multidimensional-values-not-meshgrid", c, dict(shape=list(V.shape)))
                total = float((W ** 2).sum()) if c["normalize"] == "intensity" else float(W.sum())
                if abs(total - 1.0) > 1e-12:
                    ctx.violation(f"multidimensional-normalisation-wrong:{c['normalize']}", c, dict(total=total))
                nv = np.asarray((-md).values, float)
                if not np.array_equal(nv, -V) or not np.array_equal(np.asarray((-md).weights), W):
                    ctx.violation("multidimensional-negation-wrong", c, {})
            self.check_neg_divide(ctx, c, facs[0])
            if dims == 1:  # MultidimensionalDistribution.divide (what gaussian(...) objects and EnsembleFromDistributions call), eager and lazy
                self.check_neg_divide(ctx, c, md, md=True)

    def check_neg_divide(self, ctx, c, d, md=False):
        import abtem.distributions as D

        v, w = np.array(d.values, float, copy=True), np.array(d.weights, float, copy=True)  # copies: the receiver must not be written to
        m = -d
        if not np.array_equal(np.asarray(m.values, float), -v) or not np.array_equal(np.asarray(m.weights, float), w) \
                or m.ensemble_mean != d.ensemble_mean or type(m) is not type(d):
            ctx.violation("negation-changes-more-than-the-sign-of-values", c, dict(values=np.asarray(m.values).tolist()))
        if not np.array_equal(np.asarray(d.values, float), v) or not np.array_equal(np.asarray(d.weights, float), w):
            ctx.violation("negation-mutates-the-original", c, {})
        n = len(v)
        cands = [(d, "md" if md else "dist")]
        if not md:  # the same numbers with weights given as a tuple / a list (docstring: "sequence of float")
            cands.append((D.from_values(v.copy(), weights=tuple(w.tolist())), "tuple-weights"))
            cands.append((D.from_values(v.tolist(), weights=w.tolist()), "list-weights"))
        for dd, tag in cands:
            for ch in c.get("chunks", []):
                for lazy in (False, True):
                    try:
                        blocks = dd.divide(tuple(ch) if isinstance(ch, list) else ch, lazy=lazy)
                        if lazy:
                            blocks = blocks.compute()
                    except RuntimeError:
                        if isinstance(ch, int) and ch > n:
                            ctx.count("divide:int-more-chunks-than-items-raises")
                            continue
                        raise
                    blocks = list(blocks)
                    bv = np.concatenate([np.asarray(b.values, float) for b in blocks]) if len(blocks) else np.array([])
                    bw = np.concatenate([np.asarray(b.weights, float) for b in blocks]) if len(blocks) else np.array([])
                    sizes = [len(b) for b in blocks]
                    sub = f"{tag}:{'lazy' if lazy else 'eager'}"
                    if not np.array_equal(bv, v) or not np.array_equal(bw, w):
                        ctx.violation(f"divide-does-not-partition-values-and-weights:{sub}", c, dict(chunks=ch, sizes=sizes))
                    if isinstance(ch, list) and sizes != ch:
                        ctx.violation(f"divide-block-sizes-differ-from-chunks:{sub}", c, dict(chunks=ch, sizes=sizes))
                    if isinstance(ch, int) and n and (len(sizes) != ch or max(sizes) - min(sizes) > 1):
                        ctx.violation(f"divide-int-blocks-not-equal-sized:{sub}", c, dict(chunks=ch, sizes=sizes))
                    if any(b.ensemble_mean != dd.ensemble_mean for b in blocks):
                        ctx.violation(f"divide-drops-ensemble-mean:{sub}", c, {})
                    ctx.count(f"divide:{sub}")

    def gen_case(self, rng):
        if rng.random() < 0.4:
            c = dict(gen_uniform(rng), kind="uniform", ensemble_mean=rng.random() < 0.5)
            n = c["n"]
        else:
            dims = rng.choice([1, 1, 2, 2, 3, 4])
            gs = [gen_gauss(rng, big=dims <= 2) for _ in range(dims)]
            c = dict(kind="gaussian", dims=dims, sigma=[g["sigma"] for g in gs], limit=[g["limit"] for g in gs],
                     center=[g["center"] for g in gs], n=[g["n"] for g in gs], normalize=gs[0]["normalize"],
                     ensemble_mean=rng.random() < 0.7)
            if dims >= 2 and rng.random() < 0.3:  # one number for every axis
                c.update(broadcast=True, sigma=[c["sigma"][0]] * dims, n=[c["n"][0]] * dims)
            n = c["n"][0]
        c["chunks"] = [gen_chunks(rng, n) for _ in range(2) if n] + ([rng.randint(1, n)] if n else []) + ([n + 1] if n and rng.random() < 0.1 else [])
        return c

    def run_case(self, ctx, c):
        try:
            self.check_case(ctx, c)
        except Exception as e:  # noqa
            ctx.violation(f"distribution-operation-raises:{err_kind(e)}:{c['kind']}", c, dict(error=repr(e)))

    def conformance(self, ctx: Ctx):
        for _ in range(ctx.n(500, 8000)):
            c = self.gen_case(ctx.rng)
            self.run_case(ctx, c)
            ctx.case(c)

    def replay(self, ctx: Ctx, case):
        self.run_case(ctx, case)


if __name__ == "__main__":
    sys.exit(run_property(C36()))
