"""C12 — annular / radial-integration / flexible / segmented detectors give consistent integrated intensities."""
import sys
from fractions import Fraction

import numpy as np

from common import Ctx, LeanDriver, Property, bool_s, dyadic, err_kind, list_s, rat_s, run_property
from c14 import patched, arr_of

WL = 2.0 ** -5  # substituted wavelength for the unit correspondence only (1e3 * WL = 31.25, exact arithmetic)
K = WL * 1e3


def _try(f):
    try:
        return f()
    except Exception as e:  # noqa
        return ["err", err_kind(e)]


def fidx(n, shift):
    f = np.fft.fftfreq(n) * n
    return [int(round(v)) for v in (np.fft.fftshift(f) if shift else f)]


def geom_tok(c):
    return f"{c['nx']} {c['ny']} {rat_s(c['sx'])} {rat_s(c['sy'])} {bool_s(c['shift'])} {rat_s(c['inner'])} {rat_s(c['outer'])}"


def ambiguous(c, nr=None, na=None):
    """flat positions where float32 evaluation may legitimately land on either side of a bin edge"""
    fx, fy = fidx(c["nx"], c["shift"]), fidx(c["ny"], c["shift"])
    inner, outer = Fraction(c["inner"]), Fraction(c["outer"])
    edges = [inner, outer]
    if nr:
        edges = [inner + r * (outer - inner) / nr for r in range(nr + 1)]
    amb = set()
    for i, a in enumerate(fx):
        for j, b in enumerate(fy):
            k2 = (a * Fraction(c["sx"])) ** 2 + (b * Fraction(c["sy"])) ** 2
            for e in edges:
                e2 = e * e
                d = abs(k2 - e2)
                dy = (e.denominator & (e.denominator - 1)) == 0
                if (d == 0 and not dy) or (d != 0 and d <= Fraction(1, 10 ** 5) * max(e2, Fraction(1, 10 ** 6))):
                    amb.add(i * c["ny"] + j)
            if na == 4 and a == 0 and b < 0:
                amb.add(i * c["ny"] + j)
    return amb


def impl_amask(c):
    from abtem.measurements import _annular_detector_mask

    m = _annular_detector_mask((c["nx"], c["ny"]), (c["sx"], c["sy"]), c["inner"], c["outer"], fftshift=c["shift"])
    return ["ok", "".join("1" if b else "0" for b in np.asarray(m).reshape(-1))]


def impl_plabel(c):
    from abtem.measurements import _polar_detector_bins

    b = _polar_detector_bins((c["nx"], c["ny"]), (c["sx"], c["sy"]), c["inner"], c["outer"], c["nr"], c["na"], fftshift=c["shift"])
    return ["ok"] + [int(v) for v in np.asarray(b).reshape(-1)]


def _dp(c):
    import abtem.measurements as M

    arr = np.array(c["x"], dtype=np.float64).reshape(c["nx"], c["ny"])
    return M.DiffractionPatterns(arr, sampling=(c["sx"] / K, c["sy"] / K), fftshift=c["shift"], metadata={"energy": 100e3})


def impl_asum(c):
    import abtem.measurements as M

    with patched((M, "energy2wavelength", lambda e: WL)):
        return _try(lambda: ["ok", int(round(float(np.asarray(_dp(c).integrate_radial(c["inner"], c["outer"]).array))))])


def impl_psum(c):
    import abtem.measurements as M

    with patched((M, "energy2wavelength", lambda e: WL)):
        return _try(lambda: ["ok"] + [int(round(float(v))) for v in
                                      np.asarray(_dp(c).polar_binning(c["nr"], c["na"], c["inner"], c["outer"]).array).reshape(-1)])


def impl_flex(c):
    from abtem.detectors import FlexibleAnnularDetector

    d = FlexibleAnnularDetector(step_size=c["step"], inner=c["inner"], outer=c["outer"])
    lim = d.angular_limits(None)
    return ["ok", int(d.nbins_radial), rat_s(lim[1]), rat_s(lim[0]), rat_s(d.radial_sampling)]


# ----------------------------------------------------------------------------- conformance
def make_waves(c):
    import abtem
    from abtem.core.axes import OrdinalAxis

    rng = np.random.default_rng(c["aseed"])
    shape = tuple(c.get("ens", [])) + tuple(c["gpts"])
    arr = (rng.normal(size=shape) + 1j * rng.normal(size=shape)).astype(np.complex64)
    # damp the high frequencies a little so that no single ring dominates
    ens = [OrdinalAxis(values=tuple(range(n))) for n in c.get("ens", [])]
    return abtem.Waves(arr, energy=c["energy"], sampling=tuple(c["sampling"]), ensemble_axes_metadata=ens)


def near(a, b, scale):
    a, b = np.asarray(a, dtype=np.float64), np.asarray(b, dtype=np.float64)
    return bool(np.all(np.abs(a - b) <= 2e-4 * np.maximum(np.abs(a), np.abs(b)) + 1e-6 * scale))


class C12(Property):
    id = "C12"
    props_file = "AbtemVerif/Props/C12.lean"
    drive_file = "AbtemVerif/Drive/C12.lean"
    trusted = [
        "NUMPY-INDEXING: label_to_index / the numba run-length sum of DiffractionPatterns._radial_binning add up each label's pixels "
        "(hand-modelled as a masked sum per label, tied by correspondence on integer-valued patterns)",
        "IEEE: float32 frequencies, `sqrt`, `alpha >= inner`, `int(nb*(alpha-inner)/(outer-inner))` agree with the exact rational "
        "decision by squares except for pixels within 1e-5 (relative) of a bin edge or exactly on a non-dyadic edge; those pixels are "
        "classified as boundary and either side is accepted (counted in evidence); dyadic edges are compared strictly",
        "the azimuthal sector index is modelled exactly for 1, 2 and 4 sectors with rotation 0 (axis-aligned boundaries); for other "
        "sector counts and rotations the theorems only use that the clipped index lies in [0, na)",
        "energy2wavelength is replaced by the dyadic constant 2^-5 Å in the unit correspondence only",
    ]
    assumptions = ["detector offset = (0,0) (np.roll of the bin table is not modelled)", "inner >= 0 in the theorems"]
    rule = ("random pattern shapes 1–9 × 1–9 (shifted / un-shifted), dyadic angular samplings, limits incl. values exactly on pixel radii "
            "(axes, 3-4-5) and out-of-range limits; 1–4 radial × {1,2,4} azimuthal bins; flexible detector: random inner/outer/step incl. "
            "fractional ratios; conformance: random complex waves 24–48 gpts, the four detection routes on the same waves; distinct = "
            "distinct case JSON; non-trivial = annulus selects ≥ 2 pixels")

    def gen_geom(self, ctx):
        rng = ctx.rng
        nx, ny = rng.randint(1, 9), rng.randint(1, 9)
        q = dyadic(rng, 0.0625, 0.5, 4) or 0.0625
        qy = q if rng.random() < 0.6 else (dyadic(rng, 0.0625, 0.5, 4) or 0.0625)
        sx, sy = q * K, qy * K
        pick = lambda: rng.choice([rng.randint(0, 5) * sx, 5 * sx if sx == sy else sx, dyadic(rng, 0, 5 * max(sx, sy), 3),
                                   float(rng.randint(0, 12))])
        a, b = sorted([pick(), pick()])
        if rng.random() < 0.08:
            a, b = b, a
        if rng.random() < 0.1:
            b = b + 20 * max(sx, sy)
        return {"nx": nx, "ny": ny, "sx": sx, "sy": sy, "shift": rng.random() < 0.5, "inner": a, "outer": b}

    def correspondence(self, ctx: Ctx):
        rng = ctx.rng
        drv = LeanDriver(self.drive_file)
        jobs = []
        for _ in range(ctx.n(250, 3000)):
            c = self.gen_geom(ctx)
            jobs.append(("_annular_detector_mask", dict(c, op="amask"), "amask " + geom_tok(c), impl_amask))
            c2 = dict(c, op="asum", x=[rng.randint(0, 40) for _ in range(c["nx"] * c["ny"])])
            jobs.append(("DiffractionPatterns.integrate_radial", c2, "asum " + geom_tok(c) + " " + list_s(c2["x"]), impl_asum))
            nr, na = rng.choice([1, 1, 2, 3, 4]), rng.choice([1, 1, 2, 4])
            if c["outer"] > c["inner"]:
                c3 = dict(c, op="plabel", nr=nr, na=na)
                jobs.append(("_polar_detector_bins", c3, "plabel " + geom_tok(c) + f" {nr} {na}", impl_plabel))
            c4 = dict(c2, op="psum", nr=rng.choice([nr, nr, 0, -1]) if rng.random() < 0.1 else nr, na=na)
            if c4["outer"] > c4["inner"] or c4["nr"] <= 0:
                jobs.append(("DiffractionPatterns.polar_binning", c4, "psum " + geom_tok(c) + f" {c4['nr']} {na} " + list_s(c2["x"]), impl_psum))
        for _ in range(ctx.n(200, 2000)):
            step = rng.choice([1.0, 0.5, 0.25, 2.0, 3.0, 1.5, 0.75, dyadic(rng, 0.125, 4, 3) or 0.125])
            inner = rng.choice([0.0, float(rng.randint(0, 20)), dyadic(rng, 0, 20, 2)])
            outer = inner + rng.choice([float(rng.randint(0, 60)), dyadic(rng, 0, 60, 3), rng.randint(0, 30) * step])
            c = {"op": "flex", "inner": inner, "outer": outer, "step": step}
            jobs.append(("FlexibleAnnularDetector.nbins_radial/angular_limits", c, f"flex {rat_s(inner)} {rat_s(outer)} {rat_s(step)}", impl_flex))
        outs = drv.query([j[2] for j in jobs])
        for (name, c, line, impl), out in zip(jobs, outs):
            t = out.split()
            got = impl(c)
            op = c["op"]
            if op == "amask":
                amb = ambiguous(c)
                ok = t[0] == got[0] and len(t[1]) == len(got[1]) and all(a == b or k in amb for k, (a, b) in enumerate(zip(t[1], got[1])))
                ctx.boundary += len(amb)
                ctx.agree(name, c, t, got, ok=ok)
                ctx.case(c, nontrivial=got[1].count("1") >= 2)
            elif op == "plabel":
                amb = ambiguous(c, c["nr"], c["na"])
                model = [int(v) for v in t[1].split(",")]
                ok = len(model) == len(got) - 1 and all(a == b or k in amb for k, (a, b) in enumerate(zip(model, got[1:])))
                ctx.boundary += len(amb)
                ctx.agree(name, c, model, got[1:], ok=ok)
                ctx.case(c, nontrivial=sum(1 for v in got[1:] if v >= 0) >= 2)
            elif op in ("asum", "psum"):
                amb = ambiguous(c, c.get("nr") if op == "psum" and c.get("nr", 0) > 0 else None, c.get("na"))
                model = t if t[0] == "err" else ["ok"] + [int(v) for v in t[1].split(",")]
                if amb and model[0] == "ok" and got[0] == "ok":
                    ctx.boundary += 1  # sums with boundary pixels are not compared (the label comparison above covers them)
                    ctx.count(f"{op}:boundary-skipped")
                else:
                    ctx.agree(name, c, model, got)
                ctx.count(f"{op}:{got[0]}")
                ctx.case(c, nontrivial=got[0] == "ok")
            else:  # flex
                model = ["ok", int(t[1]), t[2]]
                ctx.agree(name, c, model, got[:3])
                ctx.agree("FlexibleAnnularDetector stated bin width = step", c, rat_s(c["step"]), got[4])
                ratio = (Fraction(c["outer"]) - Fraction(c["inner"])) / Fraction(c["step"])
                ctx.count(f"flex:ratio-{'integer' if ratio.denominator == 1 else 'fractional'}")
                ctx.case(c, nontrivial=ratio.denominator != 1)
        ctx.traces += len(jobs)

    # ------------------------------------------------------------------ conformance
    def gen_conf(self, ctx):
        rng = ctx.rng
        g = rng.choice([24, 32, 40, 48])
        samp = rng.choice([0.4, 0.5, 0.45])
        c = {"aseed": rng.randint(0, 10 ** 6), "gpts": [g, rng.choice([g, g, g + rng.choice([-3, 5, 8])])], "sampling": [samp, samp],
             "energy": rng.choice([80e3, 100e3, 200e3, 300e3]), "ens": rng.choice([[], [], [2]]),
             "step": rng.choice([1.0, 1.0, 0.5, 2.0, 3.0, 1.5, 0.75, 2.5, 0.1, 0.3, 0.7, 1.1, 0.1, 0.3, 0.7, 1.1]),
             "offset": rng.choice([None, None, [2.0, 0.0], [-1.5, 3.0], [5.0, 5.0], [0.0, -4.0]]), "inner_frac": rng.choice([0.0, 0.0, 0.125, 0.25, 0.3]),
             "outer_frac": rng.choice([None, 0.5, 0.75, 0.9, 0.66]), "nr": rng.randint(1, 4), "na": rng.choice([1, 2, 3, 4, 6]),
             "rot": rng.choice([0.0, 0.0, 0.3]), "shift": rng.random() < 0.5, "i0": rng.randint(0, 3), "di": rng.randint(1, 4)}
        return c

    def oracle(self, ctx: Ctx, c):
        from abtem.detectors import AnnularDetector, FlexibleAnnularDetector, SegmentedDetector

        w = make_waves(c)
        cut = min(w.cutoff_angles)
        inner = float(np.floor(c["inner_frac"] * cut))
        outer = None if c["outer_frac"] is None else float(np.floor(c["outer_frac"] * cut * 4) / 4)
        if outer is not None and outer <= inner + c["step"]:
            outer = inner + 3 * c["step"]
        if outer is not None and outer > cut:
            return True
        total = float(np.abs(arr_of(w.diffraction_patterns(max_angle="full"))).sum()) / max(1, int(np.prod(c.get("ens", [1]) or [1])))
        ok = True
        ann = lambda a, b: arr_of(AnnularDetector(a, b).detect(w))
        # --- flexible detector: stated bin width, bin r == annulus r, integrate_radial on stated edges == annulus
        fd = FlexibleAnnularDetector(step_size=c["step"], inner=inner, outer=outer)
        span = (outer if outer is not None else cut) - inner
        want_nb = int(np.floor(span / c["step"] + 1e-7))  # whole steps between the limits
        # a range shorter than one step has no bin: it must be rejected cleanly, eagerly and lazily
        short = FlexibleAnnularDetector(step_size=c["step"], inner=inner, outer=inner + 0.4 * c["step"])
        for ww, mode in ((w, "eager"), (w.ensure_lazy(), "lazy")):
            try:
                r = short.detect(ww)
                if mode == "lazy":
                    r.compute()
                ctx.violation(f"flexible-short-range-not-rejected:{mode}", c, {"inner": inner, "outer": inner + 0.4 * c["step"]}); ok = False
            except RuntimeError:
                pass
        try:
            f = fd.detect(w)
        except RuntimeError as e:
            if want_nb >= 1:
                ctx.violation("flexible-valid-range-rejected", c, {"inner": inner, "outer": outer, "step": c["step"], "whole_steps": want_nb, "error": str(e)})
                return False
            ctx.count("conf:range-shorter-than-one-step-rejected")
            return ok
        fa = arr_of(f)
        nb = fa.shape[-2]
        if abs(f.radial_sampling - c["step"]) > 1e-12 or abs(f.radial_offset - inner) > 1e-12:
            ctx.violation("flexible-axis-metadata", c, {"radial_sampling": f.radial_sampling, "radial_offset": f.radial_offset}); ok = False
        eff_outer = (outer if outer is not None else cut)
        if nb != want_nb:
            ctx.violation("flexible-bin-count", c, {"nbins": nb}); ok = False
        for r in sorted({0, nb // 2, nb - 1} if nb else ()):
            a = ann(inner + r * c["step"], inner + (r + 1) * c["step"])
            if not near(fa[..., r, 0], a, total):
                ctx.violation("flexible-bin-width", c, {"bin": r, "edges": [inner + r * c["step"], inner + (r + 1) * c["step"]],
                                                        "flexible": fa[..., r, 0].reshape(-1)[:2].tolist(), "annular": a.reshape(-1)[:2].tolist()})
                ok = False
                break
        if nb >= 1:
            # the statement's own call: integrate_radial(inner, outer) with the detector's limits. It must not raise, and it returns the
            # annulus up to the last whole bin (= AnnularDetector(inner, outer) when (outer - inner) / step is an integer)
            o_req = outer if outer is not None else float(cut)
            try:
                fo = arr_of(f.integrate_radial(inner, o_req))
            except RuntimeError as e:
                ctx.violation("flexible-integrate-own-limits-raises", c, {"inner": inner, "outer": o_req, "step": c["step"], "error": str(e)[:120]})
                return False
            ao = ann(inner, inner + nb * c["step"])
            if not near(fo, ao, total):
                ctx.violation("flexible-integrate-own-limits-vs-annular", c, {"limits": [inner, o_req], "binned_to": inner + nb * c["step"],
                                                                              "flexible": fo.reshape(-1)[:2].tolist(), "annular": ao.reshape(-1)[:2].tolist()})
                ok = False
            i0 = min(c["i0"], nb - 1)
            i1 = min(i0 + c["di"], nb)
            a0, a1 = inner + i0 * c["step"], inner + i1 * c["step"]
            fi = arr_of(f.integrate_radial(a0, a1))
            a = ann(a0, a1)
            if not near(fi, a, total):
                ctx.violation("flexible-then-integrate", c, {"limits": [a0, a1], "flexible": fi.reshape(-1)[:2].tolist(), "annular": a.reshape(-1)[:2].tolist()})
                ok = False
            # --- the other routes on [a0, a1)
            d = w.diffraction_patterns(max_angle=c.get("dp_angle", "full"), fftshift=c["shift"])
            b = arr_of(d.integrate_radial(a0, a1))
            if not near(b, a, total):
                ctx.violation("integrate-radial-vs-annular", c, {"limits": [a0, a1], "integrate_radial": b.reshape(-1)[:2].tolist(), "annular": a.reshape(-1)[:2].tolist()})
                ok = False
            if a1 > a0:
                s = arr_of(SegmentedDetector(c["nr"], c["na"], a0, a1, rotation=c["rot"]).detect(w))
                if s.shape[-2:] != (c["nr"], c["na"]) or not near(s.sum(axis=(-2, -1)), a, total):
                    ctx.violation("segments-sum-vs-annular", c, {"limits": [a0, a1], "segments": s.sum(axis=(-2, -1)).reshape(-1)[:2].tolist(),
                                                                 "annular": a.reshape(-1)[:2].tolist()})
                    ok = False
            # --- a shifted annular detector == integrate_radial with the same offset (the detector must not drop its offset)
            if c.get("offset"):
                off = tuple(c["offset"])
                ao = arr_of(AnnularDetector(a0, a1, offset=off).detect(w))
                bo = arr_of(w.diffraction_patterns(max_angle="full", fftshift=c["shift"]).integrate_radial(a0, a1, offset=off))
                if not near(ao, bo, total):
                    ctx.violation("annular-detector-ignores-offset", c, {"limits": [a0, a1], "offset": list(off), "detector": ao.reshape(-1)[:2].tolist(),
                                                                         "integrate_radial": bo.reshape(-1)[:2].tolist()})
                    ok = False
            # --- a shifted segmented detector == the shifted annulus (the shifted bins must not wrap around the cropped pattern)
            if c.get("offset") and a1 > a0:
                off = tuple(c["offset"])
                so = arr_of(SegmentedDetector(c["nr"], c["na"], a0, a1, rotation=c["rot"], offset=off).detect(w))
                ao = arr_of(AnnularDetector(a0, a1, offset=off).detect(w))
                if not near(so.sum(axis=(-2, -1)), ao, total):
                    ctx.violation("segmented-offset-vs-annular-offset", c, {"limits": [a0, a1], "offset": list(off),
                                                                            "segments": so.sum(axis=(-2, -1)).reshape(-1)[:2].tolist(), "annular": ao.reshape(-1)[:2].tolist()})
                    ok = False
            # --- additivity over adjacent ranges
            mid = inner + ((i0 + i1) // 2) * c["step"]
            if a0 < mid < a1 and not near(ann(a0, mid) + ann(mid, a1), a, total):
                ctx.violation("annular-not-additive", c, {"limits": [a0, mid, a1]}); ok = False
        ctx.count(f"conf:outer={'none' if outer is None else 'given'}:ratio-"
                  f"{'integer' if float((eff_outer - inner) / c['step']).is_integer() else 'fractional'}:nb={'0' if nb == 0 else '>0'}")
        return ok

    def conformance(self, ctx: Ctx):
        for _ in range(ctx.n(40, 800)):
            c = self.gen_conf(ctx)
            self.oracle(ctx, c)
            ctx.case(c, nontrivial=True)

    def replay(self, ctx: Ctx, case):
        self.oracle(ctx, case)


if __name__ == "__main__":
    sys.exit(run_property(C12()))
