"""C15 — Fourier interpolation and shifting obey their algebra.

correspondence (exact, integers): `_fft_interpolation_masks_1d` vs Model/FftCrop.lean `masks1d` for ALL size pairs up to
14x14 plus random larger ones; the masked copy of the real `fft_crop` on 1-D and 2-D integer arrays (each element a
distinct integer, so the index map is observed exactly) vs `crop1d` / `crop2d`; `fft_shift_kernel` vs the Float twin.

conformance (real code only): up->down round trip (complex: all shapes/axes/ensemble dims; real: odd sizes exact, even
sizes = finding F16), 'values' keeps the mean, 'intensity' keeps Σ|fft|² (upsampling; band-limited downsampling),
whole-pixel fft_shift == np.roll, shifts compose additively, Waves.downsample keeps the band.
"""
import sys

import numpy as np

from c04 import bf, fb, parse_c, precision
from c04 import gt, nan_selftest
from common import Ctx, LeanDriver, Property, err_kind, list_s, listlist_s, parse_list, parse_listlist, run_property


def gen_case(ctx: Ctx, kind=None):
    rng = ctx.rng
    kind = kind or rng.choice(["roundtrip", "roundtrip", "roundtrip-real", "roundtrip-real", "mean", "intensity", "roll", "shift-add", "downsample", "downsample-default"])
    nd = rng.choice([1, 2, 2, 2, 3])
    shape = [rng.randint(1, 12) for _ in range(nd)]
    big = [s + rng.randint(0, 9) for s in shape]
    if rng.random() < 0.25:  # mixed: up in some axes, down in others
        big = [max(1, s + rng.randint(-4, 6)) for s in shape]
    ens = [] if rng.random() < 0.6 else [rng.randint(1, 3)]
    extra = {}
    if kind == "downsample-default":
        sx = round(rng.uniform(0.05, 0.2), 3)
        extra = dict(gpts=[rng.choice([rng.randint(6, 32), 16, 22, 28, 15, 12])] * 1 + [rng.randint(6, 32)],
                     sampling=[sx, rng.choice([sx, round(rng.uniform(0.05, 0.2), 3)])], max_angle=rng.choice(["cutoff", "cutoff", "cutoff", "full"]),
                     lazy=rng.random() < 0.3)
    return dict(extra, kind=kind, shape=shape, big=big, ens=ens, seed=rng.randint(0, 10 ** 6),
                precision=rng.choice(["float64", "float64", "float32"]), norm=rng.choice(["values", "amplitude", "intensity"]))


def nyquist_halved(x, axes_sizes, grown_even_axes, first_axis):
    """independent prediction of finding F16: every Fourier coefficient of the real array `x` that sits on the Nyquist index of an
    even, upsampled axis comes back with half its value (one-sided copy + `.real` + crop); everything else is exact"""
    ax = tuple(range(first_axis, first_axis + len(axes_sizes)))
    X = np.fft.fftn(np.asarray(x, dtype=np.float64), axes=ax)
    w = np.ones(axes_sizes)
    for a in grown_even_axes:
        idx = [slice(None)] * len(axes_sizes)
        idx[a] = axes_sizes[a] // 2
        w[tuple(idx)] = 0.5
    return np.fft.ifftn(X * w, axes=ax).real, X, w


class C15(Property):
    id = "C15"
    props_file = "AbtemVerif/Props/C15.lean"
    drive_file = "AbtemVerif/Drive/C15.lean"
    trusted = [
        "FFT: fft2/ifft2/fftn/ifftn form inverse pairs (fields of `FourierPair`), with the zero-frequency coefficient equal to the sum "
        "(`HasDC`, proved for Mathlib's ZMod.dft) for the mean statement; the shift rule is proved for ZMod.dft",
        "NUMPY-INDEXING: `new[mask_out] = array[mask_in]` pairs the k-th selected input with the k-th selected output (C order) and raises on "
        "unequal counts; N-D masks are outer products of the 1-D masks (hand model `cropPairs`/`crop2d`, tied by exact correspondence)",
        "IEEE rounding within tolerance",
    ]
    assumptions = ["FFT (inverse pair; DC coefficient; shift rule for the roll statement)", "numpy boolean-mask assignment semantics"]
    rule = ("correspondence: all (n1,n2) in 1..14 x 1..14 + 40 random pairs up to 64 for the masks/pairs; random 1-D/2-D integer arrays for "
            "the crop; conformance: random shapes 1..12 (+0..9) in 1-3 dims with optional ensemble dim, mixed up/down axes, real and complex")

    # ------------------------------------------------------------------ correspondence
    def correspondence(self, ctx: Ctx):
        from abtem.core.fft import _fft_crop_fold, _fft_interpolation_masks_1d, fft_crop, fft_shift_kernel

        rng = ctx.rng
        drv = LeanDriver(self.drive_file)
        lines, checks = [], []
        sizes = [(a, b) for a in range(1, 15) for b in range(1, 15)] + [(rng.randint(1, 64), rng.randint(1, 64)) for _ in range(ctx.n(40, 400))]
        sizes += [(0, 3), (3, 0), (0, 0)]
        for n1, n2 in sizes:
            try:
                m1, m2 = _fft_interpolation_masks_1d(n1, n2)
                impl = f"ok {list_s([int(v) for v in m1])} {list_s([int(v) for v in m2])}"
            except Exception as e:  # noqa
                impl = "err " + err_kind(e)
            checks.append(("_fft_interpolation_masks_1d", dict(n1=n1, n2=n2), len(lines), impl, "exact"))
            lines.append(f"masks {n1} {n2}")
            # the masked copy along one axis, observed with distinct integers
            x = np.arange(1, n1 + 1, dtype=np.int64) * 7 + 3
            try:
                out = fft_crop(x, (n2,))
                impl = "ok " + list_s([int(v) for v in out])
            except Exception as e:  # noqa
                impl = "err " + err_kind(e)
            checks.append(("fft_crop (1-D)", dict(n1=n1, n2=n2), len(lines), impl, "exact"))
            lines.append(f"crop1d {n2} {list_s(x.tolist())}")
            if n1 >= 1 and n2 >= 1:
                try:
                    out = _fft_crop_fold(x.copy(), (n2,), (0,))
                    impl = "ok " + list_s([int(v) for v in out])
                except Exception as e:  # noqa
                    impl = "err " + err_kind(e)
                checks.append(("_fft_crop_fold (1-D, real-input path)", dict(n1=n1, n2=n2), len(lines), impl, "exact"))
                lines.append(f"cropfold1d {n2} {list_s(x.tolist())}")
            ctx.count("masks:" + ("up" if n2 > n1 else "same" if n1 == n2 else "down") + (":small-odd" if min(n1, n2) % 2 else ":small-even"))
            ctx.case(dict(n1=n1, n2=n2), nontrivial=n1 != n2)
        for _ in range(ctx.n(60, 600)):
            a = (rng.randint(1, 9), rng.randint(1, 9))
            b = (rng.randint(1, 12), rng.randint(1, 12))
            x = (np.arange(a[0] * a[1], dtype=np.int64).reshape(a) + 1) * 3
            try:
                out = fft_crop(x, b)
                impl = "ok " + listlist_s([[int(v) for v in row] for row in out])
            except Exception as e:  # noqa
                impl = "err " + err_kind(e)
            checks.append(("fft_crop (2-D, both axes)", dict(shape=a, new=b), len(lines), impl, "exact"))
            lines.append(f"crop2d {b[0]} {b[1]} {listlist_s(x.tolist())}")
            ctx.case(dict(shape=a, new=b))
        # shift kernel (Float twin)
        for _ in range(ctx.n(8, 60)):
            prec = rng.choice(["float64", "float32"])
            dt = np.float64 if prec == "float64" else np.float32
            gpts = (rng.randint(2, 9), rng.randint(2, 9))
            with precision(prec):
                pos = np.array([rng.uniform(-5, 12), rng.choice([rng.uniform(-5, 12), float(rng.randint(-3, 9))])]).astype(dt)
                kern = np.asarray(fft_shift_kernel(pos[None], gpts), dtype=np.complex128)[0]
            ux = np.fft.fftfreq(gpts[0], 1.0).astype(dt).astype(np.float64)
            uy = np.fft.fftfreq(gpts[1], 1.0).astype(dt).astype(np.float64)
            for i in range(gpts[0]):
                for j in range(gpts[1]):
                    checks.append(("fft_shift_kernel", dict(gpts=gpts, pos=pos.tolist(), precision=prec, pixel=[i, j]), len(lines), kern[i, j],
                                   5e-9 if prec == "float64" else 2e-4))
                    lines.append(f"kernel {fb(ux[i])} {fb(uy[j])} {fb(pos[0])} {fb(pos[1])}")
        for bad in ("masks 1", "crop1d x 1,2", "pairs -1 2", "crop2d 2 2 1,2;3", "nope"):
            checks.append(("driver rejects malformed", dict(line=bad), len(lines), "bad-op" if bad != "crop2d 2 2 1,2;3" else None, "exact"))
            lines.append(bad)
        outs = drv.query(lines)
        agg = {}
        for name, case, idx, impl, tol in checks:
            o = outs[idx]
            if impl is None:  # ragged input: any non-crash answer
                ok = True
            elif tol == "exact":
                ok = o.strip() == impl
            else:
                m = parse_c(o)
                ok = not isinstance(m, str) and abs(m - impl) <= tol
            if name == "fft_shift_kernel":  # aggregate per-pixel comparisons into one record per (gpts,pos)
                key = (name, tuple(case["gpts"]), tuple(case["pos"]))
                agg.setdefault(key, [case, True])
                agg[key][1] = agg[key][1] and ok
                continue
            ctx.agree(name, case, o.strip()[:200], (impl or o.strip())[:200], ok=ok)
        for (name, _, _), (case, ok) in agg.items():
            ctx.agree(name, {k: v for k, v in case.items() if k != "pixel"}, "all pixels within tol" if ok else "pixel mismatch", "all pixels within tol", ok=ok)
        ctx.driver_lines += len(lines)

    # ------------------------------------------------------------------ conformance
    def oracle(self, ctx: Ctx, case):
        from abtem.core.fft import fft_interpolate, fft_shift

        prec = case["precision"]
        tol = 1e-9 if prec == "float64" else 3e-4
        rng = np.random.default_rng(case["seed"])
        shape, big, ens = tuple(case["shape"]), tuple(case["big"]), tuple(case["ens"])
        kind = case["kind"]
        with precision(prec):
            cdt = np.complex128 if prec == "float64" else np.complex64
            rdt = np.float64 if prec == "float64" else np.float32

            def rel(a, b):
                return float(np.abs(np.asarray(a) - np.asarray(b)).max() / max(float(np.abs(np.asarray(b)).max()), 1e-30))

            if kind in ("roundtrip", "roundtrip-real"):
                up_shape = tuple(max(s, b) for s, b in zip(shape, big))  # genuine upsampling in every axis
                if kind == "roundtrip":
                    x = (rng.normal(size=ens + shape) + 1j * rng.normal(size=ens + shape)).astype(cdt)
                else:
                    x = rng.normal(size=ens + shape).astype(rdt)
                y = fft_interpolate(x.copy(), up_shape, normalization=case["norm"])
                back = fft_interpolate(np.asarray(y).copy(), shape, normalization=case["norm"])
                err = rel(back, x)
                even_axes = [i for i, (s, u) in enumerate(zip(shape, up_shape)) if s % 2 == 0 and u > s]
                even_grown = [shape[i] for i in even_axes]
                if kind == "roundtrip-real" and not np.isrealobj(np.asarray(y)):
                    ctx.violation("real-input-interpolation-returns-complex", case, dict(dtype=str(np.asarray(y).dtype)))
                if gt(err, tol):
                    if kind == "roundtrip":
                        ctx.violation("complex-up-down-roundtrip-not-identity", case, dict(rel_err=err, up_shape=list(up_shape)))
                    elif even_axes:
                        # known finding F16 only if the result is EXACTLY the predicted Nyquist-halved array
                        pred, _, _ = nyquist_halved(x, shape, even_axes, len(ens))
                        dev = rel(back, pred)
                        if dev <= tol * 10:
                            ctx.violation("real-array-even-axis-up-down-roundtrip-not-identity", case,
                                          dict(rel_err=err, up_shape=list(up_shape), even_axes=even_grown, dev_from_predicted_nyquist_halving=dev))
                        else:
                            ctx.violation("real-array-roundtrip-differs-beyond-predicted-nyquist-halving", case,
                                          dict(rel_err=err, dev_from_prediction=dev, up_shape=list(up_shape), even_axes=even_grown))
                    else:
                        ctx.violation("real-array-odd-axes-up-down-roundtrip-not-identity", case, dict(rel_err=err, up_shape=list(up_shape)))
                ctx.count(f"{kind}:{len(shape)}d:{'even-grown' if even_grown else 'odd-or-same'}:{'ok' if err <= tol else 'differs'}")
            elif kind == "mean":
                is_real = rng.random() < 0.5
                x = rng.normal(size=ens + shape).astype(rdt) if is_real else (rng.normal(size=ens + shape) + 1j * rng.normal(size=ens + shape)).astype(cdt)
                y = np.asarray(fft_interpolate(x.copy(), big, normalization="values"))
                if is_real and not np.isrealobj(y):
                    ctx.violation("real-input-interpolation-returns-complex", case, dict(dtype=str(y.dtype)))
                ax = tuple(range(len(ens), len(ens) + len(shape)))
                d = float(np.abs(y.mean(axis=ax) - x.mean(axis=ax)).max() / max(float(np.abs(x.mean(axis=ax)).max()), 1e-12))
                if gt(d, tol * 10):
                    ctx.violation("values-normalization-changes-the-mean", case, dict(rel_dev=d))
                ctx.count(f"mean:{len(shape)}d:{'real' if is_real else 'complex'}")
            elif kind == "intensity":
                ax = tuple(range(len(ens), len(ens) + len(shape)))
                up_shape = tuple(max(s, b) for s, b in zip(shape, big))
                is_real = rng.random() < 0.4
                x = rng.normal(size=ens + shape).astype(rdt) if is_real else (rng.normal(size=ens + shape) + 1j * rng.normal(size=ens + shape)).astype(cdt)
                y = np.asarray(fft_interpolate(x.copy(), up_shape, normalization="intensity"), dtype=np.complex128)
                tx = (np.abs(np.fft.fftn(np.asarray(x, dtype=np.complex128), axes=ax)) ** 2).sum(axis=ax)
                ty = (np.abs(np.fft.fftn(y, axes=ax)) ** 2).sum(axis=ax)
                d = float(np.abs(ty / tx - 1).max())
                even_axes = [i for i, (s, u) in enumerate(zip(shape, up_shape)) if s % 2 == 0 and u > s]
                if gt(d, tol * 10):
                    if is_real and even_axes:
                        # same defect as F16 seen through the norm: `.real` splits every Nyquist coefficient into two halves,
                        # |X|² -> 2·|X/2|²; known only if the loss is exactly that
                        _, X, w = nyquist_halved(x, shape, even_axes, len(ens))
                        pred = (np.abs(X) ** 2 * np.where(w < 1, 0.5, 1.0)).sum(axis=ax)
                        dev = float(np.abs(ty / pred - 1).max())
                        key = ("real-array-even-axis-intensity-upsampling-halves-nyquist-power" if dev <= tol * 10
                               else "real-array-intensity-upsampling-differs-beyond-predicted-nyquist-loss")
                        ctx.violation(key, case, dict(rel_dev=d, dev_from_prediction=dev, even_axes=[shape[i] for i in even_axes]))
                    else:
                        ctx.violation("intensity-normalization-changes-reciprocal-norm-on-upsampling", case, dict(rel_dev=d, real=is_real))
                # downsampling the (band-limited) upsampled array back: complex input keeps Σ|F|² of the upsampled array; real input
                # (fold of the ±Nyquist halves) returns to Σ|F|² of the ORIGINAL array
                if is_real:
                    z = np.asarray(fft_interpolate(np.ascontiguousarray(y.real).astype(rdt), shape, normalization="intensity"), dtype=np.complex128)
                    ref = tx
                else:
                    z = np.asarray(fft_interpolate(y.astype(cdt), shape, normalization="intensity"), dtype=np.complex128)
                    ref = ty
                tz = (np.abs(np.fft.fftn(z, axes=ax)) ** 2).sum(axis=ax)
                d2 = float(np.abs(tz / ref - 1).max())
                if gt(d2, tol * 10):
                    ctx.violation("intensity-normalization-changes-reciprocal-norm-of-bandlimited-array-on-downsampling", case, dict(rel_dev=d2, real=is_real))
                ctx.count(f"intensity:{len(shape)}d:{'real' if is_real else 'complex'}")
            elif kind in ("roll", "shift-add"):
                g = tuple((list(shape) + [5, 5])[:2])
                x = (rng.normal(size=ens + g) + 1j * rng.normal(size=ens + g)).astype(cdt)
                real_in = rng.random() < 0.35
                if real_in:  # real input of either float width, independent of the configured precision
                    x = x.real.astype(rng.choice([np.float32, np.float64]))
                if kind == "roll":
                    s = (int(rng.integers(-7, 8)), int(rng.integers(-7, 8)))
                    got = np.asarray(fft_shift(x.copy(), np.array(s, dtype=rdt)))
                    exp = np.roll(x, s, axis=(-2, -1))
                    e = rel(got, exp)
                    if gt(e, tol * 10):
                        ctx.violation("whole-pixel-fft-shift-differs-from-roll", case, dict(rel_err=e, shift=list(s)))
                else:
                    p = rng.uniform(-4, 4, size=2).astype(rdt)
                    q = rng.uniform(-4, 4, size=2).astype(rdt)
                    a = np.asarray(fft_shift(np.asarray(fft_shift(x.copy(), p)), q))
                    b = np.asarray(fft_shift(x.copy(), (p + q).astype(rdt)))
                    e = rel(a, b)
                    if gt(e, tol * 20):
                        ctx.violation("fft-shifts-do-not-compose-additively", case, dict(rel_err=e))
                ctx.count(f"{kind}:{'real' if real_in else 'complex'}")
            elif kind == "downsample-default":
                # Waves.downsample() with its DEFAULT max_angle='cutoff' (also 'valid' / a float angle): every Fourier coefficient
                # of a wave that is band-limited inside the antialias aperture must survive unchanged (times the 'values' factor)
                from abtem.waves import Waves
                from c04 import indep_aperture

                g = case.get("gpts") or [int(rng.integers(6, 33)), int(rng.integers(6, 33))]
                g = tuple(g)
                samp = tuple(case.get("sampling") or [0.1, 0.1])
                inband = indep_aperture(g, samp) >= 1.0
                X = (rng.normal(size=g) + 1j * rng.normal(size=g)) * inband
                x = np.fft.ifft2(X).astype(cdt)
                w = Waves(x.copy(), energy=100e3, sampling=samp)
                if case.get("lazy"):
                    w = w.ensure_lazy()
                d = w.downsample(max_angle=case.get("max_angle", "cutoff"), normalization="values")
                darr = np.asarray(d.compute().array if d.is_lazy else d.array, dtype=np.complex128)
                new = darr.shape[-2:]
                D = np.fft.fft2(darr)
                fac = (new[0] * new[1]) / (g[0] * g[1])
                lost, worst = [], 0.0
                for i in range(g[0]):
                    fi = i if i < (g[0] + 1) // 2 else i - g[0]
                    for j in range(g[1]):
                        fj = j if j < (g[1] + 1) // 2 else j - g[1]
                        if not inband[i, j]:
                            continue
                        kept = (-(new[0] // 2) <= fi < (new[0] + 1) // 2) and (-(new[1] // 2) <= fj < (new[1] + 1) // 2)
                        if not kept:
                            lost.append((fi, fj))
                        else:
                            dd = abs(D[fi % new[0], fj % new[1]] - fac * X[i, j])
                            worst = dd if gt(dd, worst) else worst
                scale = max(float(np.abs(X).max()) * fac, 1e-30)
                if gt(worst / scale, tol * 10):
                    ctx.violation("downsample-default-changes-kept-inband-coefficients", case, dict(rel_err=worst / scale, gpts=list(g), new=list(new)))
                if lost and case.get("max_angle", "cutoff") == "cutoff":
                    # recorded class: an even axis whose cutoff grid is even keeps -c/2 … c/2-1 and drops +c/2 although it is in band
                    pred = set()
                    for (fi, fj) in [(a, b) for a in range(-(g[0] // 2), (g[0] + 1) // 2) for b in range(-(g[1] // 2), (g[1] + 1) // 2)]:
                        if inband[fi % g[0], fj % g[1]] and ((new[0] % 2 == 0 and fi == new[0] // 2) or (new[1] % 2 == 0 and fj == new[1] // 2)):
                            pred.add((fi, fj))
                    if set(lost) == pred:
                        ctx.violation("downsample-cutoff-drops-inband-positive-nyquist-of-even-cutoff-grid", case,
                                      dict(gpts=list(g), new=list(new), lost=sorted(lost)[:8], n_lost=len(lost)))
                    else:
                        ctx.violation("downsample-cutoff-drops-inband-coefficients-beyond-recorded-class", case,
                                      dict(gpts=list(g), new=list(new), lost=sorted(set(lost) - pred)[:8]))
                elif lost:
                    ctx.violation(f"downsample-{case.get('max_angle')}-drops-inband-coefficients", case, dict(gpts=list(g), new=list(new), lost=sorted(lost)[:8]))
                ctx.count(f"downsample-default:{case.get('max_angle', 'cutoff')}:{'lazy' if case.get('lazy') else 'eager'}:{'lost' if lost else 'kept'}")
            else:  # Waves.downsample keeps the band
                from abtem.waves import Waves

                g = tuple(max(4, s + 3) for s in (list(shape) + [6, 6])[:2])
                new = (int(rng.integers(2, g[0] + 1)), int(rng.integers(2, g[1] + 1)))
                x = (rng.normal(size=ens + g) + 1j * rng.normal(size=ens + g)).astype(cdt)
                from abtem.core.axes import OrdinalAxis

                w = Waves(x.copy(), energy=100e3, sampling=0.1, ensemble_axes_metadata=[OrdinalAxis(values=tuple(range(k))) for k in ens])
                d = w.downsample(gpts=new, normalization="values")
                X = np.fft.fft2(np.asarray(x, dtype=np.complex128))
                D = np.fft.fft2(np.asarray(d.array, dtype=np.complex128))
                fac = (new[0] * new[1]) / (g[0] * g[1])
                worst = 0.0
                for i in range(new[0]):  # kept coefficients, addressed by signed frequency
                    fi = i if i < (new[0] + 1) // 2 else i - new[0]
                    for j in range(new[1]):
                        fj = j if j < (new[1] + 1) // 2 else j - new[1]
                        dd = float(np.abs(D[..., i, j] - fac * X[..., fi % g[0], fj % g[1]]).max())
                        worst = dd if gt(dd, worst) else worst
                e = worst / max(float(np.abs(X).max()) * fac, 1e-30)
                if gt(e, tol * 10):
                    ctx.violation("downsample-changes-kept-fourier-coefficients", case, dict(rel_err=e, new=list(new), gpts=list(g)))
                if tuple(d.gpts) != tuple(new):
                    ctx.violation("downsample-wrong-gpts", case, dict(got=list(d.gpts), new=list(new)))
                ctx.count("downsample")

    def conformance(self, ctx: Ctx):
        for _ in range(ctx.n(160, 2500)):
            case = gen_case(ctx)
            self.safe_oracle(ctx, case)
            ctx.case(case)
        self.selftest(ctx)

    def selftest(self, ctx: Ctx):
        import abtem.core.fft as af
        import abtem.waves as aw

        base = dict(shape=[5, 7], big=[9, 10], ens=[], seed=5, precision="float64", norm="values")
        runs = [(k, (lambda c, k=k: self.oracle(c, dict(base, kind=k)))) for k in
                ("roundtrip", "roundtrip-real", "mean", "intensity", "roll", "shift-add", "downsample")]
        nan_selftest(ctx, "fft", [(af, "fft_interpolate", False), (af, "fft_shift", False), (aw, "fft_interpolate", False)], runs)

    def safe_oracle(self, ctx: Ctx, case):
        try:
            self.oracle(ctx, case)
        except Exception as e:  # noqa  (an interpolation / shift that raises on a valid shape is a violation of its own)
            ctx.violation(f"{case['kind']}-raises:{type(e).__name__}:{len(case['shape'])}d{'+batch' if case['ens'] else ''}", case,
                          dict(error=f"{type(e).__name__}: {e}"[:300]))

    def replay(self, ctx: Ctx, case):
        self.safe_oracle(ctx, case)


if __name__ == "__main__":
    sys.exit(run_property(C15()))
