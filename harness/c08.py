"""C08 — potentials are covariant under translations and supercell repetition.

Correspondence: the exact model of `superpose_deltas` (both branches, weights, duplicates, periodic indices), of the
index/offset logic of `interpolate_radial_functions`, and of `np.roll`/`np.tile` indexing against the real functions.
Conformance (independent of the model): real `Potential` builds of shifted / repeated structures against rolled /
tiled arrays, `CrystalPotential`, and the slice means under sub-pixel shifts.
"""
import sys
from fractions import Fraction

import numpy as np

from common import (Ctx, LeanDriver, Property, dyadic, err_kind, list_s, listlist_s, parse_list, rat_s, run_property)

TOL = 1.5e-5   # supercell / crystal comparisons (observed <= 3e-6)
TOL_SHIFT = 5e-6  # whole-pixel translation vs roll (observed <= 1e-6); relative to the slice-stack maximum


def rel(a, b):
    a, b = np.asarray(a), np.asarray(b)
    if a.shape != b.shape:
        return float("inf")
    s = float(np.abs(b).max()) or 1.0
    d = float(np.abs(a - b).max()) / s
    return d if d == d else float("inf")


def make_atoms(c):
    import ase

    return ase.Atoms(c["symbols"], positions=c["positions"], cell=c["cell"], pbc=True)


def build(atoms, c, gpts=None, lazy=False):
    from abtem import Potential

    par = c["parametrization"]
    if c.get("sigmas"):  # thermal smearing of the parametrization (float: the same sigma for every species)
        from abtem.parametrizations import KirklandParametrization, LobatoParametrization, PengParametrization

        par = {"lobato": LobatoParametrization, "kirkland": KirklandParametrization, "peng": PengParametrization}[par](sigmas=c["sigmas"])
    p = Potential(atoms, gpts=tuple(gpts or c["gpts"]), slice_thickness=c["cell"][2] / c["nslices"], projection=c["projection"],
                  parametrization=par)
    return p.build(lazy=lazy).compute() if lazy else p.build(lazy=False)


def build_lazy_tile(atoms, c, r):
    from abtem import Potential

    par = c["parametrization"]
    if c.get("sigmas"):
        from abtem.parametrizations import KirklandParametrization, LobatoParametrization, PengParametrization

        par = {"lobato": LobatoParametrization, "kirkland": KirklandParametrization, "peng": PengParametrization}[par](sigmas=c["sigmas"])
    p = Potential(atoms, gpts=tuple(c["gpts"]), slice_thickness=c["cell"][2] / c["nslices"], projection=c["projection"], parametrization=par)
    return p.build(lazy=True).tile(tuple(r)).compute()


def gen_case(ctx: Ctx, kind):
    rng = ctx.rng
    gpts = [rng.choice([12, 16, 20, 24]), rng.choice([12, 16, 20, 24])]
    cell = [dyadic(rng, 4, 6, 2) * rng.choice([1, 1, 1.5]), dyadic(rng, 4, 6, 2) * rng.choice([1, 1, 2]), dyadic(rng, 2, 4, 1)]
    nat = rng.randint(1, 4)
    sx, sy = cell[0] / gpts[0], cell[1] / gpts[1]

    def coord(L, smp):
        """generic dyadic coordinate, or one of the delicate ones: on the periodic boundary from either side (what
        ase's wrap() leaves: -2e-16), exactly on a pixel centre, exactly half-way between two pixels (rounding tie)"""
        k = rng.random()
        if k < 0.6:
            return dyadic(rng, 0, L, 4)
        if k < 0.7:
            return rng.choice([0.0, -2.2e-16, -1e-13, L - 1e-13, 1e-13])
        if k < 0.85:
            return rng.randint(0, 8) * smp
        return (rng.randint(0, 8) + 0.5) * smp

    c = dict(oracle=kind, gpts=gpts, cell=cell, symbols=[rng.choice(["Si", "C", "O", "Au", "Ga"]) for _ in range(nat)],
             positions=[[coord(cell[0], sx), coord(cell[1], sy), dyadic(rng, 0, cell[2], 4)] for _ in range(nat)],
             nslices=rng.randint(1, 3), projection=rng.choice(["infinite", "infinite", "finite"]),
             parametrization=rng.choice(["lobato", "kirkland", "peng"]), lazy=rng.random() < 0.3,
             sigmas=rng.choice([None, None, 0.1, 0.2]))
    if kind == "shift":
        c["shift"] = [rng.randint(-2 * gpts[0], 2 * gpts[0]), rng.randint(-2 * gpts[1], 2 * gpts[1])]
        c["wrap"] = rng.random() < 0.5
    elif kind == "repeat":
        c["reps"] = rng.choice([[2, 1, 1], [1, 2, 1], [2, 2, 1], [1, 1, 2], [3, 1, 1], [2, 1, 2]])
        c["crystal"] = rng.random() < 0.5
    else:  # sub-pixel
        c["projection"] = "infinite"
        c["shift_frac"] = [dyadic(rng, -2, 2, 5), dyadic(rng, -2, 2, 5)]
    return c


def oracle(ctx: Ctx, c):
    try:
        return _oracle(ctx, c)
    except Exception as e:  # noqa
        ctx.violation(f"potential-build-raises:{c['oracle']}:{c['projection']}", c,
                      {"what": "building the potential raised", "error": f"{type(e).__name__}: {e}"[:300]})
        return float("inf")


def _oracle(ctx: Ctx, c):
    atoms = make_atoms(c)
    base = build(atoms, c, lazy=c["lazy"])
    P = np.asarray(base.array)
    key = None
    detail = {}
    if c["oracle"] == "shift":
        sx, sy = c["cell"][0] / c["gpts"][0], c["cell"][1] / c["gpts"][1]
        a2 = atoms.copy()
        a2.positions[:, 0] += c["shift"][0] * sx
        a2.positions[:, 1] += c["shift"][1] * sy
        if c["wrap"]:
            a2.wrap()
        P2 = np.asarray(build(a2, c, lazy=c["lazy"]).array)
        d = rel(P2, np.roll(P, tuple(c["shift"]), axis=(-2, -1)))
        if not d <= TOL_SHIFT:
            key = f"pixel-shift-ne-roll:{c['projection']}"
            detail = {"what": "potential of atoms translated by whole pixels differs from the rolled potential", "rel_linf": d}
    elif c["oracle"] == "repeat":
        r = c["reps"]
        big = build(atoms * tuple(r), c | {"cell": [c["cell"][0] * r[0], c["cell"][1] * r[1], c["cell"][2] * r[2]], "nslices": c["nslices"] * r[2]},
                    gpts=(c["gpts"][0] * r[0], c["gpts"][1] * r[1]), lazy=c["lazy"])
        # tile of the eager array, or (lazy cases) tile of the lazy PotentialArray computed afterwards
        from abtem import Potential as _P
        tiled = base.tile(tuple(r)) if not c["lazy"] else build_lazy_tile(atoms, c, r)
        d = rel(np.asarray(big.array), np.asarray(tiled.array))
        if not d <= TOL or tuple(np.round(big.extent, 9)) != tuple(np.round(tiled.extent, 9)):
            key = f"supercell-ne-tile:{c['projection']}"
            detail = {"what": "potential of the repeated cell differs from the tiled unit-cell potential", "rel_linf": d,
                      "extent": [list(big.extent), list(tiled.extent)]}
        elif c["crystal"]:
            from abtem import CrystalPotential, Potential

            par = c["parametrization"]
            if c.get("sigmas"):
                from abtem.parametrizations import KirklandParametrization, LobatoParametrization, PengParametrization

                par = {"lobato": LobatoParametrization, "kirkland": KirklandParametrization, "peng": PengParametrization}[par](sigmas=c["sigmas"])
            unit = Potential(atoms, gpts=tuple(c["gpts"]), slice_thickness=c["cell"][2] / c["nslices"], projection=c["projection"],
                             parametrization=par)
            cp = CrystalPotential(unit, repetitions=tuple(r)).build(lazy=c["lazy"])
            if c["lazy"]:
                cp = cp.compute()
            d = rel(np.asarray(cp.array), np.asarray(big.array))
            if not d <= TOL:
                key = f"crystal-potential-ne-supercell:{c['projection']}"
                detail = {"what": "CrystalPotential differs from the potential of the repeated cell", "rel_linf": d,
                          "shapes": [list(cp.array.shape), list(big.array.shape)]}
    else:
        a2 = atoms.copy()
        a2.positions[:, 0] += c["shift_frac"][0]
        a2.positions[:, 1] += c["shift_frac"][1]
        P2 = np.asarray(build(a2, c, lazy=c["lazy"]).array)
        m1, m2 = P.mean(axis=(-2, -1)), P2.mean(axis=(-2, -1))
        d = float(np.abs(m1 - m2).max() / (np.abs(m1).max() or 1.0))
        if not d <= TOL:
            key = "subpixel-shift-changes-slice-mean:infinite"
            detail = {"what": "an arbitrary lateral translation changed the mean of a slice (infinite projection)", "rel": d}
    if key:
        ctx.violation(key, c, detail)
    return d


class C08(Property):
    id = "C08"
    props_file = "AbtemVerif/Props/C08.lean"
    drive_file = "AbtemVerif/Drive/C08.lean"
    trusted = [
        "FFT: numpy/pyFFTW fft2/ifft2 form a FourierPair with the shift and DC rules (proved for Mathlib's ZMod.dft in 1-D and for the separable 2-D zmodPair2)",
        "NUMPY-INDEXING: np.add.at accumulates duplicate indices; np.roll / np.tile index maps (checked by correspondence on iota arrays)",
        "IEEE: float32 evaluation of the bilinear weights equals the exact value for the dyadic positions generated",
        "numba kernel interpolate_radial_functions: only its index/offset expressions are generated; the radial table lookup is not modelled",
    ]
    assumptions = ["orthogonal cells; scattering factors / radial tables depend on the grid only through gpts and sampling"]
    rule = ("correspondence: random dyadic pixel positions (inside, outside, on pixel centres and edges), weights, both branches; "
            "conformance: random 1-4 atom cells (aspect up to 2:1), gpts 12-24, 1-3 slices, infinite/finite projection, lobato/kirkland/peng, optional thermal sigmas, "
            "atoms on the periodic boundary / pixel centres / half-pixel ties, lazy/eager; "
            "distinct = distinct case JSON")

    def correspondence(self, ctx: Ctx):
        from abtem.integrals import interpolate_radial_functions, superpose_deltas

        rng = ctx.rng
        drv = LeanDriver(self.drive_file)
        lines, todo = [], []
        for _ in range(ctx.n(250, 4000)):
            n0, n1 = rng.randint(1, 7), rng.randint(1, 7)
            rnd = rng.random() < 0.3
            bits = rng.choice([0, 1, 2, 5])
            pos = [[dyadic(rng, -2 * n0, 3 * n0, bits), dyadic(rng, -2 * n1, 3 * n1, bits)] for _ in range(rng.randint(0, 4))]
            if pos and rng.random() < 0.3:
                pos.append(list(pos[0]))  # duplicates must accumulate
            w = [dyadic(rng, -2, 3, 3) for _ in pos] if rng.random() < 0.4 else None
            case = dict(fn="superpose_deltas", n=[n0, n1], round=rnd, positions=pos, weights=w)
            try:
                arr = superpose_deltas(np.array(pos, dtype=np.float64).reshape(-1, 2), np.zeros((n0, n1), dtype=np.float64),
                                       weights=None if w is None else np.array(w, dtype=np.float64), round_positions=rnd)
                impl = ["ok"] + [Fraction(float(v)) for v in np.asarray(arr).reshape(-1)]
            except Exception as e:  # noqa
                impl = ["err", err_kind(e)]
            lines.append(f"deltas {n0} {n1} {'T' if rnd else 'F'} {listlist_s(pos, rat_s)} {'none' if w is None else list_s(w, rat_s)}")
            todo.append(("superpose_deltas", case, impl))
            ctx.count(f"superpose_deltas:{'rounded' if rnd else 'subpixel'}:{'weights' if w else 'unit'}:{'empty' if not pos else 'atoms'}")
        for _ in range(ctx.n(80, 1500)):
            n0, n1 = rng.randint(2, 9), rng.randint(2, 9)
            s0, s1 = rng.choice([0.25, 0.5, 0.125]), rng.choice([0.25, 0.5, 0.125])
            rad = rng.randint(0, 3)
            disk = [[a, b] for a in range(-rad, rad + 1) for b in range(-rad, rad + 1) if a * a + b * b <= rad * rad]
            pos = [dyadic(rng, -1, n0 * s0 + 1, 5), dyadic(rng, -1, n1 * s1 + 1, 5)]
            case = dict(fn="interpolate_radial_functions", n=[n0, n1], sampling=[s0, s1], radius=rad, position=pos)
            # radial table: value r^2 on a very fine, very wide log grid is not exact; instead count hits (value 1 everywhere)
            rg = np.geomspace(1e-9, 1e9, 8)
            arr = np.zeros((n0, n1), dtype=np.float64)
            interpolate_radial_functions(arr, np.array([pos + [0.0]], dtype=np.float64)[:, :3], np.array(disk, dtype=np.int64).reshape(-1, 2),
                                         (s0, s1), rg, np.ones((1, 8)), np.zeros((1, 8)))
            impl = ["ok"] + [int(round(v)) for v in arr.reshape(-1)]
            lines.append(f"hits {n0} {n1} {rat_s(s0)} {rat_s(s1)} {listlist_s(disk)} {listlist_s([pos], rat_s)}")
            todo.append(("interpolate_radial_functions(hit pixels)", case, impl))
            ctx.count(f"radial:{'tie' if any((2 * v / s) % 1 == 0 and (v / s) % 1 != 0 for v, s in zip(pos, (s0, s1))) else 'no-tie'}")
        for _ in range(ctx.n(40, 400)):
            n0, n1 = rng.randint(1, 6), rng.randint(1, 6)
            s = [rng.randint(-3 * n0, 3 * n0), rng.randint(-3 * n1, 3 * n1)]
            lines.append(f"roll {n0} {n1} {s[0]} {s[1]}")
            todo.append(("np.roll", dict(fn="roll", n=[n0, n1], shift=s),
                         ["ok"] + [Fraction(int(v)) for v in np.roll(np.arange(n0 * n1).reshape(n0, n1), tuple(s), axis=(0, 1)).reshape(-1)]))
            r = [rng.randint(1, 3), rng.randint(1, 3)]
            lines.append(f"tile {n0} {n1} {r[0]} {r[1]}")
            todo.append(("np.tile", dict(fn="tile", n=[n0, n1], reps=r),
                         ["ok"] + [Fraction(int(v)) for v in np.tile(np.arange(n0 * n1).reshape(n0, n1), tuple(r)).reshape(-1)]))
        outs = drv.query(lines)
        for (fn, case, impl), out in zip(todo, outs):
            t = out.split()
            if t[0] == "err":
                model = ["err", t[1]]
            elif fn.startswith("interpolate"):
                n0, n1 = case["n"]
                cnt = [0] * (n0 * n1)
                if t[1] != "~":
                    for h in t[1].split(";"):
                        k, m, _ = h.split(",")
                        cnt[int(k) * n1 + int(m)] += 1
                model = ["ok"] + cnt
            else:
                model = ["ok"] + parse_list(t[1], Fraction)
            ctx.agree(fn, case, model, impl)
            ctx.case(case, nontrivial=bool(case.get("positions", True)))
        ctx.traces += len(todo)

    def conformance(self, ctx: Ctx):
        # the statement of `deltas_tile` on the real function: delta array of the repeated cell == np.tile of the unit array
        from abtem.integrals import superpose_deltas

        rng = ctx.rng
        for _ in range(ctx.n(40, 600)):
            n0, n1, r0, r1 = rng.randint(1, 6), rng.randint(1, 6), rng.randint(1, 3), rng.randint(1, 3)
            pos = [[dyadic(rng, -n0, 2 * n0, 4), dyadic(rng, -n1, 2 * n1, 4)] for _ in range(rng.randint(1, 4))]
            c = dict(oracle="deltas-tile", n=[n0, n1], reps=[r0, r1], positions=pos)
            self.deltas_tile(ctx, c)
            ctx.count("deltas-tile")
            ctx.case(c, nontrivial=r0 * r1 > 1)
        # the two hypotheses of `tiled_potential` on the real code: (hT) fft2 of a tiled array lives on the sub-lattice with
        # factor R0*R1; (hM) the symbol f/sinc sampled on the supercell grid equals the unit-cell symbol on the sub-lattice
        from abtem.core.fft import fft2
        from abtem.integrals import ScatteringFactorProjectionIntegrals, sinc

        for _ in range(ctx.n(8, 80)):
            n0, n1, r0, r1 = rng.choice([6, 8, 12]), rng.choice([6, 8, 10]), rng.randint(1, 3), rng.randint(1, 3)
            smp = (rng.choice([0.25, 0.3]), rng.choice([0.2, 0.25]))
            sym = rng.choice(["Si", "C", "Au"])
            c = dict(oracle="tiled-hypotheses", n=[n0, n1], reps=[r0, r1], sampling=list(smp), symbol=sym,
                     parametrization=rng.choice(["lobato", "kirkland", "peng"]), seed=rng.randint(0, 10 ** 6))
            self.tiled_hypotheses(ctx, c)
            ctx.count("tiled-hypotheses")
            ctx.case(c, nontrivial=r0 * r1 > 1)
        kinds = ["shift", "repeat", "subpixel"]
        for i in range(ctx.n(36, 300)):
            c = gen_case(ctx, kinds[i % 3])
            if i < 12:
                c["projection"] = ["infinite", "finite"][i % 2] if c["oracle"] != "subpixel" else "infinite"
                c["sigmas"] = [None, 0.15][(i // 6) % 2]
            oracle(ctx, c)
            ctx.count(f"{c['oracle']}:{c['projection']}:{'lazy' if c['lazy'] else 'eager'}:{'thermal' if c.get('sigmas') else 'static'}")
            ctx.case(c, nontrivial=True)

    def deltas_tile(self, ctx: Ctx, c):
        from abtem.integrals import superpose_deltas

        (n0, n1), (r0, r1) = c["n"], c["reps"]
        pos = np.array(c["positions"], dtype=np.float64)
        unit = superpose_deltas(pos, np.zeros((n0, n1), dtype=np.float64))
        rep = np.concatenate([pos + np.array([a * n0, b * n1]) for a in range(r0) for b in range(r1)])
        big = superpose_deltas(rep, np.zeros((n0 * r0, n1 * r1), dtype=np.float64))
        if not np.array_equal(big, np.tile(unit, (r0, r1))):
            ctx.violation("superpose-deltas-supercell-ne-tile", c, {"what": "delta array of the repeated cell differs from the tiled delta array",
                                                                   "max_abs": float(np.abs(big - np.tile(unit, (r0, r1))).max())})

    def tiled_hypotheses(self, ctx: Ctx, c):
        from abtem.core.fft import fft2
        from abtem.integrals import ScatteringFactorProjectionIntegrals, sinc

        (n0, n1), (r0, r1), smp = c["n"], c["reps"], tuple(c["sampling"])
        x = np.random.default_rng(c["seed"]).standard_normal((n0, n1)).astype(np.complex64)
        big = np.asarray(fft2(np.tile(x, (r0, r1)).copy()))
        small = np.asarray(fft2(x.copy()))
        exp = np.zeros_like(big)
        exp[::r0, ::r1] = r0 * r1 * small
        d = float(np.abs(big - exp).max() / np.abs(exp).max())
        if not d <= 2e-5:
            ctx.violation("fft2-of-tiled-array-not-on-sublattice", c, {"what": "fft2(tile(x)) != R0 R1 fft2(x) on the sub-lattice / 0 elsewhere", "rel": d})
        integ = ScatteringFactorProjectionIntegrals(c["parametrization"])
        f_s = np.asarray(integ.get_scattering_factor(c["symbol"], (n0, n1), smp, "cpu")) / np.asarray(sinc((n0, n1), smp, "cpu"))
        f_b = np.asarray(integ.get_scattering_factor(c["symbol"], (n0 * r0, n1 * r1), smp, "cpu")) / np.asarray(sinc((n0 * r0, n1 * r1), smp, "cpu"))
        # a unit mass on N pixels has spectrum of size 1; the potential scale of the big grid carries the pixel count through ifft2's 1/N
        d2 = float(np.abs(f_b[::r0, ::r1] - f_s).max() / np.abs(f_s).max())
        if not d2 <= 2e-5:
            ctx.violation("scattering-symbol-differs-on-sublattice", c,
                          {"what": "f/sinc sampled on the supercell grid differs from the unit-cell symbol at the same frequencies", "rel": d2})

    def replay(self, ctx: Ctx, case):
        if case.get("oracle") == "tiled-hypotheses":
            return self.tiled_hypotheses(ctx, case)
        if case.get("oracle") == "deltas-tile":
            return self.deltas_tile(ctx, case)
        oracle(ctx, case)


if __name__ == "__main__":
    sys.exit(run_property(C08()))
