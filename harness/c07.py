"""C07 — thickness series are consistent with truncated simulations."""
import sys

import numpy as np

import dask

dask.config.set(scheduler="synchronous")  # tiny arrays: threads only add overhead (scheduler independence is C01's subject)

from common import (Ctx, LeanDriver, Property, bool_s, dyadic, err_kind, list_s, listlist_s, rat_s, run_property)
from msd_trace import Tracer, entry_s, expected_ids, tagged_potential_array, tagged_waves


# ----------------------------------------------------------------------------- unit functions of the implementation
class _Stub:
    """duck-typed BaseField for the two exit-plane properties (they only use exit_planes, len() and slice_thickness)"""

    def __init__(self, planes, n, thickness=None):
        self.exit_planes = tuple(planes)
        self._n = n
        self.slice_thickness = tuple(thickness) if thickness is not None else (1.0,) * n

    def __len__(self):
        return self._n


def impl_validate(spec, n):
    from abtem.potentials.iam import _validate_exit_planes

    try:
        r = _validate_exit_planes(spec, n)
        return "ok " + list_s(int(x) for x in r)
    except Exception as e:  # noqa
        return "err " + err_kind(e)


def impl_after(planes, n):
    from abtem.potentials.iam import BaseField

    try:
        r = BaseField._exit_plane_after.fget(_Stub(planes, n))
        return "ok " + list_s((bool(x) for x in r), bool_s)
    except Exception as e:  # noqa
        return "err " + err_kind(e)


def impl_thick(planes, thickness):
    from abtem.potentials.iam import BaseField

    try:
        r = BaseField.exit_thicknesses.fget(_Stub(planes, len(thickness), thickness))
        return "ok " + list_s(r, rat_s)
    except Exception as e:  # noqa
        return "err " + err_kind(e)


def spec_s(spec):
    if spec is None:
        return "none"
    if isinstance(spec, int):
        return f"int:{spec}"
    return "tuple:" + list_s(spec)


def gen_planes(rng, n, weird=False):
    """explicit exit-plane tuple for n slices: strictly increasing subset of -1..n-1 (valid), or an unsorted /
    repeated / out-of-range variant (weird)"""
    pool = list(range(0, n))
    k = rng.randint(1, max(1, min(n, 4)))
    planes = sorted(rng.sample(pool, min(k, len(pool))))
    if rng.random() < 0.5:
        planes = [-1] + planes
    if weird:
        op = rng.choice(["shuffle", "dup", "range", "neg", "late-1"])
        if op == "shuffle":
            rng.shuffle(planes)
        elif op == "dup":
            planes = planes + [planes[-1]]
        elif op == "range":
            planes = planes + [n + rng.randint(0, 2)]
        elif op == "neg":
            planes = [-rng.randint(2, n + 2)] + planes
        else:
            planes = planes + [-1]
    return planes


# ----------------------------------------------------------------------------- traced orchestration
def trace_case(rng, weird=False):
    n = rng.randint(1, 5)
    ncfg = rng.choice([1, 1, 2, 3])
    ens = True if ncfg > 1 else rng.random() < 0.4
    kind = rng.choice(["none", "int", "int", "tuple", "tuple"])
    if kind == "none":
        spec = None
    elif kind == "int":
        spec = rng.randint(1, n + 1)
    else:
        spec = gen_planes(rng, n, weird=False)
        if weird:  # in-range but unsorted / repeated planes: the pointer loop leaves entries unwritten
            if rng.random() < 0.5:
                rng.shuffle(spec)
            else:
                spec = spec + [spec[0]]
    pot = rng.choice(["array", "array", "crystal"]) if not ens else "array"
    reps = rng.randint(1, 3) if pot == "crystal" else 1
    return dict(n=n, ncfg=ncfg, ens=ens, spec=spec, pot=pot, reps=reps, batch=rng.choice([[], [], [2]]),
                recip=rng.random() < 0.4, algorithm=rng.choice(["fourier", "fourier", "realspace"]),
                thickness=[dyadic(rng, 0.25, 2, 2) or 0.5 for _ in range(n)])


def build_tagged(c, ):
    from abtem.potentials.iam import CrystalPotential

    ids = [[10 * k + j + 1 for j in range(c["n"])] for k in range(c["ncfg"])]
    spec = tuple(c["spec"]) if isinstance(c["spec"], list) else c["spec"]
    if c["pot"] == "crystal":
        unit = tagged_potential_array(ids, 4, c["thickness"], None, False)
        pot = CrystalPotential(unit, repetitions=(1, 1, c["reps"]), exit_planes=spec)
        return pot, [ids[0] * c["reps"]]
    return tagged_potential_array(ids, 4, c["thickness"], spec, c["ens"]), ids


def run_traced(c):
    """the real multislice_and_detect with the tagging kernel; returns (planes, configs, text in driver format)"""
    from abtem.detectors import WavesDetector
    from abtem.multislice import multislice_and_detect

    pot, configs = build_tagged(c)
    tr = Tracer()
    w = tagged_waves(4, tuple(c["batch"]), recip=bool(c.get("recip")))
    kw = {}
    if c.get("algorithm") == "realspace":
        from abtem.multislice import RealSpaceMultislice
        kw["algorithm"] = RealSpaceMultislice()
    try:
        with tr.patched():
            out = multislice_and_detect(w, pot, [WavesDetector()], **kw)
        ens_shape, hs = tr.decode(out[0].array)
        nb = int(np.prod(c["batch"])) if c["batch"] else 1
        shape = ens_shape[: len(ens_shape) - len(c["batch"])]
        rows = [hs[i * nb:(i + 1) * nb] for i in range(len(hs) // nb)]
        if any(any(h != r[0] for h in r) for r in rows):
            return pot, configs, "batch members disagree"
        return pot, configs, f"{list_s(shape)} " + ";".join(entry_s(r[0]) for r in rows)
    except Exception as e:  # noqa
        return pot, configs, "err " + err_kind(e)


def model_text(reply):
    t = reply.split()
    if t[0] in ("final", "table"):
        return f"{t[1]} {t[2]}"
    return reply


# ----------------------------------------------------------------------------- numeric oracle
MAX_CONFIGS = 3


def gen_numeric(ctx: Ctx, frozen=False, single=False, malformed=False, window=False):
    rng = ctx.rng
    n = rng.randint(2 if single else 1, 4)
    thickness = [dyadic(rng, 0.5, 1.5, 2) for _ in range(n)]
    lz = sum(thickness)
    atoms = [[rng.choice([6, 14, 29]), dyadic(rng, 0, 3.75, 3), dyadic(rng, 0, 3.75, 3), round(rng.uniform(0.05, lz - 0.05), 3)]
             for _ in range(rng.randint(1, 4))]
    kind = rng.choice(["int", "int", "tuple", "tuple", "none"])
    spec = None if kind == "none" else rng.randint(1, n + 1) if kind == "int" else gen_planes(rng, n)
    if single:  # one explicit exit plane that is not the last slice
        spec = [rng.randint(0, n - 2)]
    if malformed:
        spec = gen_planes(rng, n, weird=True)
        if spec == sorted(set(spec)) and all(-1 <= q < n for q in spec):  # the mutation happened to stay valid
            spec = spec + [spec[0]]
    builder = rng.choice(["plane", "probe"])
    det = rng.choice(["waves", "pixelated"] if builder == "plane" else ["waves", "annular", "flexible", "pixelated"])
    scan = None
    if builder == "probe":
        scan = [[dyadic(rng, 0, 3.5, 2), dyadic(rng, 0, 3.5, 2)] for _ in range(rng.randint(1, 3))]
    pot = rng.choice(["atoms", "atoms", "array", "crystal"])
    nfp = rng.randint(1, MAX_CONFIGS) if frozen and pot != "crystal" else 0
    if window:
        n = max(n, 2)
        thickness = (thickness + [1.0])[:n] if len(thickness) >= n else thickness + [1.0] * (n - len(thickness))
    if malformed and pot == "crystal":
        pot = "atoms"  # (the crystal potential repeats the unit: its slice count differs from n, the tuple could be valid there)
    win = 0
    if window:
        a = rng.choice([0, 0, rng.randint(0, n - 1)])
        win = [a, rng.randint(a + 1, n)]
        if win == [0, n]:
            win = [0, n - 1]
    return dict(window=win, malformed=malformed, entry=rng.choice(["builder", "builder", "real", "reciprocal"]),
                thickness=thickness, atoms=atoms, spec=spec, builder=builder, det=det, scan=scan,
                gpts=rng.choice([8, 12, 16]), pot=pot, lazy=rng.random() < 0.4, nfp=nfp, seed=rng.randint(0, 10 ** 6))


def _atoms(c):
    import ase

    return ase.Atoms(numbers=[a[0] for a in c["atoms"]], positions=[a[1:] for a in c["atoms"]],
                     cell=(4.0, 4.0, sum(c["thickness"])))


def _potential(c, spec, atoms=None):
    import abtem

    spec = tuple(spec) if isinstance(spec, list) else spec
    atoms = _atoms(c) if atoms is None else atoms
    if c["pot"] == "crystal":
        unit = abtem.Potential(_atoms(c), gpts=c["gpts"], slice_thickness=tuple(c["thickness"]))
        return abtem.CrystalPotential(unit, repetitions=(1, 1, 2), exit_planes=spec)
    p = abtem.Potential(atoms, gpts=c["gpts"], slice_thickness=tuple(c["thickness"]), exit_planes=spec)
    if c["pot"] == "array":
        p = p.build(lazy=False)
    return p


def _detector(c):
    import abtem

    return {"waves": None, "pixelated": abtem.PixelatedDetector(max_angle=None),
            "annular": abtem.AnnularDetector(inner=5, outer=30),
            "flexible": abtem.FlexibleAnnularDetector(step_size=10)}[c["det"]]


def _run(c, potential, lazy=False, entry=None):
    """one simulation; `entry`: the incident waves reach multislice_and_detect through the builder API or as a Waves object
    handed over in real / reciprocal space"""
    import abtem

    kw = dict(energy=100e3, extent=4.0, gpts=c["gpts"])
    det = _detector(c)
    entry = c.get("entry", "builder") if entry is None else entry
    scan = abtem.CustomScan(np.array(c["scan"])) if c["builder"] == "probe" else None
    if entry == "builder":
        if c["builder"] == "plane":
            r = abtem.PlaneWave(**kw).multislice(potential, detectors=det, lazy=lazy)
        else:
            r = abtem.Probe(semiangle_cutoff=30, **kw).multislice(potential, scan=scan, detectors=det, lazy=lazy)
    else:
        w = abtem.PlaneWave(**kw).build(lazy=False) if c["builder"] == "plane" else \
            abtem.Probe(semiangle_cutoff=30, **kw).build(scan=scan, lazy=False)
        if entry == "reciprocal":
            w = w.ensure_reciprocal_space()
        if lazy:
            w = w.ensure_lazy()
        r = w.multislice(potential, detectors=det)
    return r.compute(progress_bar=False) if lazy else r


def _incident(c):
    import abtem

    kw = dict(energy=100e3, extent=4.0, gpts=c["gpts"])
    det = _detector(c) or abtem.detectors.WavesDetector()
    if c["builder"] == "plane":
        w = abtem.PlaneWave(**kw).build(lazy=False)
    else:
        w = abtem.Probe(semiangle_cutoff=30, **kw).build(scan=abtem.CustomScan(np.array(c["scan"])), lazy=False)
    return det.detect(w)


def _close(a, b):
    a = np.asarray(a)
    b = np.asarray(b)
    if a.shape != b.shape:
        return False, f"shape {a.shape} vs {b.shape}"
    scale = max(float(np.abs(b).max()), 1e-12)
    d = float(np.abs(a - b).max())
    return d <= 2e-5 * scale, f"max|diff|={d:.3g} scale={scale:.3g}"


class C07(Property):
    id = "C07"
    props_file = "AbtemVerif/Props/C07.lean"
    drive_file = "AbtemVerif/Drive/C07.lean"
    # the supporting lemmas of Lib/Multislice.lean are used by (hence audited through) the property theorems; they are counted
    # and audited on their own in the thorough tier only (a second Mathlib import costs up to a minute on a loaded machine)
    extra_lean = ["AbtemVerif/Lib/Multislice.lean"] if "thorough" in sys.argv else []
    trusted = [
        "tagging kernels of harness/msd_trace.py (the multislice step is replaced by a history-recording kernel; loops, "
        "exit-plane flags, measurement indexing and allocation are the real code)",
        "NUMPY-INDEXING: `measurements.array[index] = value` writes exactly the addressed entry (modelled as a write log, "
        "last write wins, unwritten = zeros)",
        "hand models `ExitPlanes.validateExitPlanes/exitPlaneAfter/exitThicknesses` and `Multislice.multisliceAndDetect` "
        "around the generated scalar tests (tied by exhaustive / traced correspondence)",
        "IEEE: cumulative thicknesses are compared exactly for dyadic slice thicknesses only",
    ]
    assumptions = [
        "step : W → S → W and detect : W → M are arbitrary functions (theorems are universally quantified over them); that the "
        "numeric kernels are deterministic functions of (wave, slice) is observed by the numeric oracle, not proved",
    ]
    rule = ("unit: all (k, n) in a square for int exit_planes, random explicit tuples (valid and unsorted/repeated/out-of-range); "
            "traced: random tagged PotentialArray / CrystalPotential with 1-3 configurations, 1-5 slices; numeric: random atoms, "
            "gpts 8-16, <=4 slices, PlaneWave/Probe x detectors x eager/lazy; distinct = distinct case JSON")

    # ------------------------------------------------------------------ correspondence
    def correspondence(self, ctx: Ctx):
        rng = ctx.rng
        drv = LeanDriver(self.drive_file)
        lines, impls, names, cases = [], [], [], []

        def add(name, line, impl, case, nontrivial=True):
            lines.append(line); impls.append(impl); names.append(name); cases.append((case, nontrivial))

        N = ctx.n(20, 64)
        for n in range(0, N + 1):
            add("_validate_exit_planes", f"validate none {n}", impl_validate(None, n), ["none", n], False)
            for k in range(-2, N + 3):
                add("_validate_exit_planes", f"validate int:{k} {n}", impl_validate(k, n), ["int", k, n], 0 < k < n)
        for _ in range(ctx.n(150, 2000)):
            n = rng.randint(1, 9)
            weird = rng.random() < 0.4
            pl = gen_planes(rng, n, weird)
            add("_validate_exit_planes", f"validate tuple:{list_s(pl)} {n}", impl_validate(tuple(pl), n), ["tuple", pl, n], False)
            add("_exit_plane_after", f"after {list_s(pl)} {n}", impl_after(pl, n), ["after", pl, n])
            th = [dyadic(rng, 0.25, 3, 3) or 0.125 for _ in range(n)]
            add("exit_thicknesses", f"thick {list_s(pl)} {list_s(th, rat_s)}", impl_thick(pl, th), ["thick", pl, th])
            ctx.count("planes:" + ("weird" if weird else "valid"))
        # exit planes of slice windows (PotentialArray.__getitem__ -> _exit_planes_of_selection)
        for _ in range(ctx.n(80, 800)):
            n = rng.randint(2, 7)
            pl = gen_planes(rng, n)
            a = rng.randint(0, n - 1); b = rng.randint(a + 1, n)
            pa = tagged_potential_array([[j + 1 for j in range(n)]], 4, [1.0] * n, tuple(pl), False)
            try:
                impl = "ok " + list_s(int(p) for p in pa[a:b].exit_planes)
            except Exception as e:  # noqa
                impl = "err " + err_kind(e)
            add("PotentialArray.__getitem__ exit planes", f"window {list_s(pl)} {a} {b}", impl, ["window", pl, a, b])
        add("_exit_plane_after", "after _ 3", impl_after([], 3), ["after", [], 3])
        add("exit_thicknesses", "thick _ 1,1", impl_thick([], [1.0, 1.0]), ["thick", [], [1, 1]])
        # int / None exit planes through the two properties
        for n in range(1, ctx.n(10, 24)):
            for k in range(1, n + 2):
                from abtem.potentials.iam import _validate_exit_planes
                pl = [int(x) for x in _validate_exit_planes(k, n)]
                add("_exit_plane_after", f"after {list_s(pl)} {n}", impl_after(pl, n), ["after", pl, n])
                th = [dyadic(rng, 0.25, 3, 3) or 0.125 for _ in range(n)]
                add("exit_thicknesses", f"thick {list_s(pl)} {list_s(th, rat_s)}", impl_thick(pl, th), ["thick", pl, th])
        # traced multislice_and_detect
        ntr = ctx.n(120, 1500)
        for i in range(ntr):
            c = trace_case(rng, weird=False)  # unsorted / repeated / out-of-range tuples are rejected (unit stream + oracle)
            pot, configs, text = run_traced(c)
            add("multislice_and_detect(traced)", f"msd {bool_s(c['ens'])} {list_s(int(p) for p in pot.exit_planes)} "
                                                 f"{pot.num_slices} {listlist_s(expected_ids(configs, c['algorithm']))} {bool_s(c['recip'])}", text, c)
            ctx.count(f"trace:{c['pot']}:ens={c['ens']}:ncfg={c['ncfg']}:spec={'none' if c['spec'] is None else type(c['spec']).__name__}")
            ctx.traces += 1
        outs = drv.query(lines)
        for name, line, impl, out, (case, nt) in zip(names, lines, impls, outs, cases):
            model = model_text(out) if name.startswith("multislice") else out
            ctx.agree(name, {"request": line, "case": case}, model, impl)
            ctx.case(case, nontrivial=nt)
        # malformed requests are rejected
        bad = drv.query(["validate int:x 3", "after 1,2", "msd X 1 1 1", "thick 1 a", ""])
        ctx.agree("driver rejects malformed requests", bad, bad, ["bad-op"] * 5)

    # ------------------------------------------------------------------ conformance
    def oracle(self, ctx: Ctx, c):
        from abtem.potentials.iam import PotentialArray

        tag = f"{c['pot']}:{c['builder']}:{c['det']}:{'lazy' if c['lazy'] else 'eager'}"
        if c.get("window"):
            # a slice window of a built potential: its slices, thicknesses and exit planes are those of the window, and the
            # multislice through it is the run through exactly those slices
            import abtem
            from abtem.potentials.iam import PotentialArray as PA
            spec = tuple(c["spec"]) if isinstance(c["spec"], list) else c["spec"]
            full = abtem.Potential(_atoms(c), gpts=c["gpts"], slice_thickness=tuple(c["thickness"]), exit_planes=spec).build(lazy=False)
            a, b = c["window"]
            win = full[a:b]
            if not np.array_equal(np.asarray(win.array), np.asarray(full.array)[a:b]) or \
                    [float(t) for t in win.slice_thickness] != [float(t) for t in c["thickness"][a:b]]:
                ctx.violation("window-of-potential-array-has-wrong-slices", c, {"window": [a, b]})
                return
            parent = [int(p) for p in full.exit_planes]
            inside = [p - a for p in parent if a <= p < b]
            exp_planes = ([-1] if (parent[0] == -1 and a == 0) else []) + inside
            if not inside and not exp_planes:
                exp_planes = [b - a - 1]  # no plane of the parent lies in the window: the last slice of the window
            ref = PA(np.asarray(full.array)[a:b], slice_thickness=tuple(c["thickness"][a:b]), extent=4.0, exit_planes=tuple(exp_planes))
            got = np.asarray(_run(c, win, entry="builder").array)
            exp = np.asarray(_run(c, ref, entry="builder").array)
            ok, why = _close(got, exp)
            if not ok:
                wp = [int(p) for p in win.exit_planes]
                nothing = bool(np.all(got == 0)) and wp == parent
                ctx.violation("window-of-potential-array-records-nothing" if nothing else "window-of-potential-array-neq-truncated-run",
                              c, {"window": [a, b], "exit_planes_of_window": wp, "expected_planes": exp_planes, "what": why})
            elif [int(p) for p in win.exit_planes] != exp_planes:
                ctx.violation("window-of-potential-array-has-wrong-exit-planes", c,
                              {"window": [a, b], "exit_planes_of_window": [int(p) for p in win.exit_planes], "expected_planes": exp_planes})
            return
        if c.get("malformed"):
            # unsorted / repeated / out-of-range explicit exit planes: must be rejected when the potential is made — never
            # turned into zero-filled entries labelled with a thickness
            try:
                res = _run(c, _potential(c, c["spec"], _atoms(c)), lazy=c["lazy"])
            except ValueError:
                ctx.count("malformed-exit-planes:rejected")
                return
            except Exception as e:  # noqa
                ctx.violation("malformed-exit-planes-raise-" + type(e).__name__, c, {"exit_planes": c["spec"], "error": str(e)[:200]})
                return
            ctx.violation("malformed-exit-planes-accepted", c, {"exit_planes": c["spec"], "shape": list(res.shape)})
            return
        atoms = _atoms(c)
        if c.get("nfp"):
            import abtem
            atoms = abtem.FrozenPhonons(atoms, c["nfp"], 0.1, seed=c["seed"], ensemble_mean=False)
        pot = _potential(c, c["spec"], atoms)
        planes = [int(p) for p in pot.exit_planes]
        nsl = int(pot.num_slices)
        if isinstance(c["spec"], int):
            # documented meaning of an integer: the entrance plane, then a measurement every `k` slices, and the last slice
            k = c["spec"]
            exp_planes = [nsl - 1] if k >= nsl else \
                [-1] + [i for i in range(nsl) if (i + 1) % k == 0] + ([nsl - 1] if nsl % k else [])
            if planes != exp_planes:
                ctx.violation("integer-exit-planes-not-every-k-slices", c, {"exit_planes": planes, "expected": exp_planes,
                                                                           "k": k, "num_slices": nsl})
                return
        elif c["spec"] is None and planes != [nsl - 1]:
            ctx.violation("default-exit-plane-not-last-slice", c, {"exit_planes": planes, "num_slices": nsl})
            return
        try:
            res = _run(c, pot, lazy=c["lazy"])
        except Exception as e:  # noqa
            if not c["lazy"]:
                raise
            _run(c, pot, lazy=False)  # (raises as well -> reported by the caller as a failing run)
            ctx.violation("lazy-thickness-series-raises-eager-ok:" + type(e).__name__, c, {"error": f"{type(e).__name__}: {e}"[:200], "case": tag})
            return
        nfp = c.get("nfp") or 0
        arr = np.asarray(res.array)
        # reference: the slices themselves (built once, no exit planes), truncated by plain array slicing
        if nfp and c["pot"] != "crystal":
            confs = [abtem_potential_of(c, a) for a in list(atoms)]
        else:
            confs = [abtem_potential_of(c, None)]
        thick_all = tuple(float(t) for t in pot.slice_thickness)
        nslices = len(thick_all)
        for ci, full in enumerate(confs):
            sub = arr[ci] if nfp and c["pot"] != "crystal" else arr
            for e, p in enumerate(planes):
                got = sub[e] if len(planes) > 1 else sub
                if p == -1:
                    exp = np.asarray(_incident(c).array)
                    key = "entrance-plane-neq-incident-wave"
                else:
                    trunc = PotentialArray(full.array[: p + 1], slice_thickness=thick_all[: p + 1], extent=4.0)
                    exp = np.asarray(_run(c, trunc, entry="builder").array)
                    key = "exit-plane-neq-truncated-run" if p < nslices - 1 else "last-plane-neq-full-run"
                    if len(planes) == 1 and nfp:
                        key = "single-explicit-plane-with-ensemble-neq-truncated-run" if p < nslices - 1 else key
                ok, why = _close(got, exp)
                if not ok:
                    ctx.violation(key + (":config>0" if ci > 0 else ""), c,
                                  {"plane": p, "config": ci, "what": why, "case": tag, "exit_planes": planes})
                    return
        # thickness axis
        if len(planes) > 1:
            ax = [a for a in res.ensemble_axes_metadata if type(a).__name__ == "ThicknessAxis"]
            cum = np.cumsum(thick_all)
            exp_t = [0.0 if p == -1 else float(cum[p]) for p in planes]
            if len(ax) != 1 or [float(v) for v in ax[0].values] != exp_t:
                ctx.violation("thickness-axis-neq-cumulative-thickness", c,
                              {"axis": [float(v) for v in ax[0].values] if ax else None, "expected": exp_t})

    def conformance(self, ctx: Ctx):
        for i in range(ctx.n(72, 800)):
            c = gen_numeric(ctx, frozen=(i % 3 == 2), single=(i % 6 == 5), malformed=(i % 8 == 7), window=(i % 12 == 4))
            try:
                self.oracle(ctx, c)
            except Exception as e:  # noqa
                ctx.violation("thickness-series-run-raises:" + type(e).__name__, c, {"error": f"{type(e).__name__}: {e}"[:300]})
            ctx.count(f"numeric:{c['pot']}:{c['builder']}:{c['det']}:{'lazy' if c['lazy'] else 'eager'}:entry={c['entry']}")
            ctx.case(c, nontrivial=c["spec"] is not None)

    def replay(self, ctx: Ctx, case):
        if "atoms" in case:
            try:
                self.oracle(ctx, case)
            except Exception as e:  # noqa
                ctx.violation("thickness-series-run-raises:" + type(e).__name__, case, {"error": f"{type(e).__name__}: {e}"[:300]})


def abtem_potential_of(c, atoms):
    """all slices of one configuration as a PotentialArray, built without exit planes"""
    import abtem

    c2 = dict(c)
    if c["pot"] == "crystal":
        p = _potential(c2, None)
    else:
        c2["pot"] = "atoms"
        p = _potential(c2, None, atoms)
    return p.build(lazy=False)


if __name__ == "__main__":
    sys.exit(run_property(C07()))
