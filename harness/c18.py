"""C18 — chunk computations partition arrays exactly (abtem/core/chunks.py)."""
import itertools
import signal
import sys
from math import prod

import numpy as np

from common import Ctx, LeanDriver, Property, err_kind, list_s, listlist_s, opt_s, run_property


# ----------------------------------------------------------------------------- wire format
def spec_s(c):
    if c is None:
        return "b"
    if isinstance(c, str):
        return "a" if c == "auto" else "s"
    if isinstance(c, tuple):
        return "T" + list_s(c)
    return f"i{c}"


def chunkarg_s(ch):
    if ch is None:
        return "B"
    if isinstance(ch, str):
        return "S"
    if isinstance(ch, tuple):
        return "t:" + "|".join(spec_s(c) for c in ch)
    return f"i{ch}"


def untuple(x):
    if isinstance(x, dict):
        return {k: untuple(v) for k, v in x.items()}
    if isinstance(x, (list, tuple)):
        return [untuple(v) for v in x]
    return x


def retuple_chunks(ch):
    """JSON (lists) -> the python chunks argument (tuples)"""
    if isinstance(ch, list):
        return tuple(tuple(c) if isinstance(c, list) else c for c in ch)
    return ch


class _Alarm(Exception):
    pass


def _on_alarm(sig, frm):
    raise _Alarm()


HANGS = [0]


def guarded(f, *a, seconds=20):
    """run f(*a); ('ok', value) | ('err', kind) | ('hang',).  After the first non-terminating call the time limit drops to
    2 s and after three of them no further call is attempted (the violation is established; the run must stay bounded)"""
    if HANGS[0] >= 3:
        return ("hang",)
    if HANGS[0]:
        seconds = 2
    old = signal.signal(signal.SIGALRM, _on_alarm)
    signal.alarm(seconds)
    try:
        return ("ok", f(*a))
    except _Alarm:
        HANGS[0] += 1
        return ("hang",)
    except Exception as e:  # noqa
        return ("err", err_kind(e))
    finally:
        signal.alarm(0)
        signal.signal(signal.SIGALRM, old)


def canon(r, conv):
    if r[0] == "ok":
        return ["ok", conv(r[1])]
    return list(r)


def ll(v):
    return [[int(x) for x in c] for c in v]


def parse_reply(t, conv):
    if t.startswith("ok "):
        return ["ok", conv(t[3:])]
    if t.startswith("err "):
        return ["err", t[4:]]
    return ["?", t]


def p_ll(s):
    return [] if s == "~" else [[] if t == "_" else [int(x) for x in t.split(",")] for t in s.split(";")]


def p_l(s):
    return [] if s == "_" else [int(x) for x in s.split(",")]


def p_pairs(s):
    return [] if s == "_" else [[int(y) for y in x.split(":")] for x in s.split(",")]


def p_pairs_ll(s):
    return [] if s == "~" else [p_pairs(t) for t in s.split(";")]


# ----------------------------------------------------------------------------- generators
def rand_partition(rng, s):
    """random tuple of positive ints summing to s (s >= 0)"""
    out = []
    while s > 0:
        c = rng.randint(1, s)
        out.append(c)
        s -= c
    return tuple(out)


def gen_spec(rng, s, valid_only=False):
    r = rng.random()
    if valid_only:
        if r < 0.4:
            return "auto"
        if r < 0.7:
            return rng.randint(1, max(1, s + 2))
        if r < 0.8:
            return -1
        return rand_partition(rng, s)
    if r < 0.30:
        return "auto"
    if r < 0.55:
        return rng.randint(1, max(1, abs(s) + 2))
    if r < 0.63:
        return -1
    if r < 0.67:
        return 0
    if r < 0.71:
        return rng.randint(-4, -2)
    if r < 0.86:
        return rand_partition(rng, max(s, 0))
    if r < 0.89:
        return tuple(rng.randint(-2, 5) for _ in range(rng.randint(0, 3)))
    if r < 0.92:  # sums to the dimension but contains a negative (or zero) entry
        k = rng.randint(0, 3)
        t = list(rand_partition(rng, max(s, 0) + k)) + [-k]
        rng.shuffle(t)
        return tuple(t)
    if r < 0.95:
        return ()
    if r < 0.98:
        return "foo"
    return None


def gen_validate_case(ctx: Ctx, valid_only=False):
    rng = ctx.rng
    nd = rng.choice([0, 1, 1, 2, 2, 2, 3, 3, 4])
    big = rng.random() < 0.15
    shape = tuple((rng.randint(1, 60) if big else rng.randint(1, 9)) if (valid_only or rng.random() < 0.9)
                  else rng.choice([0, 0, 0, -1, -3]) for _ in range(nd))
    r = rng.random()
    if r < 0.62 or valid_only and r < 0.8:
        n = nd if (valid_only or rng.random() < 0.93) else max(0, nd + rng.choice([-1, 1]))
        chunks = tuple(gen_spec(rng, shape[i] if i < nd else 3, valid_only) for i in range(n))
    elif r < 0.84:
        chunks = rng.randint(1, 400) if (valid_only or rng.random() < 0.85) else rng.randint(-3, 0)
    elif r < 0.93:
        chunks = -1
    elif r < 0.97:
        chunks = "auto"
    else:
        chunks = None
    if valid_only:
        max_el = rng.choice([1, 2, 3, 5, 8, 16, 50, 200, 5000])
    else:
        max_el = rng.choice(["auto", -3, 0, 1, 2, 3, 5, 8, 16, 50, 200, 5000, rng.randint(1, 100)])
    case = {"kind": "validate", "shape": list(shape), "chunks": untuple(chunks), "max_elements": max_el}
    if rng.random() < 0.25:  # limits given in bytes: "auto" (dask config) or a byte string, with a dtype
        case["max_elements"] = rng.choice(["auto", "100 B", "64 B", "1 kB", "1.5 kB", "2 KiB", "7", "40000 B"])
        case["dtype"] = rng.choice(["float32", "complex64", "float64", "complex128", None if not valid_only else "float32"])
    return case


def small_exhaustive():
    """every 1-2 dimensional shape with sizes 0..4 x integer / auto chunk mixes x a few limits"""
    specs = [-1, 0, 1, 2, 3, 5, "auto"]
    for nd in (1, 2):
        for shape in itertools.product(range(0, 5), repeat=nd):
            for chunks in itertools.product(specs, repeat=nd):
                for m in (0, 1, 2, 4, 7, 30):
                    yield {"kind": "validate", "shape": list(shape), "chunks": list(chunks), "max_elements": m}
            for c in (-1, 0, 1, 2, 3, 6, 30):
                yield {"kind": "validate", "shape": list(shape), "chunks": c, "max_elements": "auto"}


def gen_esc_case(ctx: Ctx, valid_only=False):
    rng = ctx.rng
    n = rng.randint(1, 200) if valid_only else rng.choice([0, rng.randint(-6, 40), rng.randint(1, 300)])
    which = rng.random()
    m = cs = None
    if which < 0.5:
        m = rng.randint(1, n) if valid_only else rng.randint(-3, max(n, 1) + 3)
    elif which < 0.95 or valid_only:
        cs = rng.randint(1, n + 3) if valid_only else rng.randint(-3, abs(n) + 4)
    elif which < 0.975:
        m, cs = rng.randint(1, 5), rng.randint(1, 5)
    return {"kind": "esc", "n": n, "m": m, "cs": cs, "start": rng.randint(-5, 20)}


def gen_ranges_case(ctx: Ctx, valid_only=False):
    rng = ctx.rng
    nd = rng.randint(0, 3)
    chunks = []
    for _ in range(nd):
        if valid_only or rng.random() < 0.8:
            chunks.append(list(rand_partition(rng, rng.randint(1, 12))))
        else:
            chunks.append([rng.randint(-3, 5) for _ in range(rng.randint(0, 4))])
    return {"kind": "ranges", "chunks": chunks}


# ----------------------------------------------------------------------------- implementation drivers
def np_dtype(case):
    return None if case.get("dtype") is None else np.dtype(case["dtype"])


def impl_validate(case):
    from abtem.core.chunks import validate_chunks

    return canon(guarded(validate_chunks, tuple(case["shape"]), retuple_chunks(case["chunks"]), case["max_elements"], np_dtype(case)), ll)


def limit_of(case):
    """the element limit the code derives from max_elements (None when it raises before using it)"""
    from dask.utils import parse_bytes

    from abtem.core import config

    m = case["max_elements"]
    if isinstance(m, int):
        return m
    item = np.dtype(np_dtype(case)).itemsize
    if m == "auto":
        return None if case.get("dtype") is None else parse_bytes(config.get("dask.chunk-size")) // item
    return parse_bytes(m) // item


def impl_esc(case):
    from abtem.core.chunks import equal_sized_chunks

    return canon(guarded(equal_sized_chunks, case["n"], case["m"], case["cs"]), lambda v: [int(x) for x in v])


def impl_gen(case):
    from abtem.core.chunks import generate_chunks

    return canon(guarded(lambda: list(generate_chunks(case["n"], case["m"], case["cs"], case["start"]))),
                 lambda v: [[int(a), int(b)] for a, b in v])


def impl_ranges(case):
    from abtem.core.chunks import chunk_ranges

    ch = tuple(tuple(c) for c in case["chunks"])
    return canon(guarded(chunk_ranges, ch), lambda v: [[[int(a), int(b)] for a, b in d] for d in v])


def impl_iter(case):
    from abtem.core.chunks import iterate_chunk_ranges

    ch = tuple(tuple(c) for c in case["chunks"])
    return canon(guarded(lambda: list(iterate_chunk_ranges(ch))),
                 lambda v: [[[int(i) for i in idx], [[int(s.start), int(s.stop)] for s in sl]] for idx, sl in v])


def line_validate(case):
    from dask.utils import parse_bytes

    from abtem.core import config

    m = case["max_elements"]
    if isinstance(m, str):
        item = np.dtype(np_dtype(case)).itemsize  # np.dtype(None) is float64, as in the code
        if m == "auto":
            m = "none" if case.get("dtype") is None else f"A{parse_bytes(config.get('dask.chunk-size'))}:{item}"
        else:
            m = f"S{parse_bytes(m)}:{item}"
    return f"validate {list_s(case['shape'])} {chunkarg_s(retuple_chunks(case['chunks']))} {m}"


# ----------------------------------------------------------------------------- property
class C18(Property):
    id = "C18"
    props_file = "AbtemVerif/Props/C18.lean"
    drive_file = "AbtemVerif/Drive/C18.lean"
    trusted = [
        "hand model `Model/Chunks.lean` of the control flow of validate_chunks / _auto_chunks / fill_in_chunk_sizes / "
        "equal_sized_chunks / generate_chunks / chunk_ranges around the generated arithmetic (tied by exact correspondence, "
        "a seeded third of all 1-2 dimensional shapes with sizes 0..4 at the quick tier, all of them at the thorough tier, plus random cases, error kinds included)",
        "the `_auto_chunks` round-robin loop is modelled as a zipper over the auto dimensions (cursor j = length of the visited "
        "prefix; the product over all dimensions is F * product over the auto dimensions)",
        "Python int semantics of // and % (floor division; ZeroDivisionError modelled explicitly), arbitrary-precision ints",
    ]
    assumptions = ["dask.utils.parse_bytes and abtem config lookups are trusted: byte budgets reach the model as the parsed byte count and the dtype itemsize"]
    rule = ("validate_chunks cases: random shapes (0-4 dims), chunk arguments (ints incl. -1/0/negative, 'auto', other strings, None, "
            "tuples mixing ints/'auto'/explicit tuples/empty tuples/None, length mismatches) and limits, plus the small grid (all 1-2 dimensional shapes with sizes 0..4: a seeded third at the quick tier, all at thorough); "
            "equal_sized_chunks/generate_chunks/chunk_ranges/iterate_chunk_ranges cases: random ints incl. zero/negative; "
            "distinct = distinct case JSON; non-trivial = the call returns chunks (not an exception)")

    # -- unit correspondence -------------------------------------------------------
    def correspondence(self, ctx: Ctx):
        drv = LeanDriver(self.drive_file)
        cases = []
        ex = list(small_exhaustive())
        if not ctx.thorough:  # a seeded third of the exhaustive grid per quick run (all of it in thorough)
            ctx.rng.shuffle(ex)
            ex = ex[: len(ex) // 3]
        cases += ex
        cases += [gen_validate_case(ctx) for _ in range(ctx.n(1500, 30000))]
        cases += [gen_esc_case(ctx) for _ in range(ctx.n(600, 10000))]
        cases += [gen_ranges_case(ctx) for _ in range(ctx.n(200, 3000))]
        lines, plan = [], []
        for c in cases:
            if c["kind"] == "validate":
                lines.append(line_validate(c)); plan.append((c, "validate_chunks", p_ll, impl_validate))
            elif c["kind"] == "esc":
                lines.append(f"esc {c['n']} {opt_s(c['m'])} {opt_s(c['cs'])}"); plan.append((c, "equal_sized_chunks", p_l, impl_esc))
                lines.append(f"gen {c['n']} {opt_s(c['m'])} {opt_s(c['cs'])} {c['start']}"); plan.append((c, "generate_chunks", p_pairs, impl_gen))
            else:
                lines.append(f"ranges {listlist_s(c['chunks'])}"); plan.append((c, "chunk_ranges", p_pairs_ll, impl_ranges))
                lines.append(f"iter {listlist_s(c['chunks'])}"); plan.append((c, "iterate_chunk_ranges", None, impl_iter))
        outs = drv.query(lines)
        seen = set()
        for (c, name, conv, impl), out in zip(plan, outs):
            got = impl(c)
            if name == "iterate_chunk_ranges":
                model = ["ok", [] if out == "ok ~" else [[p_l(b.split("|")[0]), p_pairs(b.split("|")[1])] for b in out[3:].split("/")]]
            else:
                model = parse_reply(out, conv)
            ctx.agree(name, c, model, got)
            ctx.count(f"{name}:{got[0] if got[0] != 'err' else 'err-' + got[1]}")
            if id(c) not in seen:
                seen.add(id(c))
                ctx.case(c, nontrivial=got[0] == "ok")
        ctx.traces += len(cases)

    # -- conformance: the property's conclusions on the implementation ----------------
    def oracle(self, ctx: Ctx, c):
        from abtem.core.chunks import (chunk_ranges, equal_sized_chunks, generate_chunks, iterate_chunk_ranges, validate_chunks)

        if c["kind"] == "validate":
            shape = tuple(c["shape"]); chunks = retuple_chunks(c["chunks"]); m = c["max_elements"]
            r = guarded(validate_chunks, shape, chunks, m)
            if r[0] == "hang":
                ctx.violation("validate-chunks-does-not-terminate", c, {"observed": "no result within 20 s"}); return
            tup = isinstance(chunks, tuple)
            specs = list(chunks) if tup else ["auto"] * len(shape)
            limit = (limit_of(c) if isinstance(m, str) else m) if tup else chunks
            r = guarded(validate_chunks, shape, chunks, m, np_dtype(c))
            well_formed = (all(s >= 1 for s in shape) and (not tup or len(chunks) == len(shape)) and isinstance(limit, int) and (tup or chunks >= 1)
                           and all(c_ == "auto" or c_ == -1 or (isinstance(c_, int) and c_ >= 1)
                                   or (isinstance(c_, tuple) and len(c_) > 0 and all(x >= 1 for x in c_) and sum(c_) == s)
                                   for s, c_ in zip(shape, specs)))
            has_auto = any(c_ == "auto" for c_ in specs)
            if chunks == -1:
                well_formed, has_auto, specs = all(s >= 1 for s in shape), False, [-1] * len(shape)
            if r[0] == "ok":
                v = r[1]
                if len(v) != len(shape) or any(sum(cc) != s for cc, s in zip(v, shape)):
                    ctx.violation("validated-chunks-do-not-sum-to-shape", c, {"observed": ll(v), "shape": list(shape)})
                if any(x < 0 for cc in v for x in cc):
                    ctx.violation("validated-chunks-contain-negative-size", c, {"observed": ll(v)})
                elif len(v) == len(shape):  # the ranges of whatever was validated tile the array exactly once
                    hits = np.zeros(tuple(sum(cc) for cc in v), dtype=int)
                    for _, sl in iterate_chunk_ranges(v):
                        hits[sl] += 1
                    if hits.size and not (hits == 1).all():
                        ctx.violation("validated-chunk-ranges-not-exact-cover", c, {"observed": ll(v)})
                if well_formed and any(x < 1 for cc in v for x in cc):
                    ctx.violation("validated-chunks-not-positive", c, {"observed": ll(v)})
                if well_formed and guarded(validate_chunks, shape, v)[1:] != (v,):
                    ctx.violation("validated-chunks-not-idempotent", c, {"observed": ll(v)})
            if well_formed:
                # nominal budget of the fixed dimensions (what the code uses: the int c itself) and the budget of the blocks
                # they really produce (min(c, s)); between the two the code refuses although a fitting chunking exists
                nominal = prod((s if c_ == -1 else c_ if isinstance(c_, int) else max(c_)) for s, c_ in zip(shape, specs) if c_ != "auto")
                actual = prod((s if c_ == -1 else min(c_, s) if isinstance(c_, int) else max(c_)) for s, c_ in zip(shape, specs) if c_ != "auto")
                if r[0] != "ok" and (not has_auto or nominal <= limit):
                    ctx.violation("valid-chunk-spec-rejected", c, {"observed": list(r)})
                elif r[0] != "ok" and actual <= limit:
                    ctx.count("oracle:rejected-in-nominal-window")  # disclosed: 'valid chunking exists' is judged on the nominal sizes
                    if r[1] != "runtime_error":
                        ctx.violation("nominal-window-unexpected-error", c, {"observed": list(r)})
                if r[0] == "ok" and has_auto and actual <= limit and prod(max(cc) for cc in r[1]) > limit:
                    ctx.violation("auto-chunks-exceed-limit", c, {"observed": ll(r[1]), "limit": limit})
        elif c["kind"] == "esc":
            n, m, cs, start = c["n"], c["m"], c["cs"], c["start"]
            r = guarded(equal_sized_chunks, n, m, cs)
            valid = n >= 1 and ((m is not None and cs is None and 1 <= m <= n) or (m is None and cs is not None and cs >= 1))
            if valid:
                k = m if m is not None else -(-n // cs)
                if r[0] != "ok":
                    ctx.violation("equal-sized-chunks-rejects-valid-input", c, {"observed": list(r)})
                else:
                    v = [int(x) for x in r[1]]
                    if len(v) != k or sum(v) != n or max(v) - min(v) > 1 or min(v) < 1 or (cs is not None and max(v) > cs):
                        ctx.violation("equal-sized-chunks-wrong", c, {"observed": v, "expected_len": k})
                    g = guarded(lambda: list(generate_chunks(n, m, cs, start)))
                    ok = g[0] == "ok" and len(g[1]) == len(v) and all(b - a == w for (a, b), w in zip(g[1], v)) and \
                        all(g[1][i][1] == g[1][i + 1][0] for i in range(len(v) - 1)) and g[1][0][0] == start and g[1][-1][1] == start + n
                    if not ok:
                        ctx.violation("generate-chunks-not-contiguous-cover", c, {"observed": untuple(g[1:]), "chunks": v})
            elif r[0] == "ok" and sum(r[1]) != n:
                ctx.violation("equal-sized-chunks-sum-wrong", c, {"observed": [int(x) for x in r[1]]})
        else:
            ch = tuple(tuple(x) for x in c["chunks"])
            valid = all(x >= 0 for cc in ch for x in cc)
            r = guarded(chunk_ranges, ch)
            if r[0] != "ok":
                ctx.violation("chunk-ranges-raises", c, {"observed": list(r)}); return
            for cc, rr in zip(ch, r[1]):
                bad = len(rr) != len(cc) or any(b - a != w for (a, b), w in zip(rr, cc)) or \
                    any(rr[i][1] != rr[i + 1][0] for i in range(len(rr) - 1)) or (len(rr) > 0 and (rr[0][0] != 0 or rr[-1][1] != sum(cc)))
                if bad:
                    ctx.violation("chunk-ranges-not-contiguous-cover", c, {"observed": untuple(r[1])}); return
            if valid and len(ch) > 0:
                shape = tuple(sum(cc) for cc in ch)
                hits = np.zeros(shape, dtype=int)
                blocks = list(iterate_chunk_ranges(ch))
                for idx, sl in blocks:
                    hits[sl] += 1
                    if hits[sl].shape != tuple(cc[i] for cc, i in zip(ch, idx)):
                        ctx.violation("iterate-chunk-ranges-block-shape", c, {"block": list(idx)}); return
                if not (hits == 1).all() or len(blocks) != prod(len(cc) for cc in ch):
                    ctx.violation("iterate-chunk-ranges-not-exact-cover", c, {"hits": hits.tolist()})

    def conformance(self, ctx: Ctx):
        for _ in range(ctx.n(1500, 30000)):
            c = gen_validate_case(ctx, valid_only=ctx.rng.random() < 0.7)
            self.oracle(ctx, c); ctx.case(c)
        for _ in range(ctx.n(500, 10000)):
            c = gen_esc_case(ctx, valid_only=ctx.rng.random() < 0.7)
            self.oracle(ctx, c); ctx.case(c)
        for _ in range(ctx.n(200, 4000)):
            c = gen_ranges_case(ctx, valid_only=ctx.rng.random() < 0.7)
            self.oracle(ctx, c); ctx.case(c)

    def replay(self, ctx: Ctx, case):
        self.oracle(ctx, case)


if __name__ == "__main__":
    sys.exit(run_property(C18()))
