"""C22 — Cartesian and polar aberration conversions describe the same aberration (abtem/transfer.py).

Correspondence: Float twins of every assignment of polar2cartesian / cartesian2polar against the real functions.
Conformance: chi of cartesian2polar(polar2cartesian(p)) == chi of p on the real code, with chi evaluated both by an independent
numpy statement of the polar expansion and by the real Aberrations kernel.
"""
import math
import sys

import numpy as np

from c21 import chi_spec
from c23 import SCALE, arr, bl, precision
from c24 import bits, fx, ufx, unbits
from common import Ctx, LeanDriver, Property, run_property

POLAR12 = ["C10", "C12", "phi12", "C21", "phi21", "C23", "phi23", "C30", "C32", "phi32", "C34", "phi34"]
CART = ["C10", "C12a", "C12b", "C21a", "C21b", "C23a", "C23b", "C30", "C32a", "C32b", "C34a", "C34b"]


def gen_polar(rng):
    """random subset of the supported coefficients: negative magnitudes, zero angles, missing keys, angle multiples of pi/2m"""
    out = {}
    for s in POLAR12:
        r = rng.random()
        if s.startswith("phi"):
            if r < 0.25:
                continue
            out[s] = rng.choice([0.0, rng.uniform(-math.pi, math.pi), rng.uniform(-math.pi, math.pi), rng.randint(-4, 4) * math.pi / 4,
                                 rng.uniform(-10, 10)])
        else:
            if r < 0.2:
                continue
            out[s] = rng.choice([rng.uniform(-1, 1), rng.uniform(-1, 1), -abs(rng.uniform(0.1, 1)), 0.0, 1.0]) * SCALE[int(s[1])]
    return out


def close(a, b, tol=1e-11):
    return abs(a - b) <= tol * (1 + max(abs(a), abs(b)))


class C22(Property):
    id = "C22"
    props_file = "AbtemVerif/Props/C22.lean"
    drive_file = "AbtemVerif/Drive/C22.lean"
    trusted = [
        "py2lean translation of every assignment of polar2cartesian / cartesian2polar (dict subscripts -> record fields); the Float twins "
        "are executed against the real functions every run (1e-11 relative)",
        "glue: the two dicts as records, a key missing from the defaultdict = 0 (tied by correspondence on dicts with missing keys)",
        "numpy arctan2(y, x) = Complex.arg (x + i y) (incl. arctan2(0, 0) = 0, arctan2(0, negative) = pi); real-number semantics",
    ]
    assumptions = ["scalar coefficients; the chi accumulation statements are those of C21 (generated from the same source)"]
    rule = ("random subsets of the 12 supported polar coefficients (negative / zero / unit magnitudes, zero, random, large and pi/4-multiple "
            "angles, missing keys) and random Cartesian dicts (incl. zeros and axis-aligned pairs); distinct = distinct case JSON; "
            "non-trivial = at least one non-rotationally-symmetric coefficient present")

    def correspondence(self, ctx: Ctx):
        from abtem.transfer import cartesian2polar, polar2cartesian

        rng = ctx.rng
        drv = LeanDriver(self.drive_file)
        pc = [dict(kind="p2c", polar={k: fx(v) for k, v in gen_polar(rng).items()}) for _ in range(ctx.n(250, 5000))]
        cc = []
        for _ in range(ctx.n(250, 5000)):
            d = {}
            for s in CART:
                if rng.random() < 0.8:
                    d[s] = fx(rng.choice([rng.uniform(-1, 1), rng.uniform(-1, 1), 0.0, -0.0, 1.0, -1.0]) * SCALE[int(s[1])])
            cc.append(dict(kind="c2p", cartesian=d))
        lines = ["p2c 1,2,3", "c2p _", "zzz"]
        lines += ["p2c " + bl([ufx(c["polar"].get(s, fx(0.0))) for s in POLAR12]) for c in pc]
        lines += ["c2p " + bl([ufx(c["cartesian"].get(s, fx(0.0))) for s in CART]) for c in cc]
        outs = drv.query(lines)
        for o in outs[:3]:
            ctx.agree("driver rejects malformed requests", "malformed", o, "bad-op")
        k = 3
        for c in pc:
            got = polar2cartesian({s: ufx(v) for s, v in c["polar"].items()})
            model = [unbits(b) for b in outs[k].split()[1].split(",")]
            k += 1
            ok = list(got.keys()) == CART and all(close(m, float(got[s])) for m, s in zip(model, CART))
            ctx.agree("polar2cartesian (generated Float twin vs Python)", c, model, [float(got[s]) for s in CART] if list(got.keys()) == CART else list(got.keys()), ok=ok)
            ctx.count("p2c:keys=%d" % len(c["polar"]))
            ctx.case(c, nontrivial=any(s in c["polar"] for s in ("C12", "C21", "C23", "C32", "C34")))
        for c in cc:
            got = cartesian2polar({s: ufx(v) for s, v in c["cartesian"].items()})
            model = [unbits(b) for b in outs[k].split()[1].split(",")]
            k += 1
            ok = list(got.keys()) == POLAR12 and all(close(m, float(got[s])) for m, s in zip(model, POLAR12))
            ctx.agree("cartesian2polar (generated Float twin vs Python)", c, model, [float(got[s]) for s in POLAR12] if list(got.keys()) == POLAR12 else list(got.keys()), ok=ok)
            ctx.count("c2p:keys=%d" % len(c["cartesian"]))
            ctx.case(c, nontrivial=len(c["cartesian"]) > 2)
        ctx.traces += len(pc) + len(cc)

    def oracle(self, ctx: Ctx, c):
        from abtem import transfer as tr

        p = {s: ufx(v) for s, v in c["polar"].items()}
        alpha = arr(c["alpha"], (3, 4))
        phi = arr(c["phi"], (3, 4))
        cart = tr.polar2cartesian(dict(p))
        q = {s: float(v) for s, v in tr.cartesian2polar(dict(cart)).items()}
        if sorted(q) != sorted(POLAR12) or sorted(cart) != sorted(CART):
            return ctx.violation("conversion-key-sets-changed", c, {"polar": sorted(q), "cartesian": sorted(cart)})
        a, b = chi_spec(q, alpha, phi), chi_spec(p, alpha, phi)
        scale = 1e-300 + sum(abs(p.get(s, 0.0)) * 0.03 ** (int(s[1]) + 1) for s in POLAR12 if not s.startswith("phi"))
        if not (np.abs(a - b).max() <= 1e-9 * scale):
            return ctx.violation("roundtrip-changes-the-aberration-function", c,
                                 {"max_abs_diff": float(np.abs(a - b).max()), "scale": scale, "roundtrip": q})
        with precision("float64"):
            ka = np.asarray(tr.Aberrations(aberration_coefficients=q, energy=1e5)._evaluate_from_angular_grid(alpha, phi))
            kb = np.asarray(tr.Aberrations(aberration_coefficients=p, energy=1e5)._evaluate_from_angular_grid(alpha, phi))
        if not (np.abs(ka - kb).max() <= 1e-7):
            return ctx.violation("roundtrip-changes-the-transfer-function", c, {"max_abs_diff": float(np.abs(ka - kb).max())})
        # the other direction on the real code: cartesian -> polar -> cartesian reproduces the Cartesian coefficients
        c2 = tr.polar2cartesian(tr.cartesian2polar(dict(cart)))
        for s in CART:
            sc = 1e-300 + max(abs(float(cart[k])) for k in CART if k[:3] == s[:3])
            if not (abs(float(c2[s]) - float(cart[s])) <= 1e-9 * sc):
                return ctx.violation("cartesian-roundtrip-changes-a-coefficient", c, {"symbol": s, "before": float(cart[s]), "after": float(c2[s])})
        # a second round trip is a fixed point of the representation (magnitude signs normalised)
        q2 = {s: float(v) for s, v in tr.cartesian2polar(tr.polar2cartesian(dict(q))).items()}
        for s in ("C10", "C12", "C21", "C23", "C30", "C32", "C34"):
            if not close(q2[s], q[s], 1e-9):
                return ctx.violation("second-roundtrip-changes-magnitudes", c, {"symbol": s, "first": q[s], "second": q2[s]})

    def gen_conf(self, ctx: Ctx):
        rng = ctx.rng
        return dict(check="roundtrip", polar={k: fx(v) for k, v in gen_polar(rng).items()},
                    alpha=[fx(rng.uniform(0, 0.03)) for _ in range(12)], phi=[fx(rng.uniform(-math.pi, math.pi)) for _ in range(12)])

    def conformance(self, ctx: Ctx):
        for _ in range(ctx.n(400, 8000)):
            c = self.gen_conf(ctx)
            self.oracle(ctx, c)
            ctx.case(c, nontrivial=any(s in c["polar"] for s in ("C12", "C21", "C23", "C32", "C34")))
        # single-coefficient cases: each non-symmetric aberration alone, negative magnitude, zero / missing angle
        for s, a in (("C12", "phi12"), ("C21", "phi21"), ("C23", "phi23"), ("C32", "phi32"), ("C34", "phi34")):
            for mag in (-1.0, 1.0):
                for ang in (None, 0.0, 0.7, -2.5):
                    c = self.gen_conf(ctx)
                    c["polar"] = {s: fx(mag * SCALE[int(s[1])])}
                    if ang is not None:
                        c["polar"][a] = fx(ang)
                    self.oracle(ctx, c)
                    ctx.count(f"single:{s}:{'neg' if mag < 0 else 'pos'}:{'noangle' if ang is None else 'zero' if ang == 0 else 'angle'}")
                    ctx.case(c, nontrivial=True)

    def replay(self, ctx: Ctx, case):
        if case.get("check") == "roundtrip":
            return self.oracle(ctx, case)
        if case.get("kind") == "p2c":
            c = self.gen_conf(ctx)
            c["polar"] = case["polar"]
            return self.oracle(ctx, c)
        for _ in range(200):
            self.oracle(ctx, self.gen_conf(ctx))


if __name__ == "__main__":
    sys.exit(run_property(C22()))
