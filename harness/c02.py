"""C02 — a frozen-phonon ensemble equals independent per-configuration simulations."""
import sys

import numpy as np

import dask

dask.config.set(scheduler="synchronous")  # tiny arrays: threads only add overhead (scheduler independence is C01's subject)

from common import (Ctx, LeanDriver, Property, bool_s, dyadic, err_kind, list_s, listlist_s, run_property)
from msd_trace import Tracer, entry_s, expected_ids, tagged_potential_array, tagged_waves


# ----------------------------------------------------------------------------- helpers
def _atoms(c):
    import ase

    return ase.Atoms(numbers=[a[0] for a in c["atoms"]], positions=[a[1:] for a in c["atoms"]],
                     cell=(4.0, 4.0, float(c["nslices"])))


def _sigmas(c):
    """scalar sigma, or one sigma per element (dict keyed by chemical symbol)"""
    if c.get("sigma_mode") == "per-element":
        from ase.data import chemical_symbols
        return {chemical_symbols[z]: c["sigma"] * (1 + 0.5 * i) for i, z in enumerate(sorted({a[0] for a in c["atoms"]}))}
    if c.get("sigma_mode") == "per-atom":
        return [c["sigma"] * (1 + 0.25 * i) for i in range(len(c["atoms"]))]
    if c.get("sigma_mode") == "anisotropic":
        return (c["sigma"], 0.5 * c["sigma"], 1.5 * c["sigma"])
    return c["sigma"]


def _seeds(c):
    """the seed tuple of the case; with `seed_mode == "int"` the ensemble is given ONE integer and derives the tuple itself"""
    import abtem

    if c.get("seed_mode") == "int":
        return tuple(int(s) for s in abtem.FrozenPhonons(_atoms(c), len(c["seeds"]), 0.1, seed=int(c["seeds"][0])).seed)
    return tuple(c["seeds"])


def _ensemble(c, ensemble_mean=False):
    """the frozen-phonon object of a case: FrozenPhonons (seeded) or AtomsEnsemble (explicit trajectory)"""
    import abtem

    seed = int(c["seeds"][0]) if c.get("seed_mode") == "int" else tuple(c["seeds"])
    fp = abtem.FrozenPhonons(_atoms(c), len(c["seeds"]), _sigmas(c), seed=seed, ensemble_mean=ensemble_mean,
                             directions=c.get("directions", "xyz"))
    if c["kind"] == "atoms_ensemble":
        return abtem.AtomsEnsemble(list(fp), ensemble_mean=ensemble_mean)
    return fp


def _single_atoms(c, k):
    """configuration k built independently of any ensemble code path: one seed, one rng"""
    import abtem

    one = abtem.FrozenPhonons(_atoms(c), 1, _sigmas(c), seed=(_seeds(c)[k],), directions=c.get("directions", "xyz"))
    return one.randomize(one.atoms)


def _potential(c, atoms, spec="case"):
    import abtem

    spec = c["spec"] if spec == "case" else spec
    spec = tuple(spec) if isinstance(spec, list) else spec
    return abtem.Potential(atoms, gpts=c["gpts"], slice_thickness=1.0, exit_planes=spec)


def gen_case(ctx: Ctx, stratum=-1):
    rng = ctx.rng
    n = rng.randint(1, 4)
    ncfg = rng.choice([1, 2, 2, 3, 4])
    atoms = [[rng.choice([6, 14, 29]), dyadic(rng, 0.25, 3.5, 3), dyadic(rng, 0.25, 3.5, 3), j + 0.5] for j in range(n)]
    for _ in range(rng.randint(0, 2)):
        atoms.append([rng.choice([6, 14]), dyadic(rng, 0.25, 3.5, 3), dyadic(rng, 0.25, 3.5, 3), round(rng.uniform(0.2, n - 0.2), 3)])
    kind = rng.choice(["int", "tuple", "none", "none"])
    if kind == "none":
        spec = None
    elif kind == "int":
        spec = rng.randint(1, n + 1)
    else:
        planes = sorted(rng.sample(range(n), rng.randint(1, n)))
        spec = ([-1] if rng.random() < 0.5 else []) + planes
    seeds = rng.sample(range(1, 10 ** 6), ncfg)
    builder = rng.choice(["plane", "probe", "probe", "prism"])
    det = rng.choice(["waves", "pixelated"] if builder == "plane" else ["pixelated", "annular"] if builder == "prism"
                     else ["waves", "annular", "flexible", "pixelated"])
    scan = [[dyadic(rng, 0, 3.5, 2), dyadic(rng, 0, 3.5, 2)] for _ in range(rng.randint(1, 2))] if builder != "plane" else None
    if builder == "prism":
        kind, spec = "none", None  # SMatrix (abtem/prism/s_matrix.py): one exit plane
    # entry state: how the incident waves reach multislice_and_detect — through the builder API, or as a Waves object in
    # real / reciprocal space; which algorithm (step kernel) runs the slices
    entry = "builder" if builder == "prism" else rng.choice(["builder", "real", "reciprocal", "reciprocal"])
    algorithm = "fourier" if builder == "prism" else rng.choice(["fourier", "fourier", "fourier-conjugate"]) if not (ctx.thorough and rng.random() < 0.06) else "realspace"  # (the real-space kernel costs a long JIT compilation per process; quick tier exercises it traced only)
    lazy = rng.random() < 0.5
    kind_e = rng.choice(["frozen", "frozen", "atoms_ensemble"])
    # strata (deterministic part of the design): the regions where the loop's entry state and the ensemble bookkeeping meet
    if stratum == 0 and builder != "prism":      # eager, incident waves handed over in reciprocal space, several configurations
        lazy, entry = False, "reciprocal"
        seeds = rng.sample(range(1, 10 ** 6), rng.randint(2, 3))
    elif stratum == 1:                            # lazy, several configurations, seeded ensemble
        lazy, kind_e = True, "frozen"
        seeds = rng.sample(range(1, 10 ** 6), rng.randint(2, 3))
    elif stratum == 2 and builder != "prism":     # eager, several configurations, several exit planes
        lazy = False
        seeds = rng.sample(range(1, 10 ** 6), rng.randint(2, 4))
        spec = [-1, n - 1] if n > 1 else 1
    return dict(seed_mode=rng.choice(["tuple", "tuple", "int", "none"]), sigma_mode=rng.choice(["scalar", "scalar", "per-element", "per-atom", "anisotropic"]),
                entry=entry, algorithm=algorithm,
                nslices=n, atoms=atoms, spec=spec, seeds=seeds, sigma=rng.choice([0.05, 0.1, 0.2]), builder=builder, det=det,
                scan=scan, gpts=rng.choice([8, 12]), lazy=lazy, kind=kind_e,
                mean=(rng.random() < 0.4), directions=rng.choice(["xyz", "xy"]))


def _detector(c):
    import abtem

    return {"waves": None, "pixelated": abtem.PixelatedDetector(max_angle=None),
            "annular": abtem.AnnularDetector(inner=5, outer=30),
            "flexible": abtem.FlexibleAnnularDetector(step_size=10)}[c["det"]]


def _algorithm(c):
    from abtem.multislice import FourierMultislice, RealSpaceMultislice

    a = c.get("algorithm", "fourier")
    if a == "realspace":
        return dict(algorithm=RealSpaceMultislice(order=1, max_terms=30))
    if a == "fourier-conjugate":
        return dict(algorithm=FourierMultislice(conjugate=True))
    return {}


def _run(c, potential, lazy=False, entry=None):
    """one simulation; `entry` (default: the case's) selects how the incident waves reach multislice_and_detect"""
    import abtem

    kw = dict(energy=100e3, extent=4.0, gpts=c["gpts"])
    det = _detector(c)
    entry = c.get("entry", "builder") if entry is None else entry
    akw = _algorithm(c)
    if c["builder"] == "prism":
        if c["det"] == "annular":
            det = abtem.AnnularDetector(inner=5, outer=25)
        r = abtem.SMatrix(potential=potential, energy=100e3, semiangle_cutoff=25, interpolation=1).scan(
            scan=abtem.CustomScan(np.array(c["scan"])), detectors=det, lazy=lazy)
    elif entry == "builder":
        if c["builder"] == "plane":
            r = abtem.PlaneWave(**kw).multislice(potential, detectors=det, lazy=lazy, **akw)
        else:
            r = abtem.Probe(semiangle_cutoff=30, **kw).multislice(potential, scan=abtem.CustomScan(np.array(c["scan"])),
                                                                  detectors=det, lazy=lazy, **akw)
    else:
        if c["builder"] == "plane":
            w = abtem.PlaneWave(**kw).build(lazy=False)
        else:
            w = abtem.Probe(semiangle_cutoff=30, **kw).build(scan=abtem.CustomScan(np.array(c["scan"])), lazy=False)
        if entry == "reciprocal":
            w = w.ensure_reciprocal_space()
        if lazy:
            w = w.ensure_lazy()
        r = w.multislice(potential, detectors=det, **akw)
    return r.compute(progress_bar=False) if lazy else r


class LazyRaises(Exception):
    pass


def _run_defer(ctx, c, potential):
    """run in the case's evaluation mode; a lazy run that raises although the eager run succeeds is reported (it is also a
    lazy/eager discrepancy in the sense of C01)"""
    if not c["lazy"]:
        return _run(c, potential)
    try:
        return _run(c, potential, lazy=True)
    except Exception as e:  # noqa
        _run(c, potential, lazy=False)  # raises as well -> reported as a failing run by the caller
        raise LazyRaises(f"{type(e).__name__}: {e}"[:200])


def _close(a, b):
    a = np.asarray(a)
    b = np.asarray(b)
    if a.shape != b.shape:
        return False, f"shape {a.shape} vs {b.shape}"
    scale = max(float(np.abs(b).max()), 1e-12)
    d = float(np.abs(a - b).max())
    return d <= 2e-5 * scale, f"max|diff|={d:.3g} scale={scale:.3g}"


# ----------------------------------------------------------------------------- traced runs
def trace_case(rng):
    n = rng.randint(1, 4)
    ncfg = rng.choice([1, 2, 3, 4])
    kind = rng.choice(["none", "int", "tuple", "tuple"])
    if kind == "none":
        spec = None
    elif kind == "int":
        spec = rng.randint(1, n + 1)
    else:
        spec = ([-1] if rng.random() < 0.5 else []) + sorted(rng.sample(range(n), rng.randint(1, n)))
    # entry state of multislice_and_detect: representation of the incident waves, algorithm (which step kernel)
    return dict(n=n, ncfg=ncfg, spec=spec, mode=rng.choice(["direct", "eager", "lazy"]), batch=rng.choice([[], [2]]),
                pot=rng.choice(["array", "frozen"]), seeds=rng.sample(range(1, 10 ** 6), ncfg),
                recip=rng.random() < 0.5, algorithm=rng.choice(["fourier", "fourier", "realspace"]))


def run_traced(c):
    """real orchestration with the tagging kernel; returns (potential, configs (slice ids), text in driver format)"""
    import abtem
    from abtem.detectors import WavesDetector
    from abtem.multislice import multislice_and_detect

    spec = tuple(c["spec"]) if isinstance(c["spec"], list) else c["spec"]
    tr = Tracer()
    if c["pot"] == "array":
        configs = [[10 * k + j + 1 for j in range(c["n"])] for k in range(c["ncfg"])]
        pot = tagged_potential_array(configs, 4, [1.0] * c["n"], spec, True)
    else:
        cc = dict(nslices=c["n"], atoms=[[14, 0.5 + j * 0.75, 1.0 + 0.5 * j, j + 0.5] for j in range(c["n"])], seeds=c["seeds"],
                  sigma=0.1, kind="frozen", gpts=4, spec=c["spec"])
        pot = abtem.Potential(_ensemble(cc), gpts=4, slice_thickness=1.0, exit_planes=spec)
        configs = []
        for k in range(c["ncfg"]):  # identifiers from independently built single-configuration potentials
            single = abtem.Potential(_single_atoms(cc, k), gpts=4, slice_thickness=1.0)
            configs.append(tr.register_slices(list(single.generate_slices()), 10 * k + 1))
    gp = 4
    recip = bool(c.get("recip", False))
    w = tagged_waves(gp, tuple(c["batch"]), recip=recip)
    if c["pot"] == "frozen":
        w = abtem.waves.Waves(np.ones(tuple(c["batch"]) + (gp, gp), dtype=np.complex64), energy=100e3, extent=4.0,
                              ensemble_axes_metadata=w.ensemble_axes_metadata, reciprocal_space=recip)
    kw = {}
    if c.get("algorithm", "fourier") == "realspace":
        from abtem.multislice import RealSpaceMultislice
        kw["algorithm"] = RealSpaceMultislice()
    try:
        with tr.patched():
            if c["mode"] == "direct":
                arr = multislice_and_detect(w, pot, [WavesDetector()], **kw)[0].array
            else:
                import warnings
                with warnings.catch_warnings():
                    warnings.simplefilter("ignore")
                    if c["mode"] == "lazy":
                        w = w.ensure_lazy()
                    r = w.multislice(pot, detectors=WavesDetector(), **kw)
                    arr = r.compute(progress_bar=False).array if c["mode"] == "lazy" else r.array
        ens_shape, hs = tr.decode(arr)
        nb = int(np.prod(c["batch"])) if c["batch"] else 1
        shape = ens_shape[: len(ens_shape) - len(c["batch"])]
        rows = [hs[i * nb:(i + 1) * nb] for i in range(len(hs) // nb)]
        if any(any(h != r[0] for h in r) for r in rows):
            return pot, configs, "batch members disagree"
        return pot, configs, f"{list_s(shape)} " + ";".join(entry_s(r[0]) for r in rows)
    except Exception as e:  # noqa
        return pot, configs, "err " + err_kind(e)


def model_text(reply):
    t = reply.split()
    if t[0] in ("final", "table"):
        return f"{t[1]} {t[2]}"
    return reply


def lazy_model_text(replies, ncfg):
    """assemble the per-block model outputs of a lazy run (one block per configuration, exit-plane axis kept whole)"""
    parts = []
    inner = None
    for r in replies:
        t = r.split()
        if t[0] not in ("final", "table"):
            return r
        shp = [] if t[1] == "_" else t[1].split(",")
        assert shp[0] == "1"
        inner = shp[1:]
        parts.append(t[2])
    return f"{list_s([ncfg] + inner)} " + ";".join(parts)


class C02(Property):
    id = "C02"
    props_file = "AbtemVerif/Props/C02.lean"
    drive_file = "AbtemVerif/Drive/C02.lean"
    # the supporting lemmas of Lib/Multislice.lean are used by (hence audited through) the property theorems; they are counted
    # and audited on their own in the thorough tier only (a second Mathlib import costs up to a minute on a loaded machine)
    extra_lean = ["AbtemVerif/Lib/Multislice.lean"] if "thorough" in sys.argv else []
    trusted = [
        "tagging kernels of harness/msd_trace.py (history-recording multislice step; slices of atom-built potentials are "
        "identified by content hash against independently built single-configuration potentials)",
        "RNG: numpy default_rng(seed) is a deterministic function of the seed (observed: the same seed gives bit-identical "
        "displacements in every code path; not proved)",
        "NUMPY-INDEXING: `measurements.array[index] = value`; DASK: blockwise calls the block function once per block",
        "hand models `Multislice.multisliceAndDetect` (loops), `Phonons.partitionSeeds/configSeeds` (seed slicing) — tied by "
        "traced / unit correspondence; branch tests generated from source",
        "Lib/Partition (shared list split/flatten lemmas)",
    ]
    assumptions = [
        "step and detect are arbitrary functions (universally quantified); determinism of the numeric kernels is observed "
        "by the numeric oracle",
        "the mean over the ensemble is an arbitrary function `avg : List M → M` of the per-configuration results",
    ]
    rule = ("unit: random seed tuples (1-8) x chunkings (int and explicit) through _partition_args / generate_blocks / list(fp); "
            "traced: tagged PotentialArray ensembles and FrozenPhonons potentials (1-4 configurations, 1-4 slices), direct / "
            "eager API / lazy API; numeric: random atoms, FrozenPhonons / AtomsEnsemble, PlaneWave/Probe x detectors x exit "
            "planes x eager/lazy x ensemble_mean; distinct = distinct case JSON")

    # ------------------------------------------------------------------ correspondence
    def correspondence(self, ctx: Ctx):
        import abtem
        from abtem.core.chunks import validate_chunks

        rng = ctx.rng
        drv = LeanDriver(self.drive_file)
        lines, impls, names, cases = [], [], [], []

        def add(name, line, impl, case, nontrivial=True):
            lines.append(line); impls.append(impl); names.append(name); cases.append((case, nontrivial))

        # seeds through _partition_args / generate_blocks / iteration
        import ase
        base = ase.Atoms("Si2", positions=[(1, 1, 0.5), (2, 3, 1.5)], cell=(4, 4, 2))
        for it in range(ctx.n(60, 600)):
            n = rng.randint(1, 8)
            seeds = rng.sample(range(1, 10 ** 6), n)
            fp = abtem.FrozenPhonons(base, n, 0.1, seed=tuple(seeds))
            if rng.random() < 0.5:
                chunks = rng.randint(1, n + 1)
            else:
                cs, left = [], n
                while left:
                    k = rng.randint(1, left); cs.append(k); left -= k
                chunks = (tuple(cs),)
            vc = validate_chunks((n,), chunks)
            case = dict(seeds=seeds, chunks=list(vc[0]))
            blocks = fp._partition_args(vc, lazy=False)[0]
            impl = listlist_s([[int(s) for s in blk[1]] for blk in blocks])
            add("FrozenPhonons._partition_args", f"part {list_s(vc[0])} {list_s(seeds)}", "ok " + impl, case)
            used = []
            for _, _, blk in fp.generate_blocks(vc):
                sub = blk.item()
                for _, _, one in sub.generate_blocks(1):
                    used.append(int(one.item().seed[0]))
            add("generate_blocks(chunks) -> generate_blocks(1) -> seed[0]", f"cfgseeds {list_s(vc[0])} {list_s(seeds)}",
                "ok " + list_s(used), case)
            lazy_blocks = fp._partition_args(vc, lazy=True)[0].compute()
            add("FrozenPhonons._partition_args(lazy)", f"part {list_s(vc[0])} {list_s(seeds)}",
                "ok " + listlist_s([[int(s) for s in blk[1]] for blk in lazy_blocks]), case)
            ctx.count(f"seeds:n={n}:blocks={len(vc[0])}")
            # AtomsEnsemble slices its trajectory the same way (members identified by their number of atoms)
            traj = [ase.Atoms("H" * (m + 1), positions=[(0.5 * a, 1.0, 0.5) for a in range(m + 1)], cell=(4, 4, 2)) for m in range(n)]
            ae = abtem.AtomsEnsemble(traj)
            blocks = ae._partition_args(vc, lazy=False)[0]
            impl = listlist_s([[len(a) for a in blk.item()] for blk in blocks])
            add("AtomsEnsemble._partition_args", f"part {list_s(vc[0])} {list_s(range(1, n + 1))}", "ok " + impl, case)
            used = [len(a) for a in ae]  # __iter__: generate_blocks(1) -> randomize (identity)
            add("AtomsEnsemble.__iter__", f"cfgseeds {list_s([1] * n)} {list_s(range(1, n + 1))}", "ok " + list_s(used), case)
            # CrystalPotential seeds (one seed per configuration of the crystal)
            if it % 4 == 0:
                from abtem.potentials.iam import CrystalPotential
                unit = abtem.Potential(base, gpts=4, slice_thickness=1.0)
                cp = CrystalPotential(unit, repetitions=(1, 1, 1), seeds=tuple(seeds))
                blocks = cp._partition_args(vc, lazy=False)[0]
                impl = listlist_s([[int(x) for x in blk[1]] for blk in blocks])
                add("CrystalPotential._partition_args", f"part {list_s(vc[0])} {list_s(seeds)}", "ok " + impl, case)
        # traced orchestration
        for i in range(ctx.n(90, 800)):
            c = trace_case(rng)
            pot, configs, text = run_traced(c)
            configs = expected_ids(configs, c["algorithm"])
            planes = list_s(int(p) for p in pot.exit_planes)
            if c["mode"] == "lazy":
                # lazy: MultisliceTransform partitions the ensemble one configuration per block; the model is asked per block
                for k, cfg in enumerate(configs):
                    lines.append(f"msd T {planes} {pot.num_slices} {listlist_s([cfg])} {bool_s(c['recip'])}")
                    impls.append(None); names.append("__block__"); cases.append((c, False))
                add("MultisliceTransform(lazy, traced)", "assemble", text, c)
            else:
                add("multislice_and_detect(traced)" if c["mode"] == "direct" else "Waves.multislice(eager, traced)",
                    f"msd T {planes} {pot.num_slices} {listlist_s(configs)} {bool_s(c['recip'])}", text, c)
            ctx.count(f"trace:{c['pot']}:{c['mode']}:ncfg={c['ncfg']}:recip={c['recip']}:{c['algorithm']}")
            ctx.traces += 1
        real = [l for l in lines if l != "assemble"]
        outs = iter(drv.query(real))
        pending = []
        for name, line, impl, (case, nt) in zip(names, lines, impls, cases):
            if name == "__block__":
                pending.append(next(outs)); continue
            if line == "assemble":
                model = lazy_model_text(pending, case["ncfg"]); pending = []
            else:
                out = next(outs)
                model = model_text(out) if line.startswith("msd") else out
            ctx.agree(name, {"request": line, "case": case}, model, impl)
            ctx.case(case, nontrivial=nt)
        bad = drv.query(["part 1,x 1", "cfgseeds 1", "msd T 1 1", ""])
        ctx.agree("driver rejects malformed requests", bad, bad, ["bad-op"] * 4)

    # ------------------------------------------------------------------ conformance
    def oracle(self, ctx: Ctx, c):
        tag = f"{c['kind']}:{c['builder']}:{c['det']}:{'lazy' if c['lazy'] else 'eager'}:entry={c.get('entry')}:{c.get('algorithm')}"
        if c.get("seed_mode") == "none":
            # seed=None: the ensemble draws its seed tuple at construction; everything else must then be determined by it
            import abtem
            drawn = abtem.FrozenPhonons(_atoms(c), len(c["seeds"]), _sigmas(c), seed=None).seed
            if len(set(int(x) for x in drawn)) != len(c["seeds"]):
                ctx.violation("seed-none-does-not-give-distinct-seeds", c, {"seeds": [int(x) for x in drawn]})
                return
            c = dict(c, seed_mode="tuple", seeds=[int(x) for x in drawn])
        if c.get("coreloss"):
            return self.coreloss(ctx, c, tag)
        ens = _ensemble(c, ensemble_mean=False)
        # (1) configurations are determined by the seeds alone
        confs = [_single_atoms(c, k) for k in range(len(c["seeds"]))]
        for k, a in enumerate(list(ens)):
            if not np.array_equal(a.positions, confs[k].positions):
                ctx.violation("configuration-k-not-determined-by-seed-k", c, {"config": k, "case": tag})
                return
        # (2) ensemble run: configuration k == independent single run through Potential(configuration k)
        res = _run_defer(ctx, c, _potential(c, ens))
        arr = np.asarray(res.array)
        if arr.shape[0] != len(confs):
            ctx.violation("ensemble-axis-length-neq-num-configs", c, {"shape": list(arr.shape), "case": tag})
            return
        singles = []
        for k, a in enumerate(confs):
            one = np.asarray(_run(c, _potential(c, a), entry="builder").array)
            singles.append(one)
            ok, why = _close(arr[k], one)
            if not ok:
                key = "config-k-neq-single-run" + (":k>0" if k > 0 else ":k=0") + (":lazy" if c["lazy"] else ":eager") + \
                    (":reciprocal-incident" if c.get("entry") == "reciprocal" else "")
                ctx.violation(key, c, {"config": k, "what": why, "case": tag})
                return
        # (3) ensemble_mean=True is the mean of the single runs
        if c["mean"]:
            resm = _run_defer(ctx, c, _potential(c, _ensemble(c, ensemble_mean=True)))
            # complex exit waves are never averaged (the ensemble is kept); measurements are averaged over the configurations
            expected = np.stack(singles) if c["det"] == "waves" else np.mean(np.stack(singles), axis=0)
            ok, why = _close(np.asarray(resm.array), expected)
            if not ok:
                ctx.violation(("ensemble-mean-of-waves-neq-stack-of-single-runs" if c["det"] == "waves" else "ensemble-mean-neq-mean-of-single-runs") + (":lazy" if c["lazy"] else ":eager"), c,
                              {"what": why, "case": tag})
                return
        # (4) processing order: reversing the seeds reverses the configurations
        if len(confs) > 1 and c["kind"] == "frozen" and c.get("seed_mode", "tuple") == "tuple":
            c2 = dict(c); c2["seeds"] = list(reversed(c["seeds"]))
            res2 = np.asarray(_run_defer(ctx, c2, _potential(c2, _ensemble(c2))).array)
            ok, why = _close(res2[::-1], arr)
            if not ok:
                ctx.violation("result-depends-on-processing-order", c, {"what": why, "case": tag})

    def coreloss(self, ctx: Ctx, c, tag):
        """the core-loss loop (transition_potential_multislice_and_detect) has its own configuration loop: configuration k of
        an ensemble run == the independent run through configuration k (synthetic transition potential, no GPAW needed)"""
        import abtem
        from abtem.core.axes import OrdinalAxis
        from abtem.inelastic.core_loss import TransitionPotentialArray

        gp = c["gpts"]
        kx = np.fft.fftfreq(gp, 4.0 / gp)
        k2 = kx[:, None] ** 2 + kx[None] ** 2
        z = int(c["atoms"][0][0])

        def tpa():
            arr = np.exp(-k2 / 0.5)[None].astype(np.complex64)
            return TransitionPotentialArray(Z=z, array=arr, energy=100e3, extent=4.0,
                                            ensemble_axes_metadata=[OrdinalAxis(values=("a",))], metadata={"Z": z, "n": 1, "l": 0})

        def run(src, lazy):
            pot = abtem.Potential(src, gpts=gp, slice_thickness=1.0)
            w = abtem.Probe(energy=100e3, semiangle_cutoff=30, extent=4.0, gpts=gp).build(
                scan=abtem.CustomScan(np.array(c["scan"] or [[1.0, 1.5]])), lazy=lazy)
            r = w.transition_potential_multislice(pot, tpa(), detectors=abtem.PixelatedDetector(max_angle=None))
            return np.asarray((r.compute(progress_bar=False) if lazy else r).array)

        singles = [run(_single_atoms(c, k), False) for k in range(len(c["seeds"]))]
        arr = run(_ensemble(c, ensemble_mean=False), c["lazy"])
        for k, one in enumerate(singles):
            ok, why = _close(arr[k], one)
            if not ok:
                ctx.violation("core-loss-config-k-neq-single-run" + (":k>0" if k else ":k=0") + (":lazy" if c["lazy"] else ":eager"), c,
                              {"config": k, "what": why, "case": tag})
                return

    def conformance(self, ctx: Ctx):
        for i in range(ctx.n(24, 400)):
            c = gen_case(ctx, stratum=i % 6)
            if i % 8 == 5:  # the core-loss configuration loop
                c.update(lazy=(i % 16 == 13), coreloss=True, kind="frozen", builder="probe", entry="builder", algorithm="fourier", spec=None, mean=False,
                         seeds=c["seeds"] if len(c["seeds"]) > 1 else c["seeds"] + [c["seeds"][0] + 1],
                         scan=c["scan"] or [[1.0, 1.5]])
            try:
                self.oracle(ctx, c)
            except LazyRaises as e:
                ctx.violation("lazy-frozen-phonon-run-raises-eager-ok", c, {"error": str(e)})
            except Exception as e:  # noqa
                ctx.violation("frozen-phonon-run-raises:" + type(e).__name__, c, {"error": f"{type(e).__name__}: {e}"[:300]})
            ctx.count(f"numeric:{c['kind']}:{c['builder']}:{c['det']}:{'lazy' if c['lazy'] else 'eager'}:ncfg={len(c['seeds'])}:"
                      f"entry={c['entry']}:{c['algorithm']}")
            ctx.case(c, nontrivial=len(c["seeds"]) > 1)

    def replay(self, ctx: Ctx, case):
        try:
            self.oracle(ctx, case)
        except LazyRaises as e:
            ctx.violation("lazy-frozen-phonon-run-raises-eager-ok", case, {"error": str(e)})
        except Exception as e:  # noqa
            ctx.violation("frozen-phonon-run-raises:" + type(e).__name__, case, {"error": f"{type(e).__name__}: {e}"[:300]})


if __name__ == "__main__":
    sys.exit(run_property(C02()))
