"""C35 — axis metadata behaves like the value sequences it describes (abtem/core/axes.py)."""
import dataclasses
import sys
from fractions import Fraction

import numpy as np

from common import Ctx, LeanDriver, Property, bool_s, dyadic, err_kind, list_s, rat_s, run_property

ORDINAL = ["OrdinalAxis", "NonLinearAxis", "AxisAlignedTiltAxis", "WaveVectorAxis", "TiltAxis", "ThicknessAxis", "ParameterAxis",
           "PositionsAxis"]
LINEAR = ["LinearAxis", "RealSpaceAxis", "ReciprocalSpaceAxis", "ScanAxis"]
PLAIN = ["AxisMetadata", "UnknownAxis", "SampleAxis", "FrozenPhononsAxis", "PrismPlaneWavesAxis"]
ALL = ORDINAL + LINEAR + PLAIN


# ----------------------------------------------------------------------------- value encoding
def enc(v):
    if v is None:
        return "N"
    if isinstance(v, (bool, np.bool_)):
        return "T" if v else "F"
    if isinstance(v, str):
        return "s:" + v.encode().hex()
    if isinstance(v, (int, float, np.integer, np.floating)):
        return "n:" + rat_s(v)
    if isinstance(v, (tuple, list)):
        return "|".join(["["] + [enc(x) for x in v] + ["]"])
    raise TypeError(f"cannot encode {v!r}")


def dec(s):
    toks = s.split("|")

    def go(i):
        t = toks[i]
        if t == "N":
            return None, i + 1
        if t in "TF":
            return t == "T", i + 1
        if t == "[":
            out, i = [], i + 1
            while toks[i] != "]":
                v, i = go(i)
                out.append(v)
            return tuple(out), i + 1
        if t.startswith("s:"):
            return bytes.fromhex(t[2:]).decode(), i + 1
        return Fraction(t[2:]), i + 1

    v, i = go(0)
    assert i == len(toks)
    return v


def fields_s(items):
    items = list(items)
    return ",".join(f"{k}={enc(v)}" for k, v in items) if items else "_"


def parse_fields(s):
    return [] if s == "_" else [(kv.split("=")[0], dec(kv.split("=", 1)[1])) for kv in s.split(",")]


def same(a, b):
    """structural equality, numbers up to 1e-12 relative"""
    if isinstance(a, bool) or isinstance(b, bool) or a is None or b is None or isinstance(a, str) or isinstance(b, str):
        return type(a) is type(b) and a == b or (isinstance(a, (bool, np.bool_)) and isinstance(b, (bool, np.bool_)) and bool(a) == bool(b))
    if isinstance(a, (tuple, list)) or isinstance(b, (tuple, list)):
        return isinstance(a, (tuple, list)) and isinstance(b, (tuple, list)) and len(a) == len(b) and all(same(x, y) for x, y in zip(a, b))
    return abs(float(a) - float(b)) <= 1e-12 * max(1.0, abs(float(a)), abs(float(b)))


def same_fields(m, i):
    return len(m) == len(i) and all(km == ki and same(vm, vi) for (km, vm), (ki, vi) in zip(m, i))


def tup(v):
    return tuple(tup(x) for x in v) if isinstance(v, (list, tuple)) else v


# ----------------------------------------------------------------------------- implementation side
def make(cls, kwargs):
    import abtem.core.axes as ax

    return getattr(ax, cls)(**{k: tup(v) for k, v in kwargs})


def axis_fields(a):
    return [(f.name, getattr(a, f.name)) for f in dataclasses.fields(a)]


def show_axis(a):
    return ["ok", type(a).__name__, axis_fields(a)]


def to_item(it):
    if it[0] == "i":
        return it[1]
    if it[0] == "z":  # rank-0 integer array: selects like a number
        return np.array(it[1])
    if it[0] == "sl":
        return slice(it[1], it[2], it[3])
    if it[0] == "ix":
        return list(it[1])
    return np.array(it[1], dtype=bool)


def item_s(it):
    o = lambda v: "_" if v is None else str(v)
    if it[0] in ("i", "z"):
        return f"i:{it[1]}"
    if it[0] == "sl":
        return f"sl:{o(it[1])}:{o(it[2])}:{o(it[3])}"
    if it[0] == "ix":
        return "ix:" + list_s(it[1])
    return "mk:" + list_s(it[1], bool_s)


# ----------------------------------------------------------------------------- generators
def gen_values(rng, kind=None):
    n = rng.choice([0, 1, 2, 3, 4, 5, 6])
    kind = kind or rng.choice(["num", "num", "num", "str", "pair", "mixed"])
    if kind == "num":
        return [rng.choice([rng.randint(-5, 9), dyadic(rng, -4, 4, 3)]) for _ in range(n)]
    if kind == "str":
        return [rng.choice(["a", "b", "", "xy", "µ", "1/Å"]) for _ in range(n)]
    if kind == "pair":
        return [[dyadic(rng, -4, 4, 2), dyadic(rng, -4, 4, 2)] for _ in range(n)]
    return [rng.choice([None, True, 2.5, "x", 3, [1.0, 2.0]]) for _ in range(n)]


def gen_kwargs(rng, cls, values_kind=None):
    kw = []
    if rng.random() < 0.5:
        kw.append(("label", rng.choice(["", "x", "tilt", "k [1/Å]", "α"])))
    if rng.random() < 0.3:
        kw.append(("units", rng.choice([None, "Å", "mrad", ""])))
    if rng.random() < 0.2:
        kw.append(("_concatenate", rng.random() < 0.5))
    if rng.random() < 0.15:
        kw.append(("tex_label", rng.choice([None, "$x$"])))
    if rng.random() < 0.1:
        kw.append(("_squeeze", True))
    if cls in LINEAR:
        if rng.random() < 0.8:
            kw.append(("sampling", rng.choice([dyadic(rng, -2, 2, 4), 0.1, 0.3, 2])))
        if rng.random() < 0.6:
            kw.append(("offset", rng.choice([dyadic(rng, -4, 4, 3), -0.7, 1])))
        if cls in ("RealSpaceAxis", "ScanAxis") and rng.random() < 0.4:
            kw.append(("endpoint", rng.random() < 0.5))
        if cls == "ReciprocalSpaceAxis" and rng.random() < 0.4:
            kw.append(("fftshift", rng.random() < 0.5))
        if cls == "ScanAxis" and rng.random() < 0.3:
            kw.append(("_main", False))
    if cls in ORDINAL:
        if rng.random() < 0.92:
            kw.append(("values", gen_values(rng, values_kind)))
        if cls == "AxisAlignedTiltAxis" and rng.random() < 0.4:
            kw.append(("direction", rng.choice(["x", "y"])))
    rng.shuffle(kw)
    return kw


def gen_item(rng, n):
    k = rng.random()
    if k < 0.3:
        return [rng.choice(["i", "i", "z"]), rng.randint(-n - 2, n + 1)]
    if k < 0.65:
        o = lambda: rng.choice([None, None, rng.randint(-n - 2, n + 2)])
        return ["sl", o(), o(), rng.choice([None, None, 1, 2, 3, -1, -2, 0 if rng.random() < 0.3 else 1])]
    if k < 0.85:
        return ["ix", [rng.randint(-n - (1 if rng.random() < 0.15 else 0), n - 1 + (1 if rng.random() < 0.15 else 0)) if n else 0
                       for _ in range(rng.randint(0, 4))]] if n or rng.random() < 0.5 else ["ix", []]
    m = n if rng.random() < 0.85 else n + rng.choice([-1, 1])
    return ["mk", [rng.random() < 0.5 for _ in range(max(m, 0))]]


class C35(Property):
    id = "C35"
    props_file = "AbtemVerif/Props/C35.lean"
    drive_file = "AbtemVerif/Drive/C35.lean"
    trusted = [
        "tools/py2lean_axes.py: the dataclass table (class, base, own fields, literal defaults) read from abtem/core/axes.py",
        "hand model (Model/Axes.lean) of the dataclass machinery (field order through the base chain, cls(**kwargs), asdict), of "
        "OrdinalAxis.__post_init__/__getitem__/concatenate and of Python slice / numpy object-array indexing semantics, tied by "
        "differential correspondence on every run",
        "safe_equality on same-kind scalar fields only (numbers with numpy.allclose tolerances); mixed-kind comparisons and the "
        "broadcasting of numpy.allclose over value tuples of different lengths are not modelled",
    ]
    assumptions = ["field values are None / bool / str / finite numbers / nested tuples of those (no numpy arrays)"]
    rule = ("random axis objects of all 17 AxisMetadata classes with random keyword subsets (labels incl. non-ASCII, units, flags, "
            "sampling/offset, values of numbers / strings / pairs / mixed, scalar and string `values`), then: construct, to_dict -> "
            "from_dict, from_dict of permuted / truncated / polluted dicts, __getitem__ with ints / slices (None, negative, steps incl. "
            "0) / index lists / masks (right and wrong length), concatenate of compatible and incompatible pairs, coordinates(n); "
            "distinct = distinct request; non-trivial = request that does not end in an exception")

    def correspondence(self, ctx: Ctx):
        from abtem.core.axes import AxisMetadata, axis_from_dict, axis_to_dict

        drv = LeanDriver(self.drive_file)
        rng = ctx.rng
        lines, tags = [], []

        def add(line, name, case, fn):
            lines.append(line)
            try:
                tags.append((name, case, fn()))
            except Exception as e:  # noqa
                tags.append((name, case, ["err", err_kind(e)]))

        for _ in range(ctx.n(300, 3000)):
            cls = rng.choice(ALL + ORDINAL)
            kw = gen_kwargs(rng, cls)
            u = rng.random()
            if u < 0.04:
                kw.append(("bogus", 1))
            if cls in ORDINAL and u > 0.9:
                kw = [(k, v) for k, v in kw if k != "values"] + [("values", rng.choice([3, 2.5, "ab", None, True, ""]))]
            case = dict(cls=cls, kwargs=kw)
            add(f"new {cls} {fields_s(kw)}", "cls(**kwargs)", case, lambda: show_axis(make(cls, kw)))

            def rt():
                a = make(cls, kw)
                d = axis_to_dict(a)
                b = axis_from_dict(d)
                return ["ok", list(d.items()), type(b).__name__, axis_fields(b)]
            add(f"roundtrip {cls} {fields_s(kw)}", "axis_to_dict / axis_from_dict", case, rt)
        # from_dict of hand-made dictionaries
        for _ in range(ctx.n(150, 1500)):
            cls = rng.choice(ALL)
            try:
                d = list(axis_to_dict(make(cls, gen_kwargs(rng, cls))).items())
            except Exception:  # noqa
                ctx.count("fromdict:generator-skip")
                continue
            u = rng.random()
            rng.shuffle(d)
            if u < 0.3:
                d = [kv for kv in d if kv[0] == "type" or rng.random() < 0.6]
            elif u < 0.4:
                d = [kv for kv in d if kv[0] != "type"]
            elif u < 0.5:
                d = [(k, v if k != "type" else rng.choice(["Nope", "axis_to_dict2", "Axis"])) for k, v in d]
            elif u < 0.6:
                d.append((rng.choice(["bogus", "value", "Sampling"]), 1))
            add(f"fromdict {fields_s(d)}", "axis_from_dict", dict(d=d), lambda: show_axis(axis_from_dict(dict((k, tup(v)) for k, v in d))))
        # indexing
        for _ in range(ctx.n(400, 3500)):
            cls = rng.choice(ORDINAL)
            kw = [(k, v) for k, v in gen_kwargs(rng, cls) if k != "values"] + [("values", gen_values(rng))]
            n = len(kw[-1][1])
            it = gen_item(rng, n)
            case = dict(cls=cls, kwargs=kw, item=it)
            add(f"getitem {cls} {fields_s(kw)} {item_s(it)}", "OrdinalAxis.__getitem__", case, lambda: show_axis(make(cls, kw)[to_item(it)]))
            ctx.count(f"getitem:{it[0]}")
        # indexing of linear axes (forward slices only) and of classes that are not subscriptable
        for _ in range(ctx.n(150, 1500)):
            cls = rng.choice(LINEAR + LINEAR + PLAIN)
            kw = gen_kwargs(rng, cls)
            it = gen_item(rng, rng.randint(0, 6))
            if it[0] == "sl" and rng.random() < 0.7:
                it = ["sl", rng.choice([None, 0, 1, 2, 5]), rng.choice([None, 3, 7]), rng.choice([None, 1, 2, 3])]
            case = dict(cls=cls, kwargs=kw, item=it)
            add(f"getitem {cls} {fields_s(kw)} {item_s(it)}", "LinearAxis.__getitem__ / not subscriptable", case,
                lambda: show_axis(make(cls, kw)[to_item(it)]))
            ctx.count(f"getitem-nonordinal:{'linear' if cls in LINEAR else 'plain'}:{it[0]}")
        # pieces of one linear axis (differ only in the offset) and near misses: drawn at every seed
        for _ in range(ctx.n(80, 800)):
            cls = rng.choice(LINEAR)
            kw = [(k, v) for k, v in gen_kwargs(rng, cls) if k != "offset"]
            cls2 = cls if rng.random() < 0.7 else rng.choice(LINEAR)
            kw2 = list(kw)
            u = rng.random()
            if u < 0.2:
                kw2 = [(k, v) for k, v in kw2 if k != "sampling"] + [("sampling", 0.37)]
            elif u < 0.3:
                kw2 = [(k, v) for k, v in kw2 if k != "label"] + [("label", "other")]
            kw2 = [(k, v) for k, v in kw2 if k in {f.name for f in dataclasses.fields(make(cls2, []))}]
            kwa = kw + [("offset", dyadic(rng, -4, 4, 3))]
            kwb = kw2 + [("offset", dyadic(rng, -4, 4, 3))]
            case = dict(cls=cls, kwargs=kwa, cls2=cls2, kwargs2=kwb)
            add(f"concat {cls} {fields_s(kwa)} {cls2} {fields_s(kwb)}", "concatenate", case,
                lambda: show_axis(make(cls, kwa).concatenate(make(cls2, kwb))))
            ctx.count("concat:linear-pieces")
        # concatenation
        for _ in range(ctx.n(250, 2500)):
            cls = rng.choice(ORDINAL + ORDINAL + LINEAR + PLAIN)
            vk = rng.choice(["num", "str", "pair"])
            kw = gen_kwargs(rng, cls, vk)
            u = rng.random()
            if u < 0.6:
                cls2, kw2 = cls, [(k, v) for k, v in kw if k != "values"] + ([("values", gen_values(rng, vk))] if cls in ORDINAL else [])
            elif u < 0.8:
                cls2, kw2 = cls, gen_kwargs(rng, cls, vk)
            else:
                cls2 = rng.choice(ALL)
                kw2 = [(k, v) for k, v in kw if k != "values"] if rng.random() < 0.5 else gen_kwargs(rng, cls2, vk)
                kw2 = [(k, v) for k, v in kw2 if k in {f.name for f in dataclasses.fields(make(cls2, []))}]
                if cls2 in ORDINAL:
                    kw2 = [(k, v) for k, v in kw2 if k != "values"] + [("values", gen_values(rng, vk))]
            case = dict(cls=cls, kwargs=kw, cls2=cls2, kwargs2=kw2)
            add(f"concat {cls} {fields_s(kw)} {cls2} {fields_s(kw2)}", "concatenate", case,
                lambda: show_axis(make(cls, kw).concatenate(make(cls2, kw2))))
        # coordinates
        for _ in range(ctx.n(120, 1200)):
            cls = rng.choice(ALL)
            kw = gen_kwargs(rng, cls, "num")
            n = rng.randint(-1, 7)
            if cls in ORDINAL:
                n = len(dict(kw).get("values", []))
            add(f"coords {cls} {fields_s(kw)} {n}", "coordinates", dict(cls=cls, kwargs=kw, n=n),
                lambda: ["ok", tuple(make(cls, kw).coordinates(n))])
        for bad in ["new OrdinalAxis values=[|n:1", "getitem OrdinalAxis _ q:1", "concat OrdinalAxis _ OrdinalAxis", "frobnicate"]:
            lines.append(bad)
            tags.append(("malformed request rejected", bad, "bad-op"))
        outs = drv.query(lines)
        for line, out, (name, case, impl) in zip(lines, outs, tags):
            t = out.split(" ")
            ok = False
            if impl == "bad-op":
                ok = out == "bad-op"
            elif impl[0] == "err":
                ok = t[:2] == ["err", impl[1]]
            elif t[0] != "ok":
                ok = False
            elif name == "axis_to_dict / axis_from_dict":
                ok = (same_fields(parse_fields(t[1]), impl[1]) and t[2] == impl[2] and same_fields(parse_fields(t[3]), impl[3]))
            elif name == "coordinates":
                ok = same(dec(t[1]), impl[1])
            else:
                ok = t[1] == impl[1] and same_fields(parse_fields(t[2]), impl[2])
            ctx.agree(name, case, out[:500], impl, ok=ok)
            ctx.count(f"{name}:{'err:' + impl[1] if impl != 'bad-op' and impl[0] == 'err' else 'ok'}")
            ctx.case(line, nontrivial=impl != "bad-op" and impl[0] == "ok")
        ctx.traces += len(lines)

    # ------------------------------------------------------------------ conformance (independent of the model)
    def check_case(self, ctx, c):
        from abtem.core.axes import AxisMetadata, axis_from_dict, axis_to_dict

        cls, kw = c["cls"], [(k, v) for k, v in c["kwargs"]]
        a = make(cls, kw)
        # 1. serialisation round trip: same class, identical fields (strict), and abTEM's own `==`
        for to_d, from_d, tag in ((axis_to_dict, axis_from_dict, "axis_to_dict"), (lambda x: x.to_dict(), AxisMetadata.from_dict, "method")):
            b = from_d(to_d(a))
            if type(b) is not type(a) or not same_fields(axis_fields(b), axis_fields(a)):
                ctx.violation(f"roundtrip-differs:{tag}:{cls}", c, dict(before=axis_fields(a), after=axis_fields(b)))
            elif not (b == a):
                ctx.violation(f"roundtrip-not-equal-under-eq:{tag}:{cls}", c, dict(fields=axis_fields(a)))
        if to_d(a).get("type") != cls:
            ctx.violation(f"to-dict-type-wrong:{cls}", c, {})
        # 2. linear coordinates
        if cls in LINEAR:
            for n in (0, 1, 2, 5):
                got = [float(x) for x in a.coordinates(n)]
                want = [a.offset + i * a.sampling for i in range(n)]
                if len(got) != n or any(abs(g - w) > 1e-12 * max(1, abs(w)) for g, w in zip(got, want)):
                    ctx.violation(f"linear-coordinates-wrong:{cls}", c, dict(n=n, got=got, want=want))
            # forward slices of a linear axis have the sliced coordinates; pieces join back to the first piece
            for st, sp in ((0, 1), (2, 1), (1, 2), (3, 3)):
                piece = a[slice(st, None, sp if sp != 1 else None)]
                got = [float(x) for x in piece.coordinates(3)]
                want = [float(x) for x in a.coordinates(st + 3 * sp)][st::sp][:3]
                if type(piece) is not type(a) or not (len(got) == 3 and all(abs(g - w) <= 1e-12 * max(1, abs(w)) for g, w in zip(got, want))):
                    ctx.violation(f"linear-slice-coordinates-wrong:{cls}", c, dict(start=st, step=sp, got=got, want=want))
                if sp == 1 and a._concatenate:
                    j = a.concatenate(piece)
                    if type(j) is not type(a) or not same_fields(axis_fields(j), axis_fields(a)):
                        ctx.violation(f"linear-pieces-do-not-join:{cls}", c, dict(start=st))
        # 3. ordinal: slicing, integer item, index lists, masks, concatenation
        if cls in ORDINAL:
            vals = tuple(a.values)
            n = len(vals)
            rest = [(k, v) for k, v in axis_fields(a) if k != "values"]
            for it in c.get("items", []):
                item = to_item(it)
                try:
                    if it[0] in ("i", "z"):
                        want = (vals[int(item)],)
                    elif it[0] == "sl":
                        want = vals[item]
                    elif it[0] == "ix":
                        want = tuple(vals[i] for i in item)
                    else:
                        if len(item) != n and len(item) != 0:  # numpy accepts an empty boolean index
                            raise IndexError
                        want = tuple(v for v, m in zip(vals, item) if m)
                except (IndexError, ValueError) as e:
                    want = type(e).__name__
                try:
                    g = a[item]
                    got = tuple(g.values)
                    if type(g) is not type(a) or not same_fields([(k, v) for k, v in axis_fields(g) if k != "values"], rest):
                        ctx.violation(f"getitem-changes-other-fields:{it[0]}", dict(c, items=[it]), dict(before=rest, after=axis_fields(g)))
                except (IndexError, ValueError) as e:
                    got = type(e).__name__
                if not (got == want or (isinstance(got, tuple) and isinstance(want, tuple) and same(got, want))):
                    ctx.violation(f"getitem-values-wrong:{it[0]}", dict(c, items=[it]), dict(item=it, got=got, want=want))
            # concatenating the pieces of a partition gives the axis back; concatenation appends
            for k in sorted({0, n // 2, n}):
                left, right = a[0:k], a[k:n]
                cat = left.concatenate(right)
                if tuple(cat.values) != vals or type(cat) is not type(a) or not same_fields([(f, v) for f, v in axis_fields(cat) if f != "values"], rest):
                    ctx.violation("concatenate-of-partition-differs", c, dict(k=k, got=list(cat.values), want=list(vals)))
            other = make(cls, [(k, v) for k, v in kw if k != "values"] + [("values", c.get("other", [1, 2]))])
            cat = a.concatenate(other)
            if tuple(cat.values) != vals + tuple(other.values) or len(cat) != n + len(other):
                ctx.violation("concatenate-values-wrong", c, dict(got=list(cat.values)))
            if tuple(a.coordinates(n)) != vals:
                ctx.violation("ordinal-coordinates-are-not-values", c, {})
            # values given as a 2-D array (as abtem/prism/s_matrix.py does): the dict round trip must compare equal
            if n and all(isinstance(x, tuple) and len(x) == 2 and all(isinstance(y, float) for y in x) for x in vals):
                a2 = make(cls, [(k, v) for k, v in kw if k != "values"])
                a2 = type(a2)(**{**{k: v for k, v in axis_fields(a2) if k != "values"}, "values": np.array(vals)})
                b2 = axis_from_dict(axis_to_dict(a2))
                same_vals = len(b2.values) == len(a2.values) and all(np.array_equal(x, y) for x, y in zip(b2.values, a2.values))
                if type(b2) is not type(a2) or not same_vals or not (b2 == a2):
                    ctx.violation("roundtrip-not-equal-for-array-values", c, dict(equal=bool(b2 == a2), same_values=same_vals))
                ctx.count("oracle:array-values-roundtrip")
            # a rank-0 integer index array selects like a number
            if n:
                k0 = len(c.get("other", [])) % n
                g0 = a[np.array(k0)]
                if tuple(g0.values) != (vals[k0],):
                    ctx.violation("getitem-rank0-index-array-wrong", c, dict(index=k0, got=repr(g0.values)[:200]))

    def gen_case(self, rng):
        cls = rng.choice(ALL + ORDINAL)
        kw = [(k, v) for k, v in gen_kwargs(rng, cls) if True]
        c = dict(cls=cls, kwargs=kw)
        if cls in ORDINAL:
            kw = [(k, v) for k, v in kw if k != "values"] + [("values", gen_values(rng))]
            n = len(kw[-1][1])
            c = dict(cls=cls, kwargs=kw, items=[gen_item(rng, n) for _ in range(4)], other=gen_values(rng, "num"))
        return c

    def conformance(self, ctx: Ctx):
        rng = ctx.rng
        for _ in range(ctx.n(500, 5000)):
            c = self.gen_case(rng)
            try:
                self.check_case(ctx, c)
            except Exception as e:  # noqa
                ctx.violation(f"axis-operation-raises:{err_kind(e)}:{c['cls']}", c, dict(error=repr(e)))
            ctx.case(c)

    def replay(self, ctx: Ctx, case):
        try:
            self.check_case(ctx, case)
        except Exception as e:  # noqa
            ctx.violation(f"axis-operation-raises:{err_kind(e)}:{case['cls']}", case, dict(error=repr(e)))


if __name__ == "__main__":
    sys.exit(run_property(C35()))
