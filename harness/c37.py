"""C37 — real-space multislice is a faithful discretization.

Correspondence: coefficient lookup (incl. error branches), the wrap-boundary stencil with per-axis prefactors on small
arrays, table moments and the loop of the exponential series against the real functions.
Conformance (independent of the model): LaplaceOperator on plane waves (eigenvalue = analytic symbol, close to the continuum
Laplacian, isotropic and anisotropic pixels), vacuum real-space propagation (intensity, agreement with the Fourier
propagator), lazy == eager.
"""
import sys
from fractions import Fraction

import numpy as np

from common import (Ctx, LeanDriver, Property, dyadic, err_kind, list_s, parse_list, rat_s, run_property)

ENERGY = 100e3


def symbol(c, theta):
    m = len(c) // 2
    return sum(float(c[m + q]) * np.cos(theta * q) for q in range(-m, m + 1))


_OPS = {}


def laplace_op(acc, sampling):
    """one LaplaceOperator per (accuracy, sampling): its numba kernel is compiled once and reused for every array shape"""
    from abtem.finite_difference import LaplaceOperator

    key = (acc, tuple(sampling))
    if key not in _OPS:
        _OPS[key] = LaplaceOperator(acc)
    return _OPS[key]


def oracle_eigen(ctx: Ctx, c):
    from abtem import Waves
    from abtem.finite_difference import LaplaceOperator, finite_difference_coefficients

    n0, n1 = c["gpts"]
    sx, sy = c["sampling"]
    kx, ky = c["k"]
    i, j = np.meshgrid(np.arange(n0), np.arange(n1), indexing="ij")
    w = np.exp(2j * np.pi * (kx * i / n0 + ky * j / n1)).astype(np.complex64)
    waves = Waves(w.copy(), energy=ENERGY, sampling=(sx, sy))
    out = np.asarray(laplace_op(c["accuracy"], (sx, sy)).apply(waves).array)
    r = out / w
    spread = float(np.abs(r - r.mean()).max() / (abs(r.mean()) or 1.0))
    co = finite_difference_coefficients(2, c["accuracy"])
    ev = symbol(co, 2 * np.pi * kx / n0) / sx ** 2 + symbol(co, 2 * np.pi * ky / n1) / sy ** 2
    cont = -(2 * np.pi) ** 2 * ((kx / (n0 * sx)) ** 2 + (ky / (n1 * sy)) ** 2)
    kind = "iso" if sx == sy else "aniso"
    scale = abs(ev) or (1 / sx ** 2 + 1 / sy ** 2)
    if spread > 5e-5 and (kx, ky) != (0, 0):
        ctx.violation(f"laplace-planewave-not-eigen:{kind}", c, {"what": "stencil output is not a multiple of the plane wave", "spread": spread})
    elif abs(r.mean() - ev) > 5e-5 * scale + 1e-3:
        ctx.violation(f"laplace-planewave-eigenvalue:{kind}", c,
                      {"what": "eigenvalue differs from the analytic symbol sum_k c_k cos(k theta_x)/dx^2 + sum_k c_k cos(k theta_y)/dy^2",
                       "observed": [float(r.mean().real), float(r.mean().imag)], "expected": float(ev), "continuum": float(cont)})
    elif c["accuracy"] >= 6 and max(abs(kx) / n0, abs(ky) / n1) <= 0.13 and abs(ev - cont) > 2e-3 * abs(cont) + 1e-9:
        ctx.violation(f"laplace-symbol-far-from-continuum:{kind}", c, {"symbol": float(ev), "continuum": float(cont)})
    return spread


def oracle_vacuum(ctx: Ctx, c):
    import ase
    from abtem import Potential, Probe
    from abtem.multislice import RealSpaceMultislice

    atoms = ase.Atoms(cell=(c["extent"][0], c["extent"][1], c["depth"]), pbc=True)
    pot = Potential(atoms, gpts=tuple(c["gpts"]), slice_thickness=c["depth"] / c["nslices"], projection="infinite")
    probe = Probe(energy=ENERGY, semiangle_cutoff=c["cutoff"], gpts=tuple(c["gpts"]), extent=tuple(c["extent"]), C10=c["defocus"])
    scan = np.array([[c["extent"][0] / 2, c["extent"][1] / 4]])
    alg = RealSpaceMultislice(order=c["order"], expansion_scope=c["scope"], derivative_accuracy=c["accuracy"])
    w0 = np.asarray(probe.build(scan=scan, lazy=False).array)
    w1 = np.asarray(probe.multislice(pot, scan=scan, lazy=False).array)
    w2 = np.asarray(probe.multislice(pot, scan=scan, algorithm=alg, lazy=False).array)
    kind = "iso" if c["gpts"][0] * c["extent"][1] == c["gpts"][1] * c["extent"][0] else "aniso"
    i0, i2 = float((np.abs(w0) ** 2).sum()), float((np.abs(w2) ** 2).sum())
    d = float(np.abs(w1 - w2).max() / np.abs(w1).max())
    if abs(i2 - i0) > 2e-5 * i0:
        ctx.violation(f"vacuum-intensity-not-preserved:{kind}", c, {"what": "real-space vacuum propagation changed the total intensity",
                                                                    "before": i0, "after": i2})
    elif d > c["tol"]:
        ctx.violation(f"vacuum-propagation-ne-fourier:{kind}", c,
                      {"what": "real-space vacuum propagation differs from the Fourier (Fresnel) propagator", "rel_linf": d, "tol": c["tol"]})
    return d


def oracle_lazy(ctx: Ctx, c):
    import ase
    from abtem import Potential, Probe
    from abtem.multislice import RealSpaceMultislice

    atoms = ase.Atoms(c["symbols"], positions=c["positions"], cell=(c["extent"][0], c["extent"][1], c["depth"]), pbc=True)
    pot = Potential(atoms, gpts=tuple(c["gpts"]), slice_thickness=c["depth"] / c["nslices"], projection="infinite")
    probe = Probe(energy=ENERGY, semiangle_cutoff=c["cutoff"], gpts=tuple(c["gpts"]), extent=tuple(c["extent"]))
    scan = np.array(c["scan"])
    alg = RealSpaceMultislice(order=c["order"], expansion_scope=c["scope"], derivative_accuracy=c["accuracy"])
    a = np.asarray(probe.multislice(pot, scan=scan, algorithm=alg, lazy=False).array)
    b = np.asarray(probe.multislice(pot, scan=scan, algorithm=alg, lazy=True).compute().array)
    d = float("inf") if a.shape != b.shape else float(np.abs(a - b).max() / np.abs(a).max())
    if not d <= 1e-6:
        ctx.violation("realspace-lazy-ne-eager", c, {"what": "real-space multislice differs between lazy and eager evaluation", "rel_linf": d,
                                                     "shapes": [list(a.shape), list(b.shape)]})
    return d


ORACLES = {"eigen": oracle_eigen, "vacuum": oracle_vacuum, "lazy": oracle_lazy}


def gen(ctx: Ctx, kind, i):
    rng = ctx.rng
    if kind == "eigen":
        n0, n1 = rng.choice([12, 16, 24, 30]), rng.choice([12, 16, 24, 30])
        # a few operator configurations per run (each costs one numba compilation), many plane waves per configuration
        cfg = ctx.__dict__.setdefault("_c37_cfgs", [])
        if len(cfg) < (4 if not ctx.thorough else 8):
            sx = rng.choice([0.05, 0.1, 0.125, 0.2])
            sy = sx if len(cfg) % 2 == 1 else rng.choice([s for s in [0.05, 0.1, 0.125, 0.2, 0.25] if s != sx])
            cfg.append((rng.choice([2, 4, 6, 8, 10, 14, 18]) if len(cfg) != 1 else 6, sx, sy))
        acc, sx, sy = cfg[i % len(cfg)]
        return dict(oracle="eigen", gpts=[n0, n1], sampling=[sx, sy], accuracy=acc,
                    k=[rng.randint(-n0 // 2, n0 // 2), rng.randint(-n1 // 2, n1 // 2)] if rng.random() < 0.6 else
                    [rng.randint(-1, 1), rng.randint(-2, 2)])
    if kind == "vacuum":
        g = rng.choice([[32, 32], [32, 64], [48, 32], [64, 32], [40, 40]]) if i % 2 else rng.choice([[32, 64], [48, 32], [64, 32]])
        acc = rng.choice([4, 6, 8])
        return dict(oracle="vacuum", gpts=g, extent=[4.0, 4.0], depth=rng.choice([2.0, 4.0]), nslices=rng.choice([2, 4]),
                    cutoff=rng.choice([8, 10]), defocus=rng.choice([0.0, 20.0]), accuracy=acc, order=rng.choice([1, 2]),
                    scope=rng.choice(["propagator", "full"]), tol={4: 2e-3, 6: 2e-4, 8: 1e-4}[acc])
    g = rng.choice([[24, 24], [24, 32], [32, 24]])
    return dict(oracle="lazy", gpts=g, extent=[4.0, 4.0], depth=2.0, nslices=2, cutoff=15, accuracy=rng.choice([2, 4, 6]),
                order=rng.choice([1, 2]), scope=rng.choice(["propagator", "full"]), symbols=["Si", "C"],
                positions=[[dyadic(rng, 0, 4, 3), dyadic(rng, 0, 4, 3), 0.5], [dyadic(rng, 0, 4, 3), dyadic(rng, 0, 4, 3), 1.5]],
                scan=[[dyadic(rng, 0, 4, 3), dyadic(rng, 0, 4, 3)] for _ in range(rng.randint(1, 2))])


class C37(Property):
    id = "C37"
    props_file = "AbtemVerif/Props/C37.lean"
    drive_file = "AbtemVerif/Drive/C37.lean"
    trusted = [
        "numba: the compiled kernel executes the Python loop it was compiled from (summand generated, loop bounds hand-modelled)",
        "NUMPY: np.pad(mode='wrap') with padding n+1 >= n makes the interior kernel a periodic stencil; np.roll / negative indexing of the "
        "coefficient array (hand-modelled, tied by correspondence)",
        "IEEE: complex64 evaluation of the stencil (tolerance 1e-5 relative); the decimal table equals the rational order conditions only to 1e-15",
    ]
    assumptions = ["accuracy <= 18 (table); larger accuracies are computed with sympy, which is not installed in this environment (ModuleNotFoundError): neither modelled nor exercised"]
    rule = ("correspondence: all (derivative, accuracy) in [-1,2]x[-3,21]; random integer-valued complex arrays 3-9 x 3-9, accuracies 2-8, "
            "dyadic samplings (equal and unequal); conformance: plane waves on 12-30 point grids with equal/unequal pixels, accuracies 2-18; "
            "vacuum probes on square and non-square pixels; lazy vs eager with two atoms")

    def correspondence(self, ctx: Ctx):
        from abtem import Waves
        from abtem.finite_difference import (LaplaceOperator, _multislice_exponential_series, finite_difference_coefficients)

        rng = ctx.rng
        drv = LeanDriver(self.drive_file)
        lines, todo = [], []
        for d in (-1, 0, 1, 2):
            for acc in range(-3, 22):
                case = dict(fn="finite_difference_coefficients", derivative=d, accuracy=acc)
                if acc > 18 and acc % 2 == 0:
                    continue  # sympy path: not modelled
                try:
                    impl = ["ok"] + [float(v) for v in finite_difference_coefficients(d, acc)]
                except Exception as e:  # noqa
                    impl = ["err", err_kind(e)]
                lines.append(f"coeffs {d} {acc}")
                todo.append(("finite_difference_coefficients", case, impl))
                ctx.count("coefficients:" + impl[0])
        for acc in range(2, 20, 2):
            co = [Fraction(float(v)) for v in finite_difference_coefficients(2, acc)]
            m = len(co) // 2
            impl = ["num"] + [float(sum(cj * Fraction(j) ** q for cj, j in zip(co, range(-m, m + 1)))) for q in range(acc + 2)]
            impl.append([float(sum(abs(cj) * abs(Fraction(j)) ** q for cj, j in zip(co, range(-m, m + 1)))) or 1.0 for q in range(acc + 2)])
            lines.append(f"moments {acc}")
            todo.append(("stencil moments", dict(fn="moments", accuracy=acc), impl))
        cfgs = [(rng.choice([2, 4]), 0.5, 0.5), (rng.choice([4, 6, 8]), 0.25, 0.5), (rng.choice([2, 6, 8]), 1.0, 0.125)]
        for t in range(ctx.n(12, 120)):
            acc, sx, sy = cfgs[t % 3]
            h, w = rng.randint(3, 9), rng.randint(3, 9)
            re = [rng.randint(-5, 5) for _ in range(h * w)]
            im = [rng.randint(-5, 5) for _ in range(h * w)]
            a = (np.array(re) + 1j * np.array(im)).reshape(h, w).astype(np.complex64)
            waves = Waves(a.copy(), energy=ENERGY, sampling=(sx, sy))
            out = np.asarray(laplace_op(acc, (sx, sy)).apply(waves).array).astype(np.complex128)
            case = dict(fn="LaplaceOperator.apply", accuracy=acc, shape=[h, w], sampling=[sx, sy], re=re, im=im)
            lines.append(f"laplace {acc} {rat_s(sx)} {rat_s(sy)} {h} {w} {list_s(re)}")
            todo.append(("LaplaceOperator.apply(real part)", case, ["arr", out.real.reshape(-1)]))
            lines.append(f"laplace {acc} {rat_s(sx)} {rat_s(sy)} {h} {w} {list_s(im)}")
            todo.append(("LaplaceOperator.apply(imag part)", case, ["arr", out.imag.reshape(-1)]))
            ctx.count(f"laplace:acc={acc}:{'iso' if sx == sy else 'aniso'}:{'small' if min(h, w) <= acc // 2 else 'regular'}")
        for t in range(ctx.n(6, 40)):
            y = dyadic(rng, -1, 1, 4) or 0.25
            lam = -8.0
            wl, dz = 0.5, -y * 4 * np.pi / (0.5 * 8.0)  # mu = i * dz * wl * lam / (4 pi) = i * y
            calls = [0]

            def lap(a):
                calls[0] += 1
                return lam * a

            w0 = np.ones((2, 2), dtype=np.complex128)
            try:
                res = _multislice_exponential_series(w0.copy(), np.zeros((2, 2)), lap, wl, dz, tolerance=1e-14, max_terms=60, order=1)
                impl = ["cplx", complex(res[0, 0])]
            except Exception as e:  # noqa
                impl = ["err", err_kind(e)]
            lines.append(f"expseries {rat_s(y)} {calls[0]}")
            todo.append(("_multislice_exponential_series", dict(fn="expseries", y=y, terms=calls[0]), impl))
            ctx.count(f"expseries:terms={calls[0]}")
        outs = drv.query(lines)
        for (fn, case, impl), out in zip(todo, outs):
            t = out.split()
            if t[0] == "err":
                ctx.agree(fn, case, ["err", t[1]], impl)
            elif impl[0] == "ok":
                ctx.agree(fn, case, ["ok"] + [float(Fraction(v)) for v in parse_list(t[1], str)], impl)
            elif impl[0] == "num":
                model = [float(Fraction(v)) for v in parse_list(t[1], str)]
                ctx.agree(fn, case, model, impl[1:-1], ok=len(model) == len(impl) - 2 and
                          all(abs(a - b) <= 1e-13 * sc for a, b, sc in zip(model, impl[1:-1], impl[-1])))
            elif impl[0] == "arr":
                model = np.array([float(Fraction(v)) for v in parse_list(t[1], str)])
                sc = float(np.abs(impl[1]).max()) or 1.0
                ctx.agree(fn, case, model.tolist(), impl[1].tolist(), ok=model.shape == impl[1].shape and float(np.abs(model - impl[1]).max()) <= 2e-5 * sc)
            elif impl[0] == "cplx":
                model = complex(float(Fraction(t[1])), float(Fraction(t[2])))
                ctx.agree(fn, case, [model.real, model.imag], [impl[1].real, impl[1].imag], ok=abs(model - impl[1]) <= 1e-12)
            else:
                ctx.agree(fn, case, out, impl)
            ctx.case(case, nontrivial=True)
        ctx.traces += len(todo)

    def conformance(self, ctx: Ctx):
        for i in range(ctx.n(32, 400)):
            self.run(ctx, gen(ctx, "eigen", i))
        for i in range(ctx.n(3, 14)):
            self.run(ctx, gen(ctx, "vacuum", i))
        for i in range(ctx.n(2, 8)):
            self.run(ctx, gen(ctx, "lazy", i))

    def run(self, ctx: Ctx, c):
        try:
            ORACLES[c["oracle"]](ctx, c)
        except Exception as e:  # noqa
            ctx.violation(f"{c['oracle']}-raises", c, {"what": "the implementation raised", "error": f"{type(e).__name__}: {e}"[:300]})
        ctx.count(f"{c['oracle']}:acc={c['accuracy']}")
        ctx.case(c, nontrivial=True)

    def replay(self, ctx: Ctx, case):
        ORACLES[case["oracle"]](ctx, case)


if __name__ == "__main__":
    sys.exit(run_property(C37()))
