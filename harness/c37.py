"""C37 — real-space multislice is a faithful discretization.

Correspondence: coefficient lookup (incl. error branches), the wrap-boundary stencil with per-axis prefactors on small
arrays, table moments and the loop of the exponential series against the real functions.
Conformance (independent of the model): LaplaceOperator on plane waves (eigenvalue = analytic symbol, close to the continuum
Laplacian, isotropic and anisotropic pixels), vacuum real-space propagation (intensity, agreement with the Fourier
propagator), lazy == eager.
"""
import sys
from fractions import Fraction

import numpy as np

from common import (Ctx, LeanDriver, Property, dyadic, err_kind, list_s, parse_list, rat_s, run_property)

ENERGY = 100e3


def symbol(c, theta):
    m = len(c) // 2
    return sum(float(c[m + q]) * np.cos(theta * q) for q in range(-m, m + 1))


_OPS = {}


def laplace_op(acc, sampling):
    """one LaplaceOperator per (accuracy, sampling): its numba kernel is compiled once and reused for every array shape"""
    from abtem.finite_difference import LaplaceOperator

    key = (acc, tuple(sampling))
    if key not in _OPS:
        _OPS[key] = LaplaceOperator(acc)
    return _OPS[key]


def oracle_eigen(ctx: Ctx, c):
    from abtem import Waves
    from abtem.finite_difference import LaplaceOperator, finite_difference_coefficients

    import abtem

    n0, n1 = c["gpts"]
    sx, sy = c["sampling"]
    kx, ky = c["k"]
    f64 = c.get("precision") == "float64"
    i, j = np.meshgrid(np.arange(n0), np.arange(n1), indexing="ij")
    w = np.exp(2j * np.pi * (kx * i / n0 + ky * j / n1)).astype(np.complex128 if f64 else np.complex64)
    with abtem.config.set({"precision": "float64" if f64 else "float32"}):
        waves = Waves(w.copy(), energy=ENERGY, sampling=(sx, sy))
        out = np.asarray(laplace_op(c["accuracy"], (sx, sy, f64)).apply(waves).array)
    rtol = 1e-11 if f64 else 5e-5
    r = out / w
    spread = float(np.abs(r - r.mean()).max() / (abs(r.mean()) or 1.0))
    co = finite_difference_coefficients(2, c["accuracy"])
    ev = symbol(co, 2 * np.pi * kx / n0) / sx ** 2 + symbol(co, 2 * np.pi * ky / n1) / sy ** 2
    cont = -(2 * np.pi) ** 2 * ((kx / (n0 * sx)) ** 2 + (ky / (n1 * sy)) ** 2)
    kind = ("iso" if sx == sy else "aniso") + (":float64" if f64 else "")
    scale = 1 / sx ** 2 + 1 / sy ** 2
    if not spread <= 5e-5 and (kx, ky) != (0, 0):
        ctx.violation(f"laplace-planewave-not-eigen:{kind}", c, {"what": "stencil output is not a multiple of the plane wave", "spread": spread})
    elif not abs(r.mean() - ev) <= rtol * scale:
        ctx.violation(f"laplace-planewave-eigenvalue:{kind}", c,
                      {"what": "eigenvalue differs from the analytic symbol sum_k c_k cos(k theta_x)/dx^2 + sum_k c_k cos(k theta_y)/dy^2",
                       "observed": [float(r.mean().real), float(r.mean().imag)], "expected": float(ev), "continuum": float(cont)})
    elif c["accuracy"] >= 6 and max(abs(kx) / n0, abs(ky) / n1) <= 0.13 and not abs(ev - cont) <= 2e-3 * abs(cont) + 1e-9:
        ctx.violation(f"laplace-symbol-far-from-continuum:{kind}", c, {"symbol": float(ev), "continuum": float(cont)})
    return spread


def oracle_vacuum(ctx: Ctx, c):
    import ase
    from abtem import Potential, Probe
    from abtem.multislice import RealSpaceMultislice

    atoms = ase.Atoms(cell=(c["extent"][0], c["extent"][1], c["depth"]), pbc=True)
    pot = Potential(atoms, gpts=tuple(c["gpts"]), slice_thickness=c["depth"] / c["nslices"], projection="infinite")
    probe = Probe(energy=ENERGY, semiangle_cutoff=c["cutoff"], gpts=tuple(c["gpts"]), extent=tuple(c["extent"]), C10=c["defocus"])
    scan = np.array([[c["extent"][0] / 2, c["extent"][1] / 4]])
    alg = RealSpaceMultislice(order=c["order"], expansion_scope=c["scope"], derivative_accuracy=c["accuracy"])
    w0 = np.asarray(probe.build(scan=scan, lazy=False).array)
    w1 = np.asarray(probe.multislice(pot, scan=scan, lazy=False).array)
    try:
        w2 = np.asarray(probe.multislice(pot, scan=scan, algorithm=alg, lazy=False).array)
    except Exception as e:  # noqa
        from abtem.core.energy import energy2wavelength
        from abtem.finite_difference import DivergedError, finite_difference_coefficients

        # re-derive the recorded class independently: largest modulus of the series operator over the grid's modes,
        # mu_max = dz * lambda * |symbol(pi, pi)| / (4 pi), symbol(pi, pi) = sum_k c_k (-1)^k (1/dx^2 + 1/dy^2)
        co = finite_difference_coefficients(2, c["accuracy"])
        m = len(co) // 2
        sx, sy = c["extent"][0] / c["gpts"][0], c["extent"][1] / c["gpts"][1]
        sym = abs(sum(float(co[m + q]) * (-1) ** q for q in range(-m, m + 1))) * (1 / sx ** 2 + 1 / sy ** 2)
        mu = c["depth"] / c["nslices"] * energy2wavelength(ENERGY) * sym / (4 * np.pi)
        if isinstance(e, DivergedError) and mu >= 20:
            key = "vacuum-diverges:mu-max>=20"
        else:
            key = f"vacuum-raises:{type(e).__name__}:mu-max={'>=20' if mu >= 20 else '<20'}"
        ctx.violation(key, c, {"what": "real-space vacuum propagation of a band-limited probe raised", "error": f"{type(e).__name__}: {e}"[:200],
                               "mu_max": float(mu)})
        return float("inf")
    kind = "iso" if c["gpts"][0] * c["extent"][1] == c["gpts"][1] * c["extent"][0] else "aniso"
    i0, i2 = float((np.abs(w0) ** 2).sum()), float((np.abs(w2) ** 2).sum())
    d = float(np.abs(w1 - w2).max() / np.abs(w1).max())
    if not abs(i2 - i0) <= 2e-5 * i0:
        ctx.violation(f"vacuum-intensity-not-preserved:{kind}", c, {"what": "real-space vacuum propagation changed the total intensity",
                                                                    "before": i0, "after": i2})
    elif not d <= c["tol"]:
        ctx.violation(f"vacuum-propagation-ne-fourier:{kind}", c,
                      {"what": "real-space vacuum propagation differs from the Fourier (Fresnel) propagator", "rel_linf": d, "tol": c["tol"]})
    return d


def oracle_lazy(ctx: Ctx, c):
    import ase
    from abtem import Potential, Probe
    from abtem.multislice import RealSpaceMultislice

    atoms = ase.Atoms(c["symbols"], positions=c["positions"], cell=(c["extent"][0], c["extent"][1], c["depth"]), pbc=True)
    pot = Potential(atoms, gpts=tuple(c["gpts"]), slice_thickness=c["depth"] / c["nslices"], projection="infinite")
    probe = Probe(energy=ENERGY, semiangle_cutoff=c["cutoff"], gpts=tuple(c["gpts"]), extent=tuple(c["extent"]))
    scan = np.array(c["scan"])
    alg = RealSpaceMultislice(order=c["order"], expansion_scope=c["scope"], derivative_accuracy=c["accuracy"])
    a = np.asarray(probe.multislice(pot, scan=scan, algorithm=alg, lazy=False).array)
    b = np.asarray(probe.multislice(pot, scan=scan, algorithm=alg, lazy=True).compute().array)
    d = float("inf") if a.shape != b.shape else float(np.abs(a - b).max() / np.abs(a).max())
    if not d <= 1e-6:
        ctx.violation("realspace-lazy-ne-eager", c, {"what": "real-space multislice differs between lazy and eager evaluation", "rel_linf": d,
                                                     "shapes": [list(a.shape), list(b.shape)]})
    return d


def oracle_step(ctx: Ctx, c):
    """one real-space step through a slice against the dense-matrix specification: exp(i dz S) with
    S = sum_i p_i (L/4piK0)^i + V (scope propagator) or sum_i p_i (L/4piK0 + V)^i (scope full), p_1 = 1, p_i = (lambda/-2pi)^(i-1)/2
    (Ultramicroscopy 134 (2013) 135, eqs. 8 and 14), L the periodic stencil matrix built here from the coefficient list, then the
    antialias band limit.  Sees `order`, `expansion_scope`, the prefactors and the transmission term, which vacuum runs cannot."""
    import scipy.linalg
    from abtem import Waves
    from abtem.antialias import AntialiasAperture
    from abtem.core.energy import energy2sigma, energy2wavelength
    from abtem.finite_difference import LaplaceOperator, finite_difference_coefficients, multislice_step
    from abtem.potentials.iam import PotentialArray

    n0, n1 = c["gpts"]
    smp, E, dz, acc = tuple(c["sampling"]), c["energy"], c["dz"], c["accuracy"]
    rng = np.random.default_rng(c["seed"])
    w0 = (rng.standard_normal((n0, n1)) + 1j * rng.standard_normal((n0, n1))).astype(np.complex64)
    w0 = np.asarray(AntialiasAperture().bandlimit(Waves(w0, energy=E, sampling=smp)).array)
    v = (c["vscale"] * rng.random((1, n0, n1))).astype(np.float32)
    pot = PotentialArray(v, slice_thickness=dz, sampling=smp)
    out = multislice_step(Waves(w0.copy(), energy=E, sampling=smp), pot, None, LaplaceOperator(acc), max_terms=80, order=c["order"],
                          fully_corrected=(c["scope"] == "full"))
    out = out[0] if isinstance(out, tuple) else out
    got = np.asarray(out.array)
    wl = energy2wavelength(E)
    K0 = 1 / wl
    co = np.asarray(finite_difference_coefficients(2, acc), dtype=float)
    m = len(co) // 2

    def D(n, s_):
        M = np.zeros((n, n))
        for i in range(n):
            for q in range(-m, m + 1):
                M[i, (i + q) % n] += co[m + q] / s_ ** 2
        return M

    L = np.kron(D(n0, smp[0]), np.eye(n1)) + np.kron(np.eye(n0), D(n1, smp[1]))
    V = np.diag((v[0].astype(float) * energy2sigma(E) / dz).reshape(-1))
    A = L / (4 * np.pi * K0)
    pref = lambda i: 1.0 if i == 1 else (wl / (-2 * np.pi)) ** (i - 1) * 0.5
    if c["scope"] == "full":
        S = sum(pref(i) * np.linalg.matrix_power(A + V, i) for i in range(1, c["order"] + 1))
    else:
        S = sum(pref(i) * np.linalg.matrix_power(A, i) for i in range(1, c["order"] + 1)) + V
    ref = (scipy.linalg.expm(1j * dz * S) @ w0.astype(complex).reshape(-1)).reshape(n0, n1)
    ref = np.asarray(AntialiasAperture().bandlimit(Waves(ref.astype(np.complex64), energy=E, sampling=smp)).array)
    d = float(np.abs(got - ref).max() / np.abs(ref).max())
    if not d <= 5e-6:
        ctx.violation(f"step-ne-series-operator:order={min(c['order'], 3)}:{c['scope']}", c,
                      {"what": "one real-space multislice step differs from exp(i dz S) of the series operator of the given order and scope", "rel_linf": d})
    return d


ORACLES = {"eigen": oracle_eigen, "vacuum": oracle_vacuum, "lazy": oracle_lazy, "step": oracle_step}


def gen(ctx: Ctx, kind, i):
    rng = ctx.rng
    if kind == "eigen":
        n0, n1 = rng.choice([12, 16, 24, 30]), rng.choice([12, 16, 24, 30])
        # a few operator configurations per run (each costs one numba compilation), many plane waves per configuration
        cfg = ctx.__dict__.setdefault("_c37_cfgs", [])
        if len(cfg) < (6 if not ctx.thorough else 12):
            sx = rng.choice([0.05, 0.1, 0.125, 0.2])
            sy = sx if len(cfg) % 2 == 1 else rng.choice([s for s in [0.05, 0.1, 0.125, 0.2, 0.25] if s != sx])
            # accuracies: every even value 2..18 is drawn over the seeds (each configuration costs one numba compilation);
            # configuration 2 runs under precision float64
            accs = [2, 4, 6, 8, 10, 12, 14, 16, 18]
            cfg.append((accs[(ctx.seed * 5 + 2 * len(cfg) + rng.randint(0, 1)) % 9] if len(cfg) != 1 else 6, sx, sy, "float64" if len(cfg) == 2 else "float32"))
        acc, sx, sy, prec = cfg[i % len(cfg)]
        return dict(oracle="eigen", precision=prec, gpts=[n0, n1], sampling=[sx, sy], accuracy=acc,
                    k=[rng.randint(-n0 // 2, n0 // 2), rng.randint(-n1 // 2, n1 // 2)] if rng.random() < 0.6 else
                    [rng.randint(-1, 1), rng.randint(-2, 2)])
    if kind == "vacuum":
        if i == 0:  # the recorded divergence: 0.05 A pixels, 2 A slices (mu_max about 28)
            return dict(oracle="vacuum", gpts=[80, 80], extent=[4.0, 4.0], depth=4.0, nslices=2, cutoff=10, defocus=0.0, accuracy=6, order=1,
                        scope="propagator", tol=2e-4)
        g = rng.choice([[32, 32], [32, 64], [48, 32], [64, 32], [40, 40], [64, 64], [80, 64]]) if i % 2 else rng.choice([[32, 64], [48, 32], [64, 32], [96, 96]])
        acc = rng.choice([4, 6, 8])
        return dict(oracle="vacuum", gpts=g, extent=[4.0, 4.0], depth=rng.choice([2.0, 4.0]), nslices=rng.choice([2, 4]),
                    cutoff=rng.choice([8, 10]), defocus=rng.choice([0.0, 20.0]), accuracy=acc, order=rng.choice([1, 2]),
                    scope=rng.choice(["propagator", "full"]), tol={4: 2e-3, 6: 2e-4, 8: 1e-4}[acc])
    if kind == "step":
        return dict(oracle="step", gpts=[rng.choice([8, 10, 12]), rng.choice([8, 11, 12])], sampling=[rng.choice([0.2, 0.25]), rng.choice([0.2, 0.3])],
                    energy=rng.choice([60e3, 100e3, 200e3]), dz=rng.choice([0.5, 1.0]), accuracy=rng.choice([2, 4, 6, 8]),
                    order=[1, 2, 3, 2][i % 4], scope=["propagator", "full"][(i // 2) % 2], vscale=rng.choice([5.0, 20.0, 40.0]),
                    seed=rng.randint(0, 10 ** 6))
    g = rng.choice([[24, 24], [24, 32], [32, 24]])
    return dict(oracle="lazy", gpts=g, extent=[4.0, 4.0], depth=2.0, nslices=2, cutoff=15, accuracy=rng.choice([2, 4, 6]),
                order=rng.choice([1, 2]), scope=rng.choice(["propagator", "full"]), symbols=["Si", "C"],
                positions=[[dyadic(rng, 0, 4, 3), dyadic(rng, 0, 4, 3), 0.5], [dyadic(rng, 0, 4, 3), dyadic(rng, 0, 4, 3), 1.5]],
                scan=[[dyadic(rng, 0, 4, 3), dyadic(rng, 0, 4, 3)] for _ in range(rng.randint(1, 2))])


class C37(Property):
    id = "C37"
    props_file = "AbtemVerif/Props/C37.lean"
    drive_file = "AbtemVerif/Drive/C37.lean"
    trusted = [
        "numba: the compiled kernel executes the Python loop it was compiled from (summand generated, loop bounds hand-modelled)",
        "NUMPY: np.pad(mode='wrap') with padding n+1 >= n makes the interior kernel a periodic stencil; np.roll / negative indexing of the "
        "coefficient array (hand-modelled, tied by correspondence)",
        "IEEE: complex64 evaluation of the stencil (tolerance 1e-5 relative); the decimal table equals the rational order conditions only to 1e-15",
    ]
    assumptions = ["accuracy <= 18 (table); larger accuracies are computed with sympy, which is not installed in this environment (ModuleNotFoundError): neither modelled nor exercised"]
    rule = ("correspondence: all (derivative, accuracy) in [-1,2]x[-3,21]; random integer-valued complex arrays 3-9 x 3-9, accuracies 2-8, "
            "dyadic samplings (equal and unequal); conformance: plane waves on 12-30 point grids with equal/unequal pixels, accuracies 2-18; "
            "vacuum probes on square and non-square pixels; lazy vs eager with two atoms")

    def correspondence(self, ctx: Ctx):
        from abtem import Waves
        from abtem.finite_difference import (LaplaceOperator, _multislice_exponential_series, finite_difference_coefficients)

        rng = ctx.rng
        drv = LeanDriver(self.drive_file)
        lines, todo = [], []
        for d in (-1, 0, 1, 2):
            for acc in range(-3, 22):
                case = dict(fn="finite_difference_coefficients", derivative=d, accuracy=acc)
                if acc > 18 and acc % 2 == 0:
                    continue  # sympy path: not modelled
                try:
                    impl = ["ok"] + [float(v) for v in finite_difference_coefficients(d, acc)]
                except Exception as e:  # noqa
                    impl = ["err", err_kind(e)]
                lines.append(f"coeffs {d} {acc}")
                todo.append(("finite_difference_coefficients", case, impl))
                ctx.count("coefficients:" + impl[0])
        for acc in range(2, 20, 2):
            co = [Fraction(float(v)) for v in finite_difference_coefficients(2, acc)]
            m = len(co) // 2
            impl = ["num"] + [float(sum(cj * Fraction(j) ** q for cj, j in zip(co, range(-m, m + 1)))) for q in range(acc + 2)]
            impl.append([float(sum(abs(cj) * abs(Fraction(j)) ** q for cj, j in zip(co, range(-m, m + 1)))) or 1.0 for q in range(acc + 2)])
            lines.append(f"moments {acc}")
            todo.append(("stencil moments", dict(fn="moments", accuracy=acc), impl))
        cfgs = [(rng.choice([2, 4]), 0.5, 0.5), (rng.choice([4, 6, 8]), 0.25, 0.5), (rng.choice([2, 6, 8]), 1.0, 0.125)]
        for t in range(ctx.n(12, 120)):
            acc, sx, sy = cfgs[t % 3]
            h, w = rng.randint(3, 9), rng.randint(3, 9)
            re = [rng.randint(-5, 5) for _ in range(h * w)]
            im = [rng.randint(-5, 5) for _ in range(h * w)]
            a = (np.array(re) + 1j * np.array(im)).reshape(h, w).astype(np.complex64)
            waves = Waves(a.copy(), energy=ENERGY, sampling=(sx, sy))
            out = np.asarray(laplace_op(acc, (sx, sy)).apply(waves).array).astype(np.complex128)
            case = dict(fn="LaplaceOperator.apply", accuracy=acc, shape=[h, w], sampling=[sx, sy], re=re, im=im)
            lines.append(f"laplace {acc} {rat_s(sx)} {rat_s(sy)} {h} {w} {list_s(re)}")
            todo.append(("LaplaceOperator.apply(real part)", case, ["arr", out.real.reshape(-1)]))
            lines.append(f"laplace {acc} {rat_s(sx)} {rat_s(sy)} {h} {w} {list_s(im)}")
            todo.append(("LaplaceOperator.apply(imag part)", case, ["arr", out.imag.reshape(-1)]))
            ctx.count(f"laplace:acc={acc}:{'iso' if sx == sy else 'aniso'}:{'small' if min(h, w) <= acc // 2 else 'regular'}")
        for t in range(ctx.n(6, 40)):
            y = dyadic(rng, -1, 1, 4) or 0.25
            lam = -8.0
            wl, dz = 0.5, -y * 4 * np.pi / (0.5 * 8.0)  # mu = i * dz * wl * lam / (4 pi) = i * y
            calls = [0]

            def lap(a):
                calls[0] += 1
                return lam * a

            w0 = np.ones((2, 2), dtype=np.complex128)
            try:
                res = _multislice_exponential_series(w0.copy(), np.zeros((2, 2)), lap, wl, dz, tolerance=1e-14, max_terms=60, order=1)
                impl = ["cplx", complex(res[0, 0])]
            except Exception as e:  # noqa
                impl = ["err", err_kind(e)]
            lines.append(f"expseries {rat_s(y)} {calls[0]}")
            todo.append(("_multislice_exponential_series", dict(fn="expseries", y=y, terms=calls[0]), impl))
            ctx.count(f"expseries:terms={calls[0]}")
        from abtem.finite_difference import DivergedError, NotConvergedError

        for t in range(ctx.n(30, 300)):
            K = rng.randint(1, 4)
            amps = [dyadic(rng, 0, 4, 3) for _ in range(K)]
            if sum(amps) == 0:
                amps[0] = 1.0
            ys = [rng.choice([0.0, dyadic(rng, 0, 1, 4), dyadic(rng, 0, 3, 3), dyadic(rng, 0, 8, 2)]) for _ in range(K)]
            tol = rng.choice([1e-16, 1e-8, 1e-3, 0.25])
            mt = rng.choice([2, 3, 5, 12, 80])
            lam = np.array([-y * 4 * np.pi / 0.5 for y in ys])  # wavelength 0.5, thickness 1: mu_k = i * lam_k * 0.5 / (4 pi) = -i y_k
            calls = [0]

            def lapk(a, lam=lam, calls=calls):
                calls[0] += 1
                return lam.reshape(a.shape) * a

            w0 = np.array(amps, dtype=np.complex128).reshape(1, K)
            try:
                _multislice_exponential_series(w0.copy(), np.zeros((1, K)), lapk, 0.5, 1.0, tolerance=tol, max_terms=mt, order=1)
                impl = f"converged {calls[0]}"
            except DivergedError:
                impl = f"diverged {calls[0]}"
            except NotConvergedError:
                impl = "not_converged"
            case = dict(fn="series", amps=amps, ys=ys, tol=tol, max_terms=mt)
            lines.append("series " + ";".join(f"{rat_s(a)},{rat_s(y)}" for a, y in zip(amps, ys)) + f" {rat_s(tol)} {mt}")
            todo.append(("_multislice_exponential_series(convergence logic)", case, ["str", impl]))
            ctx.count("series:" + impl.split()[0])
        outs = drv.query(lines)
        for (fn, case, impl), out in zip(todo, outs):
            t = out.split()
            if t[0] == "err":
                ctx.agree(fn, case, ["err", t[1]], impl)
            elif impl[0] == "str":
                ctx.agree(fn, case, out.strip(), impl[1])
            elif impl[0] == "ok":
                ctx.agree(fn, case, ["ok"] + [float(Fraction(v)) for v in parse_list(t[1], str)], impl)
            elif impl[0] == "num":
                model = [float(Fraction(v)) for v in parse_list(t[1], str)]
                ctx.agree(fn, case, model, impl[1:-1], ok=len(model) == len(impl) - 2 and
                          all(abs(a - b) <= 1e-13 * sc for a, b, sc in zip(model, impl[1:-1], impl[-1])))
            elif impl[0] == "arr":
                model = np.array([float(Fraction(v)) for v in parse_list(t[1], str)])
                sc = float(np.abs(impl[1]).max()) or 1.0
                ctx.agree(fn, case, model.tolist(), impl[1].tolist(), ok=model.shape == impl[1].shape and float(np.abs(model - impl[1]).max()) <= 2e-5 * sc)
            elif impl[0] == "cplx":
                model = complex(float(Fraction(t[1])), float(Fraction(t[2])))
                ctx.agree(fn, case, [model.real, model.imag], [impl[1].real, impl[1].imag], ok=abs(model - impl[1]) <= 1e-12)
            else:
                ctx.agree(fn, case, out, impl)
            ctx.case(case, nontrivial=True)
        ctx.traces += len(todo)

    def conformance(self, ctx: Ctx):
        for i in range(ctx.n(36, 400)):
            self.run(ctx, gen(ctx, "eigen", i))
        for i in range(ctx.n(8, 60)):
            self.run(ctx, gen(ctx, "step", i))
        for i in range(ctx.n(4, 14)):
            self.run(ctx, gen(ctx, "vacuum", i))
        for i in range(ctx.n(2, 8)):
            self.run(ctx, gen(ctx, "lazy", i))

    def run(self, ctx: Ctx, c):
        try:
            ORACLES[c["oracle"]](ctx, c)
        except Exception as e:  # noqa
            ctx.violation(f"{c['oracle']}-raises", c, {"what": "the implementation raised", "error": f"{type(e).__name__}: {e}"[:300]})
        ctx.count(f"{c['oracle']}:acc={c['accuracy']}")
        ctx.case(c, nontrivial=True)

    def replay(self, ctx: Ctx, case):
        ORACLES[case["oracle"]](ctx, case)


if __name__ == "__main__":
    sys.exit(run_property(C37()))
