"""C21 — the contrast transfer function implements the polar aberration expansion (abtem/transfer.py).

Correspondence: the Float twin of `Aberrations._evaluate_from_angular_grid` (generated chi terms / scaling / complex exponential
inside the hand model of Model/Aberrations.lean) and the alias / attribute bookkeeping against the real classes.
Conformance: Kirkland's polynomial written out independently in numpy against the real kernels, rotation covariance,
defocus = -C10 and alias equivalence observed on the real objects.
"""
import math
import sys

import numpy as np

from c23 import POLAR, SCALE, arr, bl, gen_coeffs, precision
from c24 import bits, fx, ufx, unbits
from common import Ctx, LeanDriver, Property, err_kind, run_property

# independent statement of the expansion (Kirkland, Advanced Computing in Electron Microscopy, Eq. 2.22, up to 5th order)
ORDERS = [(1, 0, "C10", None), (1, 2, "C12", "phi12"), (2, 1, "C21", "phi21"), (2, 3, "C23", "phi23"), (3, 0, "C30", None),
          (3, 2, "C32", "phi32"), (3, 4, "C34", "phi34"), (4, 1, "C41", "phi41"), (4, 3, "C43", "phi43"), (4, 5, "C45", "phi45"),
          (5, 0, "C50", None), (5, 2, "C52", "phi52"), (5, 4, "C54", "phi54"), (5, 6, "C56", "phi56")]
# the documented alias names (abTEM walkthrough "Contrast transfer function" / CTF docstring), written out independently of the source table
ALIASES_DOC = {"defocus": "C10", "Cs": "C30", "C5": "C50", "astigmatism": "C12", "astigmatism3": "C32", "astigmatism5": "C52",
               "coma": "C21", "coma4": "C41", "trefoil": "C23", "trefoil4": "C43", "quadrafoil": "C34", "quadrafoil5": "C54",
               "pentafoil": "C45", "hexafoil": "C56"}
ALIASES_DOC.update({k + "_angle": "phi" + v[1:] for k, v in list(ALIASES_DOC.items()) if v[2] != "0"})
JUNK = ["C99", "phi_", "foo_angle", "Defocus", "cs", "C1", "astigmatism4", "phi10", "defocuss"]


def chi_spec(coeffs, alpha, phi):
    out = np.zeros_like(alpha, dtype=np.float64)
    for n, m, c, a in ORDERS:
        out = out + alpha ** (n + 1) / (n + 1) * coeffs.get(c, 0.0) * np.cos(m * (phi - (coeffs.get(a, 0.0) if a else 0.0)))
    return out


def small_coeffs(rng, density, max_phase=40.0, amax=0.03):
    """coefficients whose individual phase contribution at amax stays below max_phase (for float32 runs)"""
    out = {}
    for s in POLAR:
        if rng.random() > density:
            continue
        if s.startswith("phi"):
            out[s] = rng.uniform(-math.pi, math.pi)
        else:
            n = int(s[1])
            out[s] = rng.uniform(-1, 1) * max_phase * (n + 1) / amax ** (n + 1) * 0.0197 / (2 * math.pi)
    return out


class C21(Property):
    id = "C21"
    props_file = "AbtemVerif/Props/C21.lean"
    drive_file = "AbtemVerif/Drive/C21.lean"
    trusted = [
        "py2lean pointwise reading of the chi accumulation, scaling and complex exponential (broadcasting, ensemble axes, dtype casts and "
        "the numba vectorisation of _complex_exponential are not translated); the Float twin is executed against the real method every run",
        "hand model Model/Aberrations.lean of the coefficient dict, __getattr__/__setattr__/defocus, zip(polar_symbols, values) and the "
        "guarded accumulation (the guard symbol tuples and the alias table are generated): tied by correspondence on random attribute "
        "sequences and coefficient sets; fingerprints reported",
        "IEEE: theorems over the reals; float64 twin vs Python to 1e-8, float32 runs to 2e-3 with phases kept below ~100 rad",
    ]
    assumptions = ["scalar coefficients (distributions add ensemble axes: member i == scalar run i is checked by the oracle only)"]
    rule = ("random subsets of the 25 coefficients (typical magnitudes per order, angles in (-pi, pi), also angle-only and all-zero sets), "
            "explicit 3x4 (alpha, phi) arrays, energies 60-300 keV, float64/float32; random attribute set/get sequences over aliases, symbols, "
            "defocus and junk names; distinct = distinct case JSON; non-trivial = at least one non-zero coefficient / one set operation")

    # ------------------------------------------------------------------ correspondence
    def gen_transfer(self, ctx: Ctx):
        rng = ctx.rng
        prec = rng.choice(["float64", "float64", "float64", "float32"])
        mode = rng.choice(["typical", "typical", "sparse", "angles-only", "zero", "single"])
        if prec == "float32":
            co = small_coeffs(rng, 0.5)
        elif mode == "typical":
            co = gen_coeffs(rng, rng.choice([0.3, 0.6, 1.0]))
        elif mode == "sparse":
            co = gen_coeffs(rng, 0.1)
        elif mode == "angles-only":
            co = {s: rng.uniform(-3, 3) for s in POLAR if s.startswith("phi") and rng.random() < 0.5}
        elif mode == "single":
            s = rng.choice([s for s in POLAR if not s.startswith("phi")])
            co = {s: rng.uniform(-1, 1) * SCALE[int(s[1])]}
        else:
            co = {}
        n = 12
        return dict(kind="transfer", precision=prec, mode=mode, energy=fx(rng.choice([60e3, 100e3, 200e3, 300e3])),
                    coeffs={k: fx(v) for k, v in co.items()}, shape=[3, 4],
                    alpha=[fx(rng.choice([rng.uniform(0, 0.03), 0.0, rng.uniform(0, 0.004)])) for _ in range(n)],
                    phi=[fx(rng.uniform(-math.pi, math.pi)) for _ in range(n)])

    def impl_transfer(self, c):
        from abtem import transfer as tr

        dt = np.float64 if c["precision"] == "float64" else np.float32
        alpha = arr(c["alpha"], tuple(c["shape"])).astype(dt)
        phi = arr(c["phi"], tuple(c["shape"])).astype(dt)
        with precision(c["precision"]):
            ab = tr.Aberrations(aberration_coefficients={s: ufx(v) for s, v in c["coeffs"].items()}, energy=ufx(c["energy"]))
            out = np.asarray(ab._evaluate_from_angular_grid(alpha, phi)).astype(np.complex128).reshape(-1)
            values = [float(v) for v in ab.aberration_coefficients.values()]
            wl = float(ab.wavelength)
        return out, alpha.astype(np.float64).reshape(-1), phi.astype(np.float64).reshape(-1), values, wl

    def gen_attrs(self, ctx: Ctx):
        from abtem.transfer import polar_aliases

        rng = ctx.rng
        names = list(polar_aliases) + POLAR
        ops = []
        val = lambda: fx(rng.choice([rng.uniform(-1e3, 1e3), 0.0, 0.0, float(rng.randint(-5, 5))]))  # zero often: overwriting with 0
        for _ in range(rng.randint(1, 8)):
            r = rng.random()
            if r < 0.25:  # obj.set_aberrations({...}); repeated names within the history are intended
                pool = ops and [o[1] for o in ops if o[0] == "s"] or []
                items = [[rng.choice(pool + names + ["defocus"]), val()] for _ in range(rng.randint(1, 3))]
                if len({i[0] for i in items}) == len(items):
                    ops.append(["u", items])
                    continue
            if r < 0.55:
                ops.append(["s", rng.choice(names + names + ["defocus", "defocus"] + JUNK), fx(rng.choice([rng.uniform(-1e3, 1e3), 0.0, float(rng.randint(-5, 5))]))])
            else:
                ops.append(["g", rng.choice(names + ["defocus", "defocus"] + JUNK)])
        return dict(kind="attrs", cls=rng.choice(["Aberrations", "CTF", "SpatialEnvelope"]), ops=ops)

    def impl_attrs(self, c):
        from abtem import transfer as tr

        obj = {"Aberrations": lambda: tr.Aberrations(energy=1e5), "CTF": lambda: tr.CTF(energy=1e5),
               "SpatialEnvelope": lambda: tr.SpatialEnvelope(angular_spread=1.0, energy=1e5)}[c["cls"]]()
        outs = []
        for op in c["ops"]:
            try:
                if op[0] == "s":
                    setattr(obj, op[1], ufx(op[2]))
                    outs.append("ok")
                elif op[0] == "u":
                    obj.set_aberrations({n: ufx(v) for n, v in op[1]})
                    outs.append("ok")
                else:
                    outs.append(str(bits(float(getattr(obj, op[1])))))
            except Exception as e:  # noqa
                outs.append("err:" + err_kind(e).replace("other_error", "attribute_error") if isinstance(e, AttributeError) else "err:" + err_kind(e))
        return outs, [float(v) for v in obj.aberration_coefficients.values()]

    def correspondence(self, ctx: Ctx):
        from abtem.transfer import Aberrations, polar_aliases, polar_symbols

        drv = LeanDriver(self.drive_file)
        names = list(polar_aliases) + list(polar_symbols) + JUNK + ["defocus"]
        tcases = [self.gen_transfer(ctx) for _ in range(ctx.n(120, 2500))]
        acases = [self.gen_attrs(ctx) for _ in range(ctx.n(150, 3000))]
        timpl = [self.impl_transfer(c) for c in tcases]
        lines = ["symbols", "transfer 1 2", "attrs x=1", "nonsense"] + [f"resolve {n}" for n in names]
        spans = []
        for c, (out, alpha, phi, values, wl) in zip(tcases, timpl):
            spans.append(len(lines))
            lines += [f"transfer {bits(a)} {bits(p)} {bits(wl)} {bl(values)}" for a, p in zip(alpha, phi)]
        a0 = len(lines)
        for c in acases:
            lines.append("attrs " + ";".join(
                "s=%s=%d" % (o[1], bits(ufx(o[2]))) if o[0] == "s" else
                "u=" + "=".join("%s=%d" % (n, bits(ufx(v))) for n, v in o[1]) if o[0] == "u" else f"g={o[1]}" for o in c["ops"]))
        outs = drv.query(lines)
        ctx.agree("polar_symbols keys (order)", "symbols", outs[0], "ok " + ",".join(polar_symbols.keys()))
        ctx.agree("fresh dict keys == polar_symbols keys", "symbols", list(Aberrations(energy=1e5).aberration_coefficients.keys()),
                  list(polar_symbols.keys()))
        for o in outs[1:4]:
            ctx.agree("driver rejects malformed requests", "malformed", o, "bad-op")
        for n, o in zip(names, outs[4:4 + len(names)]):
            r = polar_aliases.get(n, n)
            ctx.agree("polar_aliases.get(name, name) / in polar_symbols", n, o, f"ok {r} {'T' if r in polar_symbols else 'F'}")
        for c, (out, alpha, phi, values, wl), s in zip(tcases, timpl, spans):
            model = []
            for o in outs[s:s + len(out)]:
                re, im = o.split()[1].split(",")
                model.append(complex(unbits(re), unbits(im)))
            tol = 1e-8 if c["precision"] == "float64" else 2e-3
            ok = all(abs(a - b) <= tol for a, b in zip(model, out))
            ctx.agree("Aberrations._evaluate_from_angular_grid (Float twin in the dict/guard model vs Python)", c,
                      [[z.real, z.imag] for z in model], [[z.real, z.imag] for z in out], ok=ok)
            ctx.count(f"transfer:{c['precision']}:{c['mode']}")
            ctx.case(c, nontrivial=any(ufx(v) != 0 for v in c["coeffs"].values()))
        for c, o in zip(acases, outs[a0:]):
            res, vals = self.impl_attrs(c)
            body = o[3:]
            mres, mvals = body.split("|")
            ok = mres.split(";") == res and [unbits(b) for b in mvals.split(",")] == vals
            ctx.agree(f"{c['cls']} attribute protocol (__setattr__/__getattr__/defocus) vs model", c, o, [res, vals], ok=ok)
            ctx.count("attrs:" + c["cls"])
            for op in c["ops"]:
                if op[0] == "u":
                    ctx.count("attr-op:u:set_aberrations:" + ("with-zero" if any(ufx(v) == 0 for _, v in op[1]) else "nonzero"))
                    continue
                ctx.count("attr-op:" + op[0] + ":" + ("defocus" if op[1] == "defocus" else "junk" if op[1] in JUNK else
                                                        "symbol" if op[1] in POLAR else "alias"))
            ctx.case(c, nontrivial=any(op[0] in "su" for op in c["ops"]))
        ctx.traces += len(tcases) + len(acases)

    # ------------------------------------------------------------------ conformance (independent of the Lean model)
    def oracle(self, ctx: Ctx, c):
        from abtem import transfer as tr
        from abtem.transfer import polar_aliases

        chk = c["check"]
        with precision(c.get("precision", "float64")):
            tol = 1e-8 if c.get("precision", "float64") == "float64" else 3e-3
            co = {s: ufx(v) for s, v in c.get("coeffs", {}).items()}
            energy = ufx(c.get("energy", fx(1e5)))
            grid = dict(gpts=tuple(c.get("gpts", [12, 10])), extent=tuple(ufx(v) for v in c.get("extent", [fx(10.0), fx(9.0)])))
            if chk == "alias-table":
                if dict(polar_aliases) != ALIASES_DOC:
                    diff = {k: (polar_aliases.get(k), ALIASES_DOC.get(k)) for k in set(polar_aliases) | set(ALIASES_DOC)
                            if polar_aliases.get(k) != ALIASES_DOC.get(k)}
                    return ctx.violation("alias-table-differs-from-documented-names", c, {"differences": diff})
            elif chk == "kirkland":
                ab = tr.Aberrations(aberration_coefficients=co, energy=energy, **grid)
                alpha, phi = ab._angular_grid("cpu")
                k = np.asarray(ab._evaluate_kernel()).astype(np.complex128)
                exp = np.exp(-1j * 2 * np.pi / ab.wavelength * chi_spec(co, alpha.astype(np.float64), phi.astype(np.float64)))
                if k.shape != exp.shape or not (np.abs(k - exp).max() <= tol):
                    return ctx.violation("aberration-kernel-differs-from-exp-minus-i-2pi-chi-over-lambda", c,
                                         {"max_abs_diff": float(np.abs(k - exp).max()) if k.shape == exp.shape else "shape"})
                ctf = np.asarray(tr.CTF(aberration_coefficients=co, energy=energy, **grid)._evaluate_kernel()).astype(np.complex128)
                if not (np.abs(ctf - exp).max() <= tol):
                    return ctx.violation("ctf-without-aperture-differs-from-aberration-function", c, {"max_abs_diff": float(np.abs(ctf - exp).max())})
            elif chk == "rotation":
                d = ufx(c["delta"])
                rot = {s: (v + d if s.startswith("phi") else v) for s, v in co.items()}
                for s in POLAR:  # an angle that is absent is 0 and must be rotated as well
                    if s.startswith("phi") and s not in rot:
                        rot[s] = d
                alpha = arr(c["alpha"], (3, 4))
                phi = arr(c["phi"], (3, 4))
                a = np.asarray(tr.Aberrations(aberration_coefficients=rot, energy=energy)._evaluate_from_angular_grid(alpha, phi))
                b = np.asarray(tr.Aberrations(aberration_coefficients=co, energy=energy)._evaluate_from_angular_grid(alpha, phi - d))
                if not (np.abs(a - b).max() <= tol):
                    return ctx.violation("rotating-angle-coefficients-differs-from-rotating-the-azimuth", c, {"max_abs_diff": float(np.abs(a - b).max())})
            elif chk == "defocus":
                v = ufx(c["value"])
                for name, mk in (("Aberrations", lambda **k: tr.Aberrations(energy=energy, **k)), ("CTF", lambda **k: tr.CTF(energy=energy, **k)),
                                 ("SpatialEnvelope", lambda **k: tr.SpatialEnvelope(angular_spread=1.0, energy=energy, **k))):
                    o = mk(defocus=v)
                    if o.C10 != -v or o.defocus != v or o.aberration_coefficients["C10"] != -v:
                        return ctx.violation(f"defocus-is-not-minus-C10-{name}-constructor", c, {"C10": o.C10, "defocus": o.defocus})
                    o = mk(C10=v)
                    if o.defocus != -v:
                        return ctx.violation(f"defocus-is-not-minus-C10-{name}-getter", c, {"C10": o.C10, "defocus": o.defocus})
                    o = mk()
                    o.defocus = v
                    if o.C10 != -v or o.defocus != v:
                        return ctx.violation(f"defocus-is-not-minus-C10-{name}-setter", c, {"C10": o.C10, "defocus": o.defocus})
                    o = mk(aberration_coefficients={"defocus": v})
                    if o.C10 != -v:
                        return ctx.violation(f"defocus-is-not-minus-C10-{name}-dict", c, {"C10": o.C10})
                    # other value types: int, numpy scalars, and sequences (abTEM turns a sequence into a distribution of values)
                    iv = int(round(v))
                    for val in (iv, np.float64(v), np.int64(iv), np.float32(iv)):
                        o = mk()
                        o.defocus = val
                        if float(o.C10) != -float(val) or float(o.defocus) != float(val):
                            return ctx.violation(f"defocus-is-not-minus-C10-{name}-setter", c, {"type": type(val).__name__, "C10": repr(o.C10)})
                    for seq in ([v, v + 1.0], (v, 2 * v - 3.0, 0.0), np.array([v, -v])):
                        exp = [-float(x) for x in seq]
                        for route in ("setter", "constructor", "C10"):
                            o = mk(defocus=seq) if route == "constructor" else mk()
                            try:
                                if route == "setter":
                                    o.defocus = seq
                                elif route == "C10":
                                    o.C10 = [-float(x) for x in seq]
                                got = [float(x) for x in o.C10.values]
                                back = [float(x) for x in o.defocus.values]
                            except Exception as e:  # noqa
                                return ctx.violation(f"defocus-sequence-through-{route}-raises", c, {"class": name, "error": f"{type(e).__name__}: {e}"[:200]})
                            if got != exp or back != [float(x) for x in seq]:
                                return ctx.violation(f"defocus-sequence-through-{route}-is-not-minus-C10", c, {"class": name, "C10": got, "defocus": back})
            elif chk == "alias":
                v = ufx(c["value"])
                alias = c["alias"]
                sym = polar_aliases[alias]
                alpha = arr(c["alpha"], (3, 4))
                phi = arr(c["phi"], (3, 4))
                base = dict(co)
                base.pop(sym, None)
                a = tr.Aberrations(aberration_coefficients=dict(base, **{alias: v}), energy=energy)
                b = tr.Aberrations(aberration_coefficients=dict(base, **{sym: (-v if alias == "defocus" else v)}), energy=energy)
                if dict(a.aberration_coefficients) != dict(b.aberration_coefficients):
                    return ctx.violation("alias-and-symbol-set-different-coefficients", c, {"alias": dict(a.aberration_coefficients), "symbol": dict(b.aberration_coefficients)})
                if getattr(a, alias) != v or getattr(a, sym) != (-v if alias == "defocus" else v):
                    return ctx.violation("alias-read-differs-from-written-value", c, {"alias": getattr(a, alias), "symbol": getattr(a, sym)})
                ka, kb = (np.asarray(o._evaluate_from_angular_grid(alpha, phi)) for o in (a, b))
                if not np.array_equal(ka, kb):
                    return ctx.violation("alias-and-symbol-give-different-transfer-functions", c, {"max_abs_diff": float(np.abs(ka - kb).max())})
            elif chk == "history":
                # a history of updates on ONE object (constructor kwargs, set_aberrations, attribute writes; aliases and symbols; values
                # overwritten with 0) must leave it in the state of a fresh object built from the last value written per coefficient
                mk = {"Aberrations": lambda **k: tr.Aberrations(energy=energy, **k), "CTF": lambda **k: tr.CTF(energy=energy, **k),
                      "SpatialEnvelope": lambda **k: tr.SpatialEnvelope(angular_spread=1.0, energy=energy, **k)}[c["cls"]]
                steps = c["steps"]
                expected = {}

                def note(name, v):
                    sym = polar_aliases.get(name, name)
                    expected[sym] = -v if name == "defocus" else v

                first = {n: ufx(v) for n, v in steps[0][1]}
                obj = mk(**first) if steps[0][0] == "kwargs" else mk(aberration_coefficients=first)
                for n, v in first.items():
                    note(n, v)
                alpha = arr(c["alpha"], (3, 4))
                phi = arr(c["phi"], (3, 4))
                for how, items in steps[1:]:
                    vals = {n: ufx(v) for n, v in items}
                    if how == "evaluate":
                        # evaluating in the middle of a history must not freeze anything (round-3 seed C21-r3: an Aberrations object cached
                        # at the first evaluation kept the old wavelength after a later energy change)
                        obj._evaluate_from_angular_grid(alpha, phi)
                        continue
                    if how == "energy":
                        energy = vals["energy"]
                        obj.energy = energy
                        continue
                    if how == "set_aberrations":
                        obj.set_aberrations(vals)
                    else:
                        for n, v in vals.items():
                            setattr(obj, n, v)
                    for n, v in vals.items():
                        note(n, v)
                got = {k: float(v) for k, v in obj.aberration_coefficients.items()}
                want = {k: float(expected.get(k, 0.0)) for k in got}
                if got != want:
                    bad = {k: (got[k], want[k]) for k in got if got[k] != want[k]}
                    return ctx.violation("update-history-leaves-stale-coefficient", c, {"observed_vs_expected": bad})
                ctx.count("history-steps:" + ("with-energy-change" if any(h == "energy" for h, _ in steps) else "coefficients-only")
                          + (":evaluated-midway" if any(h == "evaluate" for h, _ in steps) else ""))
                fresh = tr.Aberrations(aberration_coefficients=want, energy=energy)
                src = obj if c["cls"] == "Aberrations" else tr.Aberrations(aberration_coefficients=dict(obj.aberration_coefficients), energy=energy)
                ka, kb = (np.asarray(o._evaluate_from_angular_grid(alpha, phi)) for o in (src, fresh))
                if c["cls"] == "CTF":
                    ka = np.asarray(obj._evaluate_from_angular_grid(alpha, phi))
                if ka.shape != kb.shape or not (np.abs(ka - kb).max() <= tol):
                    return ctx.violation("update-history-changes-the-transfer-function", c, {"max_abs_diff": float(np.abs(ka - kb).max())})
            elif chk == "ensemble":
                import abtem
                from itertools import product

                alpha = arr(c["alpha"], (3, 4))
                phi = arr(c["phi"], (3, 4))
                base = dict(co)
                dists = {}
                for spec in c["dists"]:
                    sym = spec["symbol"]
                    base.pop(sym, None)
                    if spec.get("gaussian"):
                        dists[sym] = abtem.distributions.gaussian(ufx(spec["gaussian"][0]), int(spec["gaussian"][1]))
                    else:
                        dists[sym] = abtem.distributions.from_values(
                            [ufx(v) for v in spec["values"]],
                            weights=None if spec.get("weights") is None else np.array([ufx(w) for w in spec["weights"]]))
                obj = tr.Aberrations(aberration_coefficients=dict(base, **dists), energy=energy)
                e = np.asarray(obj._evaluate_from_angular_grid(alpha, phi))
                # axes follow the coefficient dict (polar_symbols) order and are labelled with the symbol
                order = [ax.label for ax in obj.ensemble_axes_metadata]
                if sorted(order) != sorted(dists) or e.shape != tuple(len(dists[s_].values) for s_ in order) + (3, 4):
                    return ctx.violation("aberration-ensemble-has-wrong-axes", c, {"labels": order, "shape": list(e.shape)})
                # amplitude weight of a member: the distribution weight; on an axis that is averaged afterwards (ensemble_mean, e.g. gaussian)
                # the weights are rescaled so that their squares average to one (mean of member intensities = weighted mean)
                eff = {}
                for s_, dd in dists.items():
                    ww = np.asarray(dd.weights, dtype=float)
                    if getattr(dd, "ensemble_mean", False) and (ww ** 2).sum() > 0:
                        ww = ww * np.sqrt(len(ww) / (ww ** 2).sum())
                    eff[s_] = ww
                for idx in product(*[range(len(dists[s_].values)) for s_ in order]):
                    vals = {s_: float(dists[s_].values[i]) for s_, i in zip(order, idx)}
                    w = float(np.prod([float(eff[s_][i]) for s_, i in zip(order, idx)]))
                    s1 = np.asarray(tr.Aberrations(aberration_coefficients=dict(base, **vals), energy=energy)._evaluate_from_angular_grid(alpha, phi))
                    tole = (1e-7 if c["precision"] == "float64" else 5e-3) * max(1.0, abs(w))
                    # member = (product of the weights of its distributions) x scalar run, so |member| = that weight
                    if not (np.abs(e[idx] - w * s1).max() <= tole):
                        return ctx.violation("aberration-ensemble-member-differs-from-weighted-scalar-run", c, {"member": list(idx), "weight": w})
                    if not (np.abs(np.abs(e[idx]) - abs(w)).max() <= tole):
                        return ctx.violation("aberration-ensemble-member-modulus-is-not-its-weight", c, {"member": list(idx), "weight": w})
            elif chk == "scherzer":
                # the string "scherzer" for the defocus: C10 = -sign(Cs) sqrt(1.5 |Cs| lambda), whichever of the two names of the
                # coefficient carries the string (Cs given first)
                from c24 import spec_wavelength

                Cs = ufx(c["value"])
                want = -math.copysign(math.sqrt(1.5 * abs(Cs) * float(spec_wavelength(energy))), Cs) if Cs != 0 else 0.0
                for cls_name, mk in (("Aberrations", tr.Aberrations), ("CTF", tr.CTF)):
                    for name in ("defocus", "C10"):
                        for route in ("constructor", "set_aberrations"):
                            if route == "constructor":
                                o = mk(aberration_coefficients={"Cs": Cs, name: "scherzer"}, energy=energy)
                            else:
                                o = mk(energy=energy, Cs=Cs)
                                o.set_aberrations({name: "Scherzer"})
                            got = float(o.C10)
                            if not (abs(got - want) <= 1e-9 * (1 + abs(want))) or not (abs(float(o.defocus) + got) <= 1e-12 * (1 + abs(got))):
                                return ctx.violation(f"scherzer-defocus-through-{name}-has-wrong-value-or-sign", c,
                                                     {"class": cls_name, "route": route, "C10": got, "expected_C10": want})
            else:
                raise ValueError(chk)

    def gen_conf(self, ctx: Ctx, chk: str):
        from abtem.transfer import polar_aliases

        rng = ctx.rng
        prec = rng.choice(["float64", "float64", "float32"])
        co = small_coeffs(rng, rng.choice([0.3, 0.7])) if prec == "float32" else gen_coeffs(rng, rng.choice([0.15, 0.5, 1.0]))
        c = dict(check=chk, precision=prec, energy=fx(rng.choice([60e3, 80e3, 100e3, 200e3, 300e3])), coeffs={k: fx(v) for k, v in co.items()},
                 alpha=[fx(rng.uniform(0, 0.03)) for _ in range(12)], phi=[fx(rng.uniform(-math.pi, math.pi)) for _ in range(12)])
        if chk == "kirkland":
            c.update(gpts=[rng.randint(6, 20), rng.randint(6, 20)], extent=[fx(rng.uniform(8, 25)), fx(rng.uniform(8, 25))])
        if chk == "rotation":
            c["delta"] = fx(rng.uniform(-math.pi, math.pi))
        if chk in ("defocus", "alias"):
            c["value"] = fx(rng.choice([rng.uniform(-500, 500), float(rng.randint(-3, 3)), rng.uniform(-3, 3)]))
        if chk == "alias":
            c["alias"] = rng.choice(list(polar_aliases))
            if "angle" in c["alias"]:
                c["value"] = fx(rng.uniform(-math.pi, math.pi))
        if chk == "history":
            names = list(polar_aliases) + POLAR
            c["cls"] = rng.choice(["Aberrations", "CTF", "SpatialEnvelope"])
            c["precision"] = "float64"

            def items(pool):
                ns = rng.sample(pool, rng.randint(1, 3))
                out = []
                for n in ns:
                    sym = polar_aliases.get(n, n)
                    scale = math.pi if sym.startswith("phi") else SCALE[int(sym[1])]
                    out.append([n, fx(rng.choice([rng.uniform(-1, 1) * scale, 0.0, 0.0]))])
                return out

            steps = [[rng.choice(["kwargs", "dict"]), [[n, fx(ufx(v) if ufx(v) != 0 else 1.0)] for n, v in items(names)]]]
            for _ in range(rng.randint(1, 4)):
                touched = [n for st in steps if st[0] not in ("evaluate", "energy") for n, _ in st[1]]
                steps.append([rng.choice(["set_aberrations", "set_aberrations", "setattr"]), items(touched + touched + names)])
                if rng.random() < 0.5:
                    steps.append(["evaluate", []])
                if rng.random() < 0.4:
                    steps.append(["energy", [["energy", fx(rng.choice([60e3, 80e3, 120e3, 200e3, 300e3]))]]])
                    if rng.random() < 0.5:
                        steps.append(["evaluate", []])
            c["steps"] = steps
        if chk == "ensemble":
            c["dists"] = []
            for sym in rng.sample(POLAR, rng.choice([1, 1, 2, 2, 3])):
                scale = math.pi if sym.startswith("phi") else SCALE[int(sym[1])] * (1e-3 if prec == "float32" else 1)
                mode = rng.choice(["unit", "weighted", "weighted", "gaussian"])
                spec = dict(symbol=sym, values=[fx(rng.uniform(-1, 1) * scale) for _ in range(rng.randint(1, 3))], weights=None)
                if mode == "weighted":
                    spec["weights"] = [fx(rng.uniform(0.05, 2.0)) for _ in spec["values"]]
                if mode == "gaussian":
                    spec["gaussian"] = [fx(abs(rng.uniform(0.05, 1)) * scale), rng.randint(2, 4)]
                c["dists"].append(spec)
        if chk == "scherzer":
            c["value"] = fx(rng.choice([1, -1]) * 10 ** rng.uniform(4, 8))
        return c

    def conformance(self, ctx: Ctx):
        from abtem.transfer import polar_aliases

        for chk, n in (("alias-table", 1), ("kirkland", ctx.n(80, 1500)), ("rotation", ctx.n(60, 1200)), ("defocus", ctx.n(20, 300)),
                       ("alias", ctx.n(75, 1000)), ("history", ctx.n(120, 2500)), ("ensemble", ctx.n(40, 600)), ("scherzer", ctx.n(8, 60))):
            for i in range(n):
                c = self.gen_conf(ctx, chk)
                if chk == "alias" and i < len(polar_aliases):  # every alias at least once per run
                    c["alias"] = list(polar_aliases)[i]
                self.oracle(ctx, c)
                ctx.count("conformance:" + chk)
                ctx.case(c, nontrivial=True)

    def replay(self, ctx: Ctx, case):
        if "check" in case:
            return self.oracle(ctx, case)
        if case.get("kind") == "transfer":
            c = dict(check="kirkland", precision=case["precision"], energy=case["energy"], coeffs=case["coeffs"])
            return self.oracle(ctx, c)
        if case.get("kind") == "attrs":
            from abtem.transfer import polar_aliases

            res, vals = self.impl_attrs(case)
            exp = {}
            for op in case["ops"]:
                items = [[op[1], op[2]]] if op[0] == "s" else op[1] if op[0] == "u" else []
                for n, v in items:
                    if n == "defocus":
                        exp["C10"] = -ufx(v)
                    elif polar_aliases.get(n, n) in POLAR:
                        exp[polar_aliases.get(n, n)] = ufx(v)
            from abtem.transfer import polar_symbols

            want = [float(exp.get(k, 0.0)) for k in polar_symbols]
            if vals != want:
                ctx.violation("update-history-leaves-stale-coefficient", case, {"observed": vals, "expected": want})
            return
        for chk in ("defocus", "alias"):
            for _ in range(30):
                self.oracle(ctx, self.gen_conf(ctx, chk))

if __name__ == "__main__":
    sys.exit(run_property(C21()))
