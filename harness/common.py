"""Shared machinery of the abTEM Lean-4 proof checks (see DESIGN.md §2, §4).

A property module `harness/cXX.py` defines a subclass of `Property`; `run_property`
drives: translator -> lake build -> axiom/grep audit -> corpus -> unit correspondence
(model executed by the Lean driver vs. the real implementation) -> conformance of the
theorem's conclusion on the implementation -> failing-input search when a tie broke ->
evidence + exit code.

Exit codes: 0 ok (possibly with KNOWN-FINDING lines), 1 violation (VIOLATION line), 2
infrastructure error / timeout.
"""
from __future__ import annotations

import fcntl
import hashlib
import json
import os
import random
import re
import subprocess
import sys
import time
import traceback
from fractions import Fraction
from pathlib import Path

VERIF = Path(__file__).resolve().parent.parent
LEAN_DIR = Path(os.environ.get("VERIF_LEAN_DIR", VERIF / "lean"))
REPO = Path(os.environ.get("VERIF_REPO", "/repo"))
LOCK = LEAN_DIR / ".build.lock"
# runs against a scratch tree (seeded change under test) must not overwrite the committed evidence
OUT_DIR = Path(os.environ.get("VERIF_OUT_DIR", VERIF))
STD_AXIOMS = {"propext", "Classical.choice", "Quot.sound"}
FORBIDDEN = re.compile(
    r"\bsorry\b|\badmit\b|^\s*axiom\s|native_decide|bv_decide|implemented_by|\bunsafe\s|maxHeartbeats\s+0\b",
    re.M,
)

TRUSTED_COMMON = [
    "Lean 4.33.0 kernel and elaborator; Mathlib v4.33.0 as compiled under /opt/veriftools/mathlib4",
    "axioms allowed: propext, Classical.choice, Quot.sound (audited with #print axioms on every run); "
    "no sorry/admit/native_decide/bv_decide/user axioms (grep-audited on every run)",
    "correspondence harness (harness/common.py + harness/cXX.py): generators, canonicalisation, tolerance policy",
    "tools/py2lean.py translator for the generated definitions (Gen/*.lean), where the property uses them",
]


# --------------------------------------------------------------------------- utilities
def frac(x) -> Fraction:
    """exact rational value of a Python/numpy number"""
    if isinstance(x, Fraction):
        return x
    if isinstance(x, (int,)):
        return Fraction(x)
    import numpy as np

    if isinstance(x, np.integer):
        return Fraction(int(x))
    return Fraction(float(x))


def rat_s(x) -> str:
    f = frac(x)
    return str(f.numerator) if f.denominator == 1 else f"{f.numerator}/{f.denominator}"


def list_s(xs, f=str) -> str:
    xs = list(xs)
    return ",".join(f(x) for x in xs) if xs else "_"


def listlist_s(xss, f=str) -> str:
    xss = list(xss)
    return ";".join(list_s(xs, f) for xs in xss) if xss else "~"


def opt_s(x, f=str) -> str:
    return "none" if x is None else f(x)


def bool_s(b) -> str:
    return "T" if b else "F"


def parse_rat(s: str) -> Fraction:
    return Fraction(s)


def parse_list(s: str, f=int):
    return [] if s == "_" else [f(t) for t in s.split(",")]


def parse_listlist(s: str, f=int):
    return [] if s == "~" else [parse_list(t, f) for t in s.split(";")]


def err_kind(e: BaseException) -> str:
    for cls, name in (
        (ValueError, "value_error"),
        (RuntimeError, "runtime_error"),
        (IndexError, "index_error"),
        (KeyError, "key_error"),
        (TypeError, "type_error"),
        (ZeroDivisionError, "zero_division"),
        (AssertionError, "assertion_error"),
        (NotImplementedError, "not_implemented"),
    ):
        if type(e) is cls or (cls is not RuntimeError and isinstance(e, cls)):
            return name
    if isinstance(e, RuntimeError):
        return "runtime_error"
    return "other_error"


def dyadic(rng: random.Random, lo: float, hi: float, bits: int = 6) -> float:
    """random dyadic rational in [lo, hi] with `bits` fractional bits (exactly representable)"""
    q = 1 << bits
    return rng.randint(int(lo * q), int(hi * q)) / q


def close(a, b, rel=1e-9, abs_=1e-12) -> bool:
    a = float(a)
    b = float(b)
    if a != a or b != b:
        return a != a and b != b
    return abs(a - b) <= abs_ + rel * max(abs(a), abs(b))


def sha(obj) -> str:
    return hashlib.sha256(json.dumps(obj, sort_keys=True, default=str).encode()).hexdigest()[:16]


def jsonable(x):
    import numpy as np

    if isinstance(x, dict):
        return {str(k): jsonable(v) for k, v in x.items()}
    if isinstance(x, (list, tuple)):
        return [jsonable(v) for v in x]
    if isinstance(x, Fraction):
        return rat_s(x)
    if isinstance(x, np.ndarray):
        return jsonable(x.tolist())
    if isinstance(x, np.generic):
        return x.item()
    if isinstance(x, complex):
        return [x.real, x.imag]
    if isinstance(x, (str, int, float, bool)) or x is None:
        return x
    return repr(x)


class Timeout(Exception):
    pass


# --------------------------------------------------------------------------- lean side
class _Lock:
    def __init__(self, exclusive: bool):
        self.ex = exclusive

    def __enter__(self):
        LOCK.parent.mkdir(parents=True, exist_ok=True)
        self.f = open(LOCK, "a+")
        fcntl.flock(self.f, fcntl.LOCK_EX if self.ex else fcntl.LOCK_SH)
        return self

    def __exit__(self, *a):
        fcntl.flock(self.f, fcntl.LOCK_UN)
        self.f.close()


def _run(cmd, cwd=None, input=None, timeout=1800, env=None):
    p = subprocess.run(
        cmd, cwd=cwd, input=input, stdout=subprocess.PIPE, stderr=subprocess.STDOUT, text=True, timeout=timeout, env=env
    )
    out = "\n".join(l for l in p.stdout.splitlines() if "WARNING" not in l or "conda" not in l)
    return p.returncode, out


def translate(repo: Path = REPO):
    """regenerate lean/AbtemVerif/Gen from the working tree; returns (ok, report dict)"""
    tool = VERIF / "tools" / "py2lean.py"
    if not tool.exists():
        return True, {"sites": {}, "note": "no translator"}
    with _Lock(True):
        rc, out = _run([sys.executable, str(tool), "--repo", str(repo), "--out", str(LEAN_DIR / "AbtemVerif" / "Gen")])
    rep_path = LEAN_DIR / "AbtemVerif" / "Gen" / "report.json"
    rep = json.loads(rep_path.read_text()) if rep_path.exists() else {}
    rep["stdout"] = out[-2000:]
    return rc == 0, rep


def lake_build(targets):
    with _Lock(True):
        rc, out = _run(["lake", "build"] + list(targets), cwd=LEAN_DIR, timeout=3600)
    return rc == 0, out


def lean_theorems(relpath: str):
    """names of theorems declared in a Lean source file (top-level `theorem` keyword)"""
    src = (LEAN_DIR / relpath).read_text()
    src_nc = strip_comments(src)
    ns = []
    names = []
    for line in src_nc.splitlines():
        m = re.match(r"\s*namespace\s+(\S+)", line)
        if m:
            ns.append(m.group(1))
            continue
        m = re.match(r"\s*end\s+(\S+)", line)
        if m and ns and ns[-1] == m.group(1):
            ns.pop()
            continue
        m = re.match(r"\s*(?:@\[[^\]]*\]\s*)*(?:private\s+|protected\s+)?theorem\s+([^\s:({\[]+)", line)
        if m:
            names.append(".".join(ns + [m.group(1)]))
    return names


def strip_comments(src: str) -> str:
    # block comments (possibly nested) and line comments
    out = []
    i = 0
    depth = 0
    n = len(src)
    while i < n:
        if src.startswith("/-", i):
            depth += 1
            i += 2
        elif depth and src.startswith("-/", i):
            depth -= 1
            i += 2
        elif depth:
            if src[i] == "\n":
                out.append("\n")
            i += 1
        elif src.startswith("--", i):
            while i < n and src[i] != "\n":
                i += 1
        else:
            out.append(src[i])
            i += 1
    return "".join(out)


def grep_audit(relpaths):
    hits = []
    for rp in relpaths:
        p = LEAN_DIR / rp
        if not p.exists():
            continue
        for m in FORBIDDEN.finditer(strip_comments(p.read_text())):
            hits.append(f"{rp}: {m.group(0).strip()}")
    return hits


def lean_imports_closure(relpath: str):
    """project-local files transitively imported by relpath (for the grep audit)"""
    seen = []
    todo = [relpath]
    while todo:
        rp = todo.pop()
        if rp in seen:
            continue
        seen.append(rp)
        if not (LEAN_DIR / rp).exists():
            continue
        for m in re.finditer(r"^\s*import\s+(AbtemVerif\.[\w.]+)", (LEAN_DIR / rp).read_text(), re.M):
            todo.append(m.group(1).replace(".", "/") + ".lean")
    return seen


def axioms_audit(module: str, theorems):
    """#print axioms for each theorem; returns dict name -> list of axioms (or error string)"""
    if not theorems:
        return {}
    src = f"import {module}\n" + "".join(f"#print axioms {t}\n" for t in theorems)
    tmp = LEAN_DIR / f".audit_{module.split('.')[-1]}_{os.getpid()}.lean"
    tmp.write_text(src)
    try:
        with _Lock(False):
            rc, out = _run(["lake", "env", "lean", str(tmp)], cwd=LEAN_DIR, timeout=1800)
    finally:
        tmp.unlink(missing_ok=True)
    res = {}
    # output: "'name' depends on axioms: [a, b]" (may wrap lines) or "'name' does not depend on any axioms"
    flat = re.sub(r"\s+", " ", out)
    for t in theorems:
        m = re.search(r"'" + re.escape(t) + r"' depends on axioms: \[([^\]]*)\]", flat)
        if m:
            res[t] = sorted(a.strip() for a in m.group(1).split(",") if a.strip())
        elif re.search(r"'" + re.escape(t) + r"' does not depend on any axioms", flat):
            res[t] = []
        else:
            res[t] = ["<error: " + out[-400:] + ">"]
    return res


class LeanDriver:
    """batch line-protocol client of `lake env lean --run AbtemVerif/Drive/Cxx.lean`"""

    def __init__(self, relpath: str):
        self.relpath = relpath
        self.lines_sent = 0

    def query(self, lines):
        lines = list(lines)
        if not lines:
            return []
        for l in lines:
            assert "\n" not in l
        with _Lock(False):
            rc, out = _run(
                ["lake", "env", "lean", "--run", self.relpath], cwd=LEAN_DIR, input="\n".join(lines) + "\n", timeout=3600
            )
        outs = out.splitlines()
        if rc != 0 or len(outs) != len(lines):
            raise RuntimeError(f"lean driver {self.relpath} failed rc={rc} got {len(outs)} lines for {len(lines)}: {out[-1500:]}")
        self.lines_sent += len(lines)
        return outs


# --------------------------------------------------------------------------- check context
class Ctx:
    def __init__(self, pid: str, tier: str, seed: int):
        self.pid = pid
        self.tier = tier
        self.seed = seed
        self.rng = random.Random(f"{pid}-{seed}")
        import numpy as np

        self.nprng = np.random.default_rng(int(hashlib.sha256(f"{pid}-{seed}".encode()).hexdigest()[:8], 16))
        self.t0 = time.time()
        self.evaluations = 0
        self.distinct = set()
        self.samples = []
        self.hist = {}
        self.corr_disagreements = []  # (name, case, model, impl)
        self.corr_checked = 0
        self.traces = 0
        self.violations = []  # dict(key, case, detail)
        self.boundary = 0
        self.notes = []
        self.driver_lines = 0

    @property
    def thorough(self):
        return self.tier == "thorough"

    def n(self, quick: int, thorough: int) -> int:
        return thorough if self.thorough else quick

    def count(self, bucket: str, k: int = 1):
        self.hist[bucket] = self.hist.get(bucket, 0) + k

    def case(self, case, nontrivial: bool = True, sample: bool = False):
        """record one evaluated case (for evidence)"""
        self.evaluations += 1
        if nontrivial:
            self.distinct.add(sha(jsonable(case)))
        if sample or len(self.samples) < 3:
            if len(self.samples) < 8:
                self.samples.append(jsonable(case))

    def agree(self, name: str, case, model, impl, ok: bool | None = None):
        """unit correspondence: model output vs implementation output"""
        self.corr_checked += 1
        if ok is None:
            ok = model == impl
        if not ok:
            self.corr_disagreements.append({"function": name, "case": jsonable(case), "model": jsonable(model), "impl": jsonable(impl)})
        return ok

    def violation(self, key: str, case, detail):
        """the implementation violates the property's conclusion on `case`"""
        self.violations.append({"key": key, "case": jsonable(case), "detail": jsonable(detail)})


class Property:
    id = "C00"
    title = ""
    props_file = None  # "AbtemVerif/Props/C00.lean"
    drive_file = None  # "AbtemVerif/Drive/C00.lean"
    extra_lean = []  # more files whose theorems count as obligations
    trusted = []
    assumptions = []
    rule = "cases drawn by the property's generator; distinct = distinct canonical JSON of the case"

    @property
    def module(self):
        return self.props_file[:-5].replace("/", ".")

    # hooks -----------------------------------------------------------------------
    def correspondence(self, ctx: Ctx):
        pass

    def conformance(self, ctx: Ctx):
        pass

    def search(self, ctx: Ctx):
        """failing-input search used when proof or correspondence broke; default: conformance at thorough budget"""
        old = ctx.tier
        ctx.tier = "thorough"
        try:
            self.conformance(ctx)
        finally:
            ctx.tier = old

    def replay(self, ctx: Ctx, case):
        """re-run one recorded case against the implementation; call ctx.violation if it still violates"""
        raise NotImplementedError

    def known_key_reproduces(self, ctx: Ctx, finding) -> bool:
        """does the recorded known finding still reproduce on the current tree?"""
        before = len(ctx.violations)
        try:
            self.replay(ctx, finding["case"])
        except NotImplementedError:
            return True
        new = ctx.violations[before:]
        del ctx.violations[before:]
        return any(v["key"] == finding["key"] for v in new)


def load_known(pid: str):
    """known (recorded, unrepaired) findings of one property, read from the committed findings/*.json fragments
    (known_findings.json is the assembled, human-readable copy of the same files; neither is written at check time)"""
    out = []
    d = VERIF / "findings"
    for f in sorted(d.glob("*.json")) if d.exists() else []:
        try:
            items = json.loads(f.read_text())
        except Exception:
            continue
        out += [x for x in items if x.get("property") == pid and x.get("status") == "known"]
    return out


def write_replay(pid: str, payload: dict) -> str:
    d = OUT_DIR / "replays" / pid
    d.mkdir(parents=True, exist_ok=True)
    path = d / f"{sha(payload)}.json"
    path.write_text(json.dumps(jsonable(payload), indent=1, sort_keys=True))
    return str(path.relative_to(VERIF)) if OUT_DIR == VERIF else str(path)


def run_property(prop: Property, argv=None):
    import argparse

    ap = argparse.ArgumentParser()
    ap.add_argument("--tier", default=os.environ.get("VERIF_TIER", "quick"), choices=["quick", "thorough"])
    ap.add_argument("--replay", default=None)
    ap.add_argument("--no-build", action="store_true", help="development only: skip translator/build/audit")
    a = ap.parse_args(argv)
    seed = int(os.environ.get("VERIF_SEED", "0") or 0)
    ctx = Ctx(prop.id, a.tier, seed)
    sys.path.insert(0, str(REPO))
    try:
        rc = _run_property(prop, ctx, a)
    except subprocess.TimeoutExpired as e:
        print(f"ERROR property={prop.id} timeout: {e}")
        rc = 2
    except Exception:
        traceback.print_exc()
        print(f"ERROR property={prop.id} infrastructure failure")
        rc = 2
    sys.stdout.flush()
    return rc


def _run_property(prop: Property, ctx: Ctx, a) -> int:
    pid = prop.id
    if a.replay:
        payload = json.loads(Path(a.replay if os.path.isabs(a.replay) else VERIF / a.replay).read_text())
        if payload.get("case") is None:
            print(f"replay names a broken proof/correspondence only: {payload.get('broken')}")
            a.replay = None  # fall through to the full check
        else:
            prop.replay(ctx, payload["case"])
            if ctx.violations:
                print(f"VIOLATION property={pid} replay={a.replay}")
                print(json.dumps(ctx.violations[0]["detail"])[:600])
                return 1
            print(f"replay of {a.replay}: property holds on this tree")
            return 0

    broken = []  # names of theorems / correspondence functions that no longer check
    proof = {"obligations": 0, "discharged": 0, "theorems": {}, "generated_sites": {}}

    # 1. translator -------------------------------------------------------------
    if not a.no_build:
        ok, rep = translate(REPO)
        # only the generated modules this property's Lean files (transitively) import matter to it
        mine = set()
        for f in [prop.props_file] + list(prop.extra_lean) + ([prop.drive_file] if prop.drive_file else []):
            for g in lean_imports_closure(f):
                if g.startswith("AbtemVerif/Gen/"):
                    mine.add(g[len("AbtemVerif/Gen/"):-5])
        sites = {k: v for k, v in rep.get("sites", {}).items() if k.split(".")[0] in mine}
        proof["generated_sites"] = sites
        failed_sites = [k for k, v in sites.items() if v.get("status") != "ok"]
        if failed_sites:
            broken.append("translator failed for: " + ", ".join(f"{k} ({sites[k].get('reason', '')[:120]})" for k in failed_sites))
        elif not ok and not rep.get("sites"):
            broken.append("translator crashed: " + rep.get("stdout", "")[-300:])
    # 2. build ------------------------------------------------------------------
    files = [prop.props_file] + list(prop.extra_lean)
    theorems = []
    for f in files:
        theorems += lean_theorems(f)
    proof["obligations"] = len(theorems)
    build_ok = True
    build_out = ""
    if not a.no_build:
        targets = [f[:-5].replace("/", ".") for f in files]
        if prop.drive_file:
            targets.append(prop.drive_file[:-5].replace("/", "."))
        build_ok, build_out = lake_build(targets)
        if not build_ok:
            errs = re.findall(r"error: ([^\n]*)", build_out)
            broken.append("lake build failed: " + "; ".join(errs[:6]))
            failed_thms = set(re.findall(r"(?:theorem|lemma)\s+(\S+)", build_out))
            ctx.notes.append("build output tail: " + build_out[-1500:])
        # 3. audit --------------------------------------------------------------
        closure = []
        for f in files:
            for g in lean_imports_closure(f):
                if g not in closure:
                    closure.append(g)
        hits = grep_audit(closure)
        if hits:
            broken.append("forbidden construct: " + "; ".join(hits[:5]))
        if build_ok:
            ax = {}
            for f in files:
                ax.update(axioms_audit(f[:-5].replace("/", "."), lean_theorems(f)))
            for t, axs in ax.items():
                good = set(axs) <= STD_AXIOMS
                proof["theorems"][t] = axs
                if good:
                    proof["discharged"] += 1
                else:
                    broken.append(f"theorem {t} depends on {axs}")
        # 3b. thorough tier: independent re-check of the compiled .olean files with leanchecker
        if build_ok and ctx.thorough:
            mods = [f[:-5].replace("/", ".") for f in files]
            with _Lock(False):
                rc_lc, out_lc = _run(["lake", "env", "leanchecker"] + mods, cwd=LEAN_DIR, timeout=3600)
            proof["leanchecker"] = {"modules": mods, "rc": rc_lc, "output_tail": out_lc[-300:]}
            if rc_lc != 0:
                broken.append("leanchecker rejected the compiled modules: " + out_lc[-300:])
    else:
        proof["discharged"] = proof["obligations"]

    # 4/5. corpus + unit correspondence ------------------------------------------
    model_ok = build_ok
    corr_err = None
    if model_ok:
        try:
            prop.correspondence(ctx)
        except Timeout:
            raise
        except Exception as e:  # a crash of the correspondence is a broken tie, not a violation by itself
            corr_err = f"{type(e).__name__}: {e}"
            ctx.notes.append("correspondence crashed: " + traceback.format_exc()[-1500:])
            broken.append("correspondence crashed: " + corr_err)
    if ctx.corr_disagreements:
        fns = sorted({d["function"] for d in ctx.corr_disagreements})
        broken.append("correspondence disagrees for: " + ", ".join(fns))

    # 6. conformance ---------------------------------------------------------------
    try:
        prop.conformance(ctx)
    except Timeout:
        raise
    except Exception as e:
        ctx.notes.append("conformance crashed: " + traceback.format_exc()[-1500:])
        broken.append(f"conformance crashed: {type(e).__name__}: {e}")

    # 7. search when a tie broke ---------------------------------------------------
    known = load_known(pid)
    # a known finding is only honoured while the negation-witness theorem that documents it still exists
    thm_short = {t.split(".")[-1] for t in theorems} | set(theorems)
    stale = [k for k in known if k.get("witness_theorem") and k["witness_theorem"].split(".")[-1] not in thm_short]
    for k in stale:
        ctx.notes.append(f"known finding {k['key']} ignored: witness theorem {k['witness_theorem']} is not in {prop.props_file}")
        print(f"NOTE: known finding {k['key']} ignored (witness theorem {k['witness_theorem']} not found)")
    known = [k for k in known if k not in stale]
    known_keys = {k["key"] for k in known}

    def unlisted():
        return [v for v in ctx.violations if v["key"] not in known_keys]

    if broken and not unlisted():
        try:
            prop.search(ctx)
        except Exception:
            ctx.notes.append("search crashed: " + traceback.format_exc()[-1500:])

    # 8. verdict ---------------------------------------------------------------------
    rc = 0
    lines = []
    reproduced = []
    not_reproduced = []
    for k in known:
        hit = any(v["key"] == k["key"] for v in ctx.violations)
        if not hit:
            try:
                hit = prop.known_key_reproduces(ctx, k)
            except Exception:
                hit = False
        if hit:
            lines.append(f"KNOWN-FINDING: property={pid} {k['what']}")
            reproduced.append(k["key"])
        else:
            not_reproduced.append(k["key"])
            print(f"NOTE: known finding {k['key']} did not reproduce in this run (fixed, or not reached by this seed/tier)")
    seen_keys = set()
    nviol = 0
    for v in unlisted():
        if v["key"] in seen_keys:
            continue
        seen_keys.add(v["key"])
        path = write_replay(pid, {"property": pid, "seed": ctx.seed, "key": v["key"], "case": v["case"], "detail": v["detail"],
                                  "how_to_replay": f"./check {pid} --replay <this file>"})
        lines.append(f"VIOLATION property={pid} replay={path}")
        nviol += 1
        rc = 1
    if broken and rc == 0:
        first = ctx.corr_disagreements[0] if ctx.corr_disagreements else None
        path = write_replay(pid, {"property": pid, "seed": ctx.seed, "case": None, "broken": broken, "first_disagreement": first,
                                  "notes": ctx.notes[-3:]})
        lines.append(f"VIOLATION property={pid} replay={path} no-failing-input-found")
        nviol += 1
        rc = 1

    # 9. evidence --------------------------------------------------------------------
    ev = {
        "property_id": pid,
        "tier": ctx.tier,
        "seed": ctx.seed,
        "level": "proof",
        "coverage": {
            "obligations": max(proof["obligations"], 1),
            "discharged": proof["discharged"] if proof["obligations"] else 0,
            "checker_cmd": f"cd lean && lake build {prop.module} && lake env lean <#print axioms for every theorem of {prop.props_file}>",
            "trusted_base": TRUSTED_COMMON + list(prop.trusted),
            "theorems": proof["theorems"],
            "generated_sites": proof["generated_sites"],
            "leanchecker": proof.get("leanchecker", "not run (thorough tier only)"),
            "evaluations": ctx.evaluations,
            "distinct_nontrivial": len(ctx.distinct),
            "rule": prop.rule,
            "samples": ctx.samples[:8] if ctx.samples else [{"note": "no sampled cases in this run"}],
            "traces_validated_against_impl": ctx.traces,
            "correspondence_comparisons": ctx.corr_checked,
            "correspondence_disagreements": len(ctx.corr_disagreements),
            "boundary_cases": ctx.boundary,
            "input_distribution": dict(sorted(ctx.hist.items())),
            "known_findings_reproduced": reproduced,
            "known_findings_not_reproduced": not_reproduced,
            "broken": broken,
            "repo": str(REPO),
        },
        "assumptions": list(prop.assumptions),
        "wall_s": round(time.time() - ctx.t0, 2),
        "violations": nviol,
    }
    if ev["coverage"]["discharged"] < 1:  # broken proof: keep the file schema-valid, say what failed
        ev["coverage"]["obligations_total"] = ev["coverage"].pop("obligations")
        ev["coverage"]["obligations_discharged"] = ev["coverage"].pop("discharged")
        ev["coverage"]["evaluations"] = max(ev["coverage"]["evaluations"], 1)
    (OUT_DIR / "evidence").mkdir(parents=True, exist_ok=True)
    (OUT_DIR / "evidence" / f"{pid}.json").write_text(json.dumps(jsonable(ev), indent=1))
    for l in lines:
        print(l)
    status = "ok" if rc == 0 else "VIOLATED"
    print(
        f"[{pid}] {status} tier={ctx.tier} seed={ctx.seed} theorems={proof['discharged']}/{proof['obligations']} "
        f"corr={ctx.corr_checked - len(ctx.corr_disagreements)}/{ctx.corr_checked} cases={ctx.evaluations} "
        f"distinct={len(ctx.distinct)} known={len(reproduced)} wall={ev['wall_s']}s"
    )
    if broken:
        for b in broken:
            print("  broken:", b[:500])
    return rc
