"""C16 — resampling preserves totals, Fourier image interpolation is the identity on the same grid / keeps the mean,
source-size filtering commutes with integration."""
import sys
from fractions import Fraction

import numpy as np

from common import Ctx, LeanDriver, Property, dyadic, err_kind, list_s, rat_s, run_property


def _try(f):
    try:
        return f()
    except Exception as e:  # noqa
        return ["err", err_kind(e)]


def impl_interp(c):
    from abtem.measurements import DiffractionPatterns

    a = np.array(c["x"], dtype=np.float64).reshape(1, c["H"], c["W"])
    def run():
        r = DiffractionPatterns._batch_interpolate_bilinear(a, new_sampling=(c["sx2"], c["sy2"]), sampling=(c["sx"], c["sy"]),
                                                            new_gpts=(c["H2"], c["W2"]))
        return ["ok"] + [rat_s(float(v)) if np.isfinite(v) else "nan" for v in np.asarray(r).reshape(-1)]
    return _try(run)


def impl_nodes(c):
    from abtem.measurements import _fourier_space_bilinear_nodes_and_weight

    def run():
        v, u, vw, uw = _fourier_space_bilinear_nodes_and_weight((c["n"], c["n"]), (c["n2"], c["n2"]), (c["s"], c["s"]), (c["s2"], c["s2"]), np)
        return ["ok", [int(t) for t in v[:, 0]], [rat_s(float(t)) for t in vw[:, 0]]]
    return _try(run)


def point_sample_sum(a, s_old, m, s_new):
    """independent recomputation of the bilinear point samples of one centred pattern at the new pixel centres (their sum)"""
    def axis(n, so, mm, sn):
        k = (np.arange(n) - n // 2) * so
        kn = (np.arange(mm) - mm // 2) * sn
        idx = np.clip(np.floor((kn - k[0]) / so + 1e-9).astype(int), 0, n - 1)
        w = np.where(kn < k[0] - 1e-12, 0.0, (kn - k[idx]) / so)
        w = np.where(np.abs(w) < 1e-9, 0.0, w)
        return idx, np.minimum(idx + 1, n - 1), w
    v0, v1, vw = axis(a.shape[0], s_old[0], m[0], s_new[0])
    u0, u1, uw = axis(a.shape[1], s_old[1], m[1], s_new[1])
    out = (a[np.ix_(v0, u0)] * np.outer(1 - vw, 1 - uw) + a[np.ix_(v0, u1)] * np.outer(1 - vw, uw)
           + a[np.ix_(v1, u0)] * np.outer(vw, 1 - uw) + a[np.ix_(v1, u1)] * np.outer(vw, uw))
    return float(out.sum())


def exceeds(err, tol) -> bool:
    """`err > tol` that also fires on NaN / inf (a NaN difference is a failure, never a pass)"""
    return not (float(err) <= float(tol))


def maxdiff(a, b) -> float:
    a, b = np.asarray(a), np.asarray(b)
    if a.shape != b.shape:
        return float("inf")
    d = np.abs(a - b)
    return float("nan") if np.isnan(d).any() else float(d.max()) if d.size else 0.0


def arr_of(m):
    a = m.array
    return np.asarray(a.compute() if hasattr(a, "compute") else a)


class C16(Property):
    id = "C16"
    props_file = "AbtemVerif/Props/C16.lean"
    drive_file = "AbtemVerif/Drive/C16.lean"
    trusted = [
        "SCIPY: scipy.ndimage.gaussian_filter along the scan axes is a linear map acting identically on every detector pixel "
        "(the commutation theorem holds for every such linear map; observed on the real filter by the oracle)",
        "FFT: numpy fft2/ifft2 form a Fourier pair with F x (0) = Σ x and Σ (F⁻¹ y) = y(0) (hypotheses of the mean theorem; C15's "
        "concrete DFT instance)",
        "hand model of the bilinear node/weight search and 4-neighbour interpolation (`Resample.nodeWeight/bilinear`), tied by exact "
        "correspondence on dyadic inputs with power-of-two old samplings (float32 frequencies and weights are then exact)",
        "numba/einsum kernels of _interpolate_bilinear compute the weighted 4-neighbour sum",
    ]
    assumptions = ["new pattern sum ≠ 0 for the sum-preservation theorem (zero-sum patterns stay zero: guard generated from the source)"]
    rule = ("random dyadic patterns 2–7 × 2–7 (incl. all-zero and single-pixel patterns) resampled to 1–9 × 1–9 with random dyadic new "
            "samplings; node/weight tables for n ≤ 10; conformance: real DiffractionPatterns.interpolate (sampling / 'uniform' / float), "
            "Images.interpolate (same grid, up, down, odd/even), gaussian_source_size ∘ integrate vs integrate ∘ gaussian_filter for "
            "DiffractionPatterns and PolarMeasurements; distinct = distinct case JSON")

    def correspondence(self, ctx: Ctx):
        rng = ctx.rng
        drv = LeanDriver(self.drive_file)
        jobs = []
        for _ in range(ctx.n(250, 3000)):
            H, W = rng.randint(2, 7), rng.randint(2, 7)
            if rng.random() < 0.05:
                H = 1
            sx = 2.0 ** -rng.randint(1, 5)
            sy = sx if rng.random() < 0.6 else 2.0 ** -rng.randint(1, 5)
            kind = rng.choice(["random", "random", "zero", "single", "negative"])
            if kind == "zero":
                x = [0.0] * (H * W)
            elif kind == "single":
                x = [0.0] * (H * W)
                x[rng.randrange(H * W)] = float(rng.randint(1, 8))
            elif kind == "negative":
                x = [dyadic(rng, -4, 4, 2) for _ in range(H * W)]
            else:
                x = [dyadic(rng, 0, 8, 2) for _ in range(H * W)]
            c = {"op": "interp", "H": H, "W": W, "sx": sx, "sy": sy, "H2": rng.randint(1, 9), "W2": rng.randint(1, 9),
                 "sx2": dyadic(rng, 0.03125, 1, 5) or 0.03125, "sy2": dyadic(rng, 0.03125, 1, 5) or 0.03125, "x": x, "kind": kind}
            jobs.append(("DiffractionPatterns._batch_interpolate_bilinear", c,
                         f"interp {H} {W} {rat_s(sx)} {rat_s(sy)} {c['H2']} {c['W2']} {rat_s(c['sx2'])} {rat_s(c['sy2'])} {list_s(x, rat_s)}", impl_interp))
        for _ in range(ctx.n(80, 800)):
            c = {"op": "nodes", "n": rng.randint(2, 10), "s": 2.0 ** -rng.randint(1, 5), "n2": rng.randint(1, 12),
                 "s2": dyadic(rng, 0.03125, 1, 5) or 0.03125}
            jobs.append(("_fourier_space_bilinear_nodes_and_weight", c, f"nodes {c['n']} {rat_s(c['s'])} {c['n2']} {rat_s(c['s2'])}", impl_nodes))
        outs = drv.query([j[2] for j in jobs])
        for (name, c, line, impl), out in zip(jobs, outs):
            t = out.split()
            got = impl(c)
            if c["op"] == "interp":
                model = t if t[0] == "err" else ["ok"] + t[1].split(",")
                ok = model == got
                if not ok and model[0] == "ok" and got[0] == "ok" and len(model) == len(got) and "nan" not in got:
                    # the division new/Σnew is rounded in float64: compare to 1e-12
                    ok = all(abs(Fraction(a) - Fraction(b)) <= Fraction(1, 10 ** 12) * max(1, abs(Fraction(a))) for a, b in zip(model[1:], got[1:]))
                ctx.agree(name, c, model, got, ok=ok)
                ctx.count(f"interp:{c['kind']}:{got[0]}")
                ctx.case(c, nontrivial=c["kind"] != "zero")
            else:
                model = t if t[0] == "err" else ["ok", [int(v) for v in t[1].split(",")], t[2].split(",")]
                ctx.agree(name, c, model, got)
                ctx.case(c, nontrivial=True)
        ctx.traces += len(jobs)

    # ------------------------------------------------------------------ conformance
    def gen_conf(self, ctx):
        rng = ctx.rng
        kind = rng.choice(["dp_interp", "dp_interp", "img_interp", "img_interp", "source_dp", "source_polar", "lazy_filter"])
        c = {"kind": kind, "seed": rng.randint(0, 10 ** 6)}
        if kind == "dp_interp":
            c.update(gpts=[rng.randint(4, 14), rng.randint(4, 14)], sampling=[rng.choice([0.05, 0.08, 0.1]), rng.choice([0.05, 0.08, 0.1])],
                     new=rng.choice(["uniform", "float", "float", "float", "gpts", "two-floats", "float32"]), lazy=rng.random() < 0.3, new_sampling=rng.choice([0.03, 0.06, 0.11, 0.2]),
                     new_gpts=[rng.randint(3, 16), rng.randint(3, 16)],
                     members=rng.choice(["random", "random", "with-zero", "sparse"]), shifted=rng.random() < 0.7)
        elif kind == "img_interp":
            g = [rng.randint(4, 16), rng.randint(4, 16)]
            c.update(gpts=g, sampling=[rng.choice([0.1, 0.2]), rng.choice([0.1, 0.2])],
                     new_gpts=rng.choice([g, g, [g[0] + rng.randint(1, 6), g[1] + rng.randint(1, 6)],
                                          [max(2, g[0] - rng.randint(1, 3)), max(2, g[1] - rng.randint(1, 3))], [2 * g[0], 2 * g[1]]]),
                     complex=rng.random() < 0.4, ens=rng.choice([[], [2]]), route=rng.choice(["gpts", "sampling", "sampling"]),
                     lazy=rng.random() < 0.3)
        elif kind == "lazy_filter":
            c.update(scan=[rng.randint(8, 16), rng.randint(8, 16)], chunk=rng.choice([3, 4, 5]), scan_sampling=rng.choice([0.1, 0.2, 0.25]),
                     sigma=rng.choice([0.3, 0.5, 0.8]), what=rng.choice(["images", "source"]))
        else:
            c.update(scan=[rng.randint(4, 8), rng.randint(4, 8)], scan_sampling=rng.choice([0.2, 0.25, 0.4]), gpts=[rng.randint(5, 9), rng.randint(5, 9)],
                     sigma=rng.choice([0.1, 0.3, 0.5, [0.2, 0.4]]), inner=rng.choice([0.0, 5.0, 10.0]), width=rng.choice([10.0, 20.0, 40.0]),
                     lazy=rng.random() < 0.15)
            # position of the two scan axes among the ensemble axes (o = an ordinal axis of 2 members): abTEM's own simulations put
            # them last, the public constructors accept any order (round-3 seed C16-r3 assumed "trailing")
            c["layout"] = rng.choice(["xy", "xy", "oxy", "xyo", "xoy"])
            c["scan_sampling_y"] = rng.choice([c["scan_sampling"], c["scan_sampling"], 0.3])
        return c

    def oracle(self, ctx: Ctx, c):
        from abtem.core.axes import OrdinalAxis, ScanAxis
        from abtem.measurements import DiffractionPatterns, Images, PolarMeasurements

        rng = np.random.default_rng(c["seed"])
        if c["kind"] == "dp_interp":
            a = rng.random((3,) + tuple(c["gpts"]))
            if c["members"] == "with-zero":
                a[1] = 0.0
            if c["members"] == "sparse":
                a[:] = 0.0
                a[0, c["gpts"][0] // 2, c["gpts"][1] // 2] = 2.0
                a[2, 1, 1] = 1.0
            d = DiffractionPatterns(a, sampling=tuple(c["sampling"]), fftshift=c["shifted"], metadata={"energy": 100e3},
                                    ensemble_axes_metadata=[OrdinalAxis(values=(0, 1, 2))])
            if c.get("lazy"):
                import dask.array as da
                d = DiffractionPatterns(da.from_array(a, chunks=(2,) + tuple(c["gpts"])), sampling=tuple(c["sampling"]), fftshift=c["shifted"],
                                        metadata={"energy": 100e3}, ensemble_axes_metadata=[OrdinalAxis(values=(0, 1, 2))])
            if c["new"] in ("two-floats", "float32"):
                arg = (float(c["new_sampling"]), float(c["new_sampling"]) * 1.25) if c["new"] == "two-floats" else np.float32(c["new_sampling"])
                try:
                    r = d.interpolate(sampling=arg)
                except ValueError as e:
                    ctx.violation(f"interpolate-documented-sampling-form-rejected:{c['new']}", c, {"error": str(e)})
                    return False
            elif c["new"] == "gpts":
                try:
                    r = d.interpolate(gpts=tuple(c["new_gpts"]))
                except TypeError as e:
                    ctx.violation("interpolate-gpts-only-call-raises", c, {"error": str(e)})
                    return False
            else:
                r = d.interpolate(sampling="uniform" if c["new"] == "uniform" else float(c["new_sampling"]))
            b = arr_of(r)
            s0, s1 = a.sum(axis=(-2, -1)), b.sum(axis=(-2, -1))
            bad = [i for i in range(3) if not (np.isfinite(s1[i]) and abs(s1[i] - s0[i]) <= 1e-5 * max(abs(s0[i]), 1e-12))]
            ctx.count(f"conf-dp:{c['new']}:{c['members']}:lazy={bool(c.get('lazy'))}")
            if bad:
                zero = all(s0[i] == 0 for i in bad)
                # the recorded finding is ONLY: the bilinear point samples at the new pixel centres of that member really are all
                # zero (recomputed here independently of abTEM) and the returned pattern is exactly zero
                lost = all(s0[i] != 0 and np.isfinite(s1[i]) and s1[i] == 0 and np.all(b[i] == 0)
                           and abs(point_sample_sum(a[i], d.sampling, b.shape[-2:], r.sampling)) <= 2e-6 * abs(s0[i]) for i in bad)  # float32 node weights inside abTEM
                ctx.violation("interpolate-zero-pattern-not-preserved" if zero else
                              "interpolate-total-lost-when-resampled-sum-zero" if lost else "interpolate-total-not-preserved", c,
                              {"members": bad, "old_sums": s0.tolist(), "new_sums": [float(v) if np.isfinite(v) else "nan" for v in s1]})
                return False
            return True
        if c["kind"] == "img_interp":
            shape = tuple(c["ens"]) + tuple(c["gpts"])
            a = rng.normal(size=shape).astype(np.float64)
            if c["complex"]:
                a = a + 1j * rng.normal(size=shape)
            ens = [OrdinalAxis(values=tuple(range(n))) for n in c["ens"]]
            if c.get("lazy"):
                import dask.array as da
                a_in = da.from_array(a, chunks=(1,) * len(c["ens"]) + (max(2, c["gpts"][0] // 2), max(2, c["gpts"][1] // 2)))
            else:
                a_in = a
            im = Images(a_in, sampling=tuple(c["sampling"]), ensemble_axes_metadata=ens)
            route = c.get("route", "gpts")
            same = list(c["new_gpts"]) == list(c["gpts"])
            if route == "sampling":
                # the documented `sampling=` form: the target grid is given by its pixel size (own sampling = same grid)
                new_s = tuple(c["sampling"]) if same else tuple(sx * g / n for sx, g, n in zip(c["sampling"], c["gpts"], c["new_gpts"]))
                r = im.interpolate(sampling=new_s[0] if new_s[0] == new_s[1] and c["seed"] % 2 else new_s, method="fft")
            else:
                r = im.interpolate(gpts=tuple(c["new_gpts"]), method="fft")
            b = arr_of(r)
            scale = float(np.abs(a).max())
            ctx.count(f"conf-img:{route}:{'same' if same else 'resized'}:{'complex' if c['complex'] else 'real'}:lazy={bool(c.get('lazy'))}")
            if same:
                if b.shape != a.shape:
                    # recorded finding: only the `sampling=` route, and only when float64 `ceil((n*d)/d)` itself exceeds n on that axis
                    pred = [int(np.ceil((g * sx) / sx)) for g, sx in zip(c["gpts"], c["sampling"])]
                    known = route == "sampling" and list(b.shape[-2:]) == pred and pred != list(c["gpts"]) and b.shape[:-2] == a.shape[:-2]
                    ctx.violation("images-interpolate-own-sampling-changes-grid" if known else f"fourier-same-grid-changes-shape:{route}", c,
                                  {"old": list(a.shape), "new": list(b.shape), "ceil_of_extent_over_sampling": pred})
                    if not known:
                        return False
                    same = False  # the mean / extent checks below still apply to the enlarged grid
                elif exceeds(maxdiff(b, a), 2e-5 * scale):
                    ctx.violation("fourier-same-grid-not-identity", c, {"max_abs_diff": maxdiff(b, a)})
                    return False
            elif route == "gpts" and list(b.shape[-2:]) != list(c["new_gpts"]):
                ctx.violation("fourier-interpolation-wrong-shape", c, {"new": list(b.shape)})
                return False
            m0, m1 = a.mean(axis=(-2, -1)), b.mean(axis=(-2, -1))
            if exceeds(maxdiff(m1, m0), 2e-5 * scale):
                ctx.violation("fourier-interpolation-changes-mean", c, {"old_mean": np.abs(m0).reshape(-1)[:2].tolist(), "new_mean": np.abs(m1).reshape(-1)[:2].tolist()})
                return False
            ext0 = [g * s for g, s in zip(c["gpts"], c["sampling"])]
            ext1 = [g * s for g, s in zip(r.shape[-2:], r.sampling)]
            if exceeds(max(abs(x - y) for x, y in zip(ext0, ext1)), 1e-9):
                ctx.violation("fourier-interpolation-changes-extent", c, {"old": ext0, "new": ext1})
                return False
            return True
        if c["kind"] == "lazy_filter":
            # the lazy (map_overlap, several blocks along the scan axes) filter must equal the eager one
            import dask.array as da
            scan = [ScanAxis(sampling=c["scan_sampling"]), ScanAxis(sampling=c["scan_sampling"])]
            if c["what"] == "images":
                a = rng.random(tuple(c["scan"])).astype(np.float32)
                eager = arr_of(Images(a, sampling=c["scan_sampling"]).gaussian_filter(c["sigma"]))
                lazy = arr_of(Images(da.from_array(a, chunks=(c["chunk"], c["chunk"])), sampling=c["scan_sampling"]).gaussian_filter(c["sigma"]))
            else:
                a = rng.random(tuple(c["scan"]) + (4, 4)).astype(np.float32)
                mk = lambda arr: DiffractionPatterns(arr, sampling=0.05, fftshift=True, metadata={"energy": 100e3}, ensemble_axes_metadata=scan)
                eager = arr_of(mk(a).gaussian_source_size(c["sigma"]))
                lazy = arr_of(mk(da.from_array(a, chunks=(c["chunk"], c["chunk"], 4, 4))).gaussian_source_size(c["sigma"]))
            ctx.count(f"conf-lazy-filter:{c['what']}")
            if exceeds(maxdiff(eager, lazy), 2e-5 * float(np.abs(eager).max())):
                ctx.violation(f"lazy-filter-differs-from-eager:{c['what']}", c, {"max_abs_diff": maxdiff(eager, lazy)})
                return False
            return True
        # source size filtering commutes with integration
        layout = c.get("layout", "xy")
        axis_of = {"x": ScanAxis(label="x", sampling=c["scan_sampling"]), "y": ScanAxis(label="y", sampling=c.get("scan_sampling_y", c["scan_sampling"])),
                   "o": OrdinalAxis(values=(0, 1))}
        size_of = {"x": c["scan"][0], "y": c["scan"][1], "o": 2}
        scan = [axis_of[ch] for ch in layout]
        ens_shape = tuple(size_of[ch] for ch in layout)
        sig = c["sigma"] if not isinstance(c["sigma"], list) else tuple(c["sigma"])
        if c["kind"] == "source_dp":
            a = rng.random(ens_shape + tuple(c["gpts"])).astype(np.float32)
            d = DiffractionPatterns(a, sampling=0.05, fftshift=True, metadata={"energy": 100e3}, ensemble_axes_metadata=scan)
            if c.get("lazy"):
                d = d.ensure_lazy()
            outer = min(c["inner"] + c["width"], float(np.floor(min(d.max_angles))))
            inner = min(c["inner"], outer)
            one = arr_of(d.gaussian_source_size(sig).integrate_radial(inner, outer))
            two = arr_of(d.integrate_radial(inner, outer).gaussian_filter(sig))
        else:
            nr, na = rng.integers(2, 6), rng.integers(1, 5)
            a = rng.random(ens_shape + (int(nr), int(na))).astype(np.float32)
            p = PolarMeasurements(a, radial_sampling=2.0, azimuthal_sampling=2 * np.pi / na, radial_offset=0.0, azimuthal_offset=0.0,
                                  ensemble_axes_metadata=scan, metadata={"energy": 100e3})
            hi = 2.0 * rng.integers(1, int(nr) + 1)
            one = arr_of(p.gaussian_source_size(sig).integrate_radial(0.0, float(hi)))
            two = arr_of(p.integrate_radial(0.0, float(hi)).gaussian_filter(sig))
        ctx.count(f"conf-{c['kind']}:lazy={bool(c.get('lazy'))}")
        ctx.count(f"conf-source-layout:{layout}")
        if one.shape != two.shape:
            ctx.violation(f"source-size-does-not-commute:{c['kind']}", c, {"shapes": [list(one.shape), list(two.shape)]})
            return False
        scale = float(np.abs(two).max()) or 1.0
        if exceeds(maxdiff(one, two), 2e-5 * scale) or not np.isfinite(scale):
            ctx.violation(f"source-size-does-not-commute:{c['kind']}", c, {"max_abs_diff": maxdiff(one, two), "scale": scale})
            return False
        return True

    def selftest_nan(self, ctx: Ctx):
        """NaN-injection self-test: every oracle kind must report a violation when the code under test returns NaN"""
        import scipy.ndimage as ndi
        import abtem.measurements as M
        from c14 import patched

        def nanify(f):
            def g(*a, **k):
                r = np.array(f(*a, **k), copy=True)
                r = r.astype(np.complex128 if np.iscomplexobj(r) else np.float64)
                r.reshape(-1)[0] = np.nan
                return r
            return g

        cases = {
            "dp_interp": ({"kind": "dp_interp", "seed": 1, "gpts": [8, 8], "sampling": [0.1, 0.1], "new": "float", "new_sampling": 0.06,
                           "members": "random", "shifted": True}, [(M.DiffractionPatterns, "_batch_interpolate_bilinear",
                                                                    staticmethod(nanify(M.DiffractionPatterns._batch_interpolate_bilinear)))]),
            "img_interp": ({"kind": "img_interp", "seed": 2, "gpts": [8, 8], "sampling": [0.1, 0.1], "new_gpts": [12, 12], "complex": False,
                            "ens": [], "route": "gpts"}, [(M, "fft_interpolate", nanify(M.fft_interpolate))]),
            "lazy_filter": ({"kind": "lazy_filter", "seed": 3, "scan": [8, 8], "chunk": 4, "scan_sampling": 0.2, "sigma": 0.3, "what": "images"},
                            [(ndi, "gaussian_filter", nanify(ndi.gaussian_filter))]),
            "source_dp": ({"kind": "source_dp", "seed": 4, "scan": [5, 5], "scan_sampling": 0.2, "gpts": [6, 6], "sigma": 0.3, "inner": 0.0,
                           "width": 20.0}, [(ndi, "gaussian_filter", nanify(ndi.gaussian_filter))]),
            "source_polar": ({"kind": "source_polar", "seed": 5, "scan": [5, 5], "scan_sampling": 0.2, "gpts": [6, 6], "sigma": 0.3, "inner": 0.0,
                              "width": 20.0}, [(ndi, "gaussian_filter", nanify(ndi.gaussian_filter))]),
        }
        for kind, (case, patches) in cases.items():
            scratch = Ctx("C16-selftest", ctx.tier, ctx.seed)
            clean = Ctx("C16-selftest", ctx.tier, ctx.seed)
            self.oracle(clean, dict(case))
            saved = [(o, n, o.__dict__[n]) for o, n, _ in patches]  # raw descriptors (staticmethod objects stay staticmethods)
            try:
                for o, n, v in patches:
                    setattr(o, n, v)
                self.oracle(scratch, dict(case))
            finally:
                for o, n, v in saved:
                    setattr(o, n, v)
            if clean.violations or not scratch.violations:
                raise RuntimeError(f"oracle self-test failed for kind {kind}: clean={len(clean.violations)} with-NaN={len(scratch.violations)} "
                                   "(a NaN result must be reported, an unpatched run must pass)")
            ctx.count(f"selftest-nan:{kind}:detected")

    def conformance(self, ctx: Ctx):
        self.selftest_nan(ctx)
        for _ in range(ctx.n(150, 3000)):
            c = self.gen_conf(ctx)
            self.oracle(ctx, c)
            ctx.case(c, nontrivial=True)

    def replay(self, ctx: Ctx, case):
        self.oracle(ctx, case)


if __name__ == "__main__":
    sys.exit(run_property(C16()))
