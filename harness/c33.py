"""C33 — unit conversions compose and invert (abtem/core/units.py, LinearAxis.convert_units)."""
import math
import sys
from fractions import Fraction

from common import (Ctx, LeanDriver, Property, close, dyadic, err_kind, rat_s, run_property)

PI = rat_s(math.pi)  # the float64 constant the table is built with, as an exact rational
CATS = {
    "real_space": ["Å", "Angstrom", "nm", "um", "mm", "m"],
    "reciprocal_space": ["1/Å", "1/Angstrom", "1/nm", "1/um", "1/mm", "1/m"],
    "angular": ["rad", "mrad", "deg"],
}
ENERGY_UNITS = ["eV", "keV"]
ODD = ["pixels", "", "%", "foo", "1/pixels", "Mrad", "angstrom", "e/Å^2", "A", "1/A"]
ALL = [u for us in CATS.values() for u in us] + ENERGY_UNITS + ODD
# independent definition of the units (size of one unit in the SI-like base of its category): metres, 1/metres, radians
SIZE = {
    "Å": Fraction(1, 10**10), "Angstrom": Fraction(1, 10**10), "nm": Fraction(1, 10**9), "um": Fraction(1, 10**6),
    "mm": Fraction(1, 10**3), "m": Fraction(1),
    "1/Å": Fraction(10**10), "1/Angstrom": Fraction(10**10), "1/nm": Fraction(10**9), "1/um": Fraction(10**6),
    "1/mm": Fraction(10**3), "1/m": Fraction(1),
    "rad": 1.0, "mrad": 1e-3, "deg": math.pi / 180.0,
}
ENERGIES = [20e3, 60e3, 80e3, 100e3, 200e3, 300e3]


def s_(u):
    return "none" if u is None else "s:" + u


def unstr(t):
    return None if t == "none" else t[2:]


def wavelength(energy):
    from abtem.core.energy import energy2wavelength

    return None if energy is None else float(energy2wavelength(energy))


def impl_factor(u, o, energy):
    from abtem.core.units import get_conversion_factor

    try:
        return ["ok", float(get_conversion_factor(u, o, energy))]
    except Exception as e:  # noqa
        return ["err", err_kind(e)]


def impl_validate(u, o):
    from abtem.core.units import validate_units

    try:
        return ["ok", validate_units(u, o)]
    except Exception as e:  # noqa
        return ["err", err_kind(e)]


def impl_axis(au, sampling, offset, u, energy, cls="LinearAxis"):
    import abtem.core.axes as axes

    try:
        ax = getattr(axes, cls)(sampling=sampling, offset=offset, units=au)
        kw = {} if energy is None else {"energy": energy}
        new = ax.convert_units(u, **kw)
        return ["ok", new.units, float(new.sampling), float(new.offset)], (ax.units, ax.sampling, ax.offset)
    except Exception as e:  # noqa
        return ["err", err_kind(e)], None


def model_float(reply):
    t = reply.split()
    if t[0] == "err":
        return ["err", t[1]]
    return ["ok"] + [float(Fraction(x)) if not x.startswith("s:") and x != "none" else unstr(x) for x in t[1:]]


def same(model, impl):
    if len(model) != len(impl):
        return False
    for a, b in zip(model, impl):
        if isinstance(a, float) or isinstance(b, float):
            if not (isinstance(a, (int, float)) and isinstance(b, (int, float)) and close(a, b, rel=1e-12, abs_=0.0)):
                return False
        elif a != b:
            return False
    return True


class C33(Property):
    id = "C33"
    props_file = "AbtemVerif/Props/C33.lean"
    drive_file = "AbtemVerif/Drive/C33.lean"
    trusted = [
        "IEEE: the float64 product/quotient of two table entries is within 1e-12 relative of the exact rational value "
        "(the model is exact over Rat with the float64 value of pi; comparisons use rel 1e-12)",
        "hand model `Units.validateUnits/conversionFactor/convertAxis` of the control flow around the generated tables and "
        "formulas (tied by exhaustive correspondence over all unit pairs, fingerprints reported)",
        "`energy2wavelength` is uninterpreted (its value is passed to the model as `wavelength`)",
    ]
    assumptions = ["Python dict lookup / KeyError semantics as modelled by `List.lookup`"]
    rule = ("exhaustive: every ordered pair over 17 known + 10 unknown unit strings and None (validate_units, get_conversion_factor "
            "with and without energy), plus random LinearAxis conversions with dyadic sampling/offset; distinct = distinct case JSON; "
            "non-trivial = both units given")

    # ------------------------------------------------------------------ correspondence
    def correspondence(self, ctx: Ctx):
        drv = LeanDriver(self.drive_file)
        rng = ctx.rng
        cases = []
        for u in ALL:
            cases.append(dict(op="type", u=u))
        opts = [None] + ALL
        for u in opts:
            for o in opts:
                cases.append(dict(op="validate", u=u, o=o))
                cases.append(dict(op="factor", u=u, o=o, energy=None))
                if o in CATS["reciprocal_space"] or rng.random() < 0.15:
                    cases.append(dict(op="factor", u=u, o=o, energy=rng.choice(ENERGIES)))
        known = [u for us in CATS.values() for u in us]
        for _ in range(ctx.n(300, 6000)):
            r = rng.random()
            au = rng.choice(known) if r < 0.85 else rng.choice(ALL)
            if r < 0.6:  # same category
                cat = [c for c, us in CATS.items() if au in us]
                u = rng.choice(CATS[cat[0]]) if cat else rng.choice(ALL)
            elif r < 0.8:
                au = rng.choice(CATS["reciprocal_space"]); u = rng.choice(CATS["angular"])
            else:
                u = rng.choice(ALL)
            cases.append(dict(op="axis", au=au, sampling=dyadic(rng, 1 / 64, 4, 6) or 0.5, offset=dyadic(rng, -8, 8, 4), u=u,
                              energy=rng.choice([None] + ENERGIES) if au.startswith("1/") else rng.choice([None, None, 1e5]),
                              cls=rng.choice(["LinearAxis", "RealSpaceAxis", "ReciprocalSpaceAxis", "ScanAxis"])))
        lines = []
        for c in cases:
            if c["op"] == "type":
                lines.append(f"type {s_(c['u'])}")
            elif c["op"] == "validate":
                lines.append(f"validate {s_(c['u'])} {s_(c['o'])}")
            elif c["op"] == "factor":
                w = wavelength(c["energy"])
                lines.append(f"factor {PI} {s_(c['u'])} {s_(c['o'])} {'none' if w is None else rat_s(w)}")
            else:
                w = wavelength(c["energy"])
                lines.append(f"axis {PI} {s_(c['au'])} {rat_s(c['sampling'])} {rat_s(c['offset'])} {s_(c['u'])} "
                             f"{'none' if w is None else rat_s(w)}")
        lines += ["factor x s:nm s:nm none", "validate nm s:nm", "factor", "axis 3 s:nm 1 1 s:nm", "type none"]  # malformed requests
        outs = drv.query(lines)
        for l, o in zip(lines[-5:], outs[-5:]):
            ctx.agree("driver rejects malformed request", l, o, "bad-op")
        from abtem.core.units import units_type

        for c, out in zip(cases, outs):
            if c["op"] == "type":
                ctx.agree("units_type", c, out.split()[1], units_type.get(c["u"], "none"))
            elif c["op"] == "validate":
                t = out.split()
                model = ["err", t[1]] if t[0] == "err" else ["ok", unstr(t[1])]
                got = impl_validate(c["u"], c["o"])
                ctx.agree("validate_units", c, model, got)
                ctx.count(f"validate:{got[0] if got[0] == 'ok' else got[1]}")
            elif c["op"] == "factor":
                model = model_float(out)
                got = impl_factor(c["u"], c["o"], c["energy"])
                ctx.agree("get_conversion_factor", c, model, got, ok=same(model, got))
                ctx.count(f"factor:{got[0] if got[0] == 'ok' else got[1]}:energy={c['energy'] is not None}")
            else:
                model = model_float(out)
                got, before = impl_axis(c["au"], c["sampling"], c["offset"], c["u"], c["energy"], c["cls"])
                ctx.agree("LinearAxis.convert_units", c, model, got, ok=same(model, got))
                if before is not None:
                    ctx.agree("convert_units leaves the receiver unchanged", c, list(before), [c["au"], c["sampling"], c["offset"]])
                ctx.count(f"axis:{got[0] if got[0] == 'ok' else got[1]}")
            ctx.case(c, nontrivial=c.get("u") is not None and (c.get("o") is not None or c["op"] in ("axis", "type")))
        ctx.traces += len(cases)

    # ------------------------------------------------------------------ conformance (independent of the model)
    def oracle(self, ctx: Ctx, c):
        tol = dict(rel=1e-12, abs_=0.0)
        kind = c["kind"]
        if kind == "triple":
            a, b, cc, cat = c["a"], c["b"], c["c"], c["cat"]
            en = c.get("energy")  # forwarded to every in-category conversion, as the plotting code does; it must not matter
            fba, fcb, fca, fab = (impl_factor(b, a, en), impl_factor(cc, b, en), impl_factor(cc, a, en), impl_factor(a, b, en))
            for (x, y), r in (((b, a), fba), ((cc, b), fcb), ((cc, a), fca), ((a, b), fab)):
                if r[0] != "ok":
                    alias = [u for u in (x, y) if "Angstrom" in u]
                    ctx.violation(f"conversion-raises-{cat}" + ("-alias" if alias else ""), c, {"units": x, "old_units": y, "raised": r[1]})
                    return
            if not close(fab[1] * fba[1], 1.0, **tol):
                ctx.violation(f"invert-{cat}", c, {"a->b": fba[1], "b->a": fab[1], "product": fab[1] * fba[1], "expected": 1.0})
            elif not close(fcb[1] * fba[1], fca[1], **tol):
                ctx.violation(f"compose-{cat}", c, {"a->b": fba[1], "b->c": fcb[1], "a->c": fca[1]})
            # the factor is the ratio of the unit sizes (1 nm = 10 Å, 1 rad = 1000 mrad, 1 deg = pi/180 rad)
            exp = float(SIZE[a] / SIZE[b])
            if not close(fba[1], exp, rel=1e-12, abs_=0.0):
                which = "angular-table" if cat == "angular" else cat
                ctx.violation(f"factor-not-unit-ratio-{which}", c, {"units": b, "old_units": a, "observed": fba[1], "expected": exp})
        elif kind == "axis":
            a, b, cc, cat = c["a"], c["b"], c["c"], c["cat"]
            en, cls = c.get("energy"), c.get("cls", "LinearAxis")
            r1, _ = impl_axis(a, c["sampling"], c["offset"], b, en, cls)
            if r1[0] != "ok":
                ctx.violation(f"axis-conversion-raises-{cat}", c, {"step": [a, b], "raised": r1[1]}); return
            r2, _ = impl_axis(b, r1[2], r1[3], cc, en, cls)
            r3, _ = impl_axis(a, c["sampling"], c["offset"], cc, en, cls)
            r4, _ = impl_axis(b, r1[2], r1[3], a, en, cls)
            # unit-definition anchor for axes: new sampling / offset = old * size(a) / size(b)
            ratio = float(SIZE[a] / SIZE[b])
            if not (r1[1] == b and close(r1[2], c["sampling"] * ratio, **tol) and close(r1[3], c["offset"] * ratio, **tol)):
                ctx.violation(f"axis-not-unit-ratio-{cat}", c, {"converted": r1, "expected_sampling": c["sampling"] * ratio, "expected_offset": c["offset"] * ratio})
                return
            if "err" in (r2[0], r3[0], r4[0]):
                ctx.violation(f"axis-conversion-raises-{cat}", c, {"results": [r2, r3, r4]}); return
            if not (r4[1] == a and close(r4[2], c["sampling"], **tol) and close(r4[3], c["offset"], **tol)):
                ctx.violation(f"axis-roundtrip-{cat}", c, {"start": [a, c["sampling"], c["offset"]], "via": r1, "back": r4})
            elif not (r2[1] == r3[1] and close(r2[2], r3[2], **tol) and close(r2[3], r3[3], **tol)):
                ctx.violation(f"axis-compose-{cat}", c, {"two_steps": r2, "direct": r3})
        elif kind == "recip-angle":
            k, a1, a2, e = c["k"], c["a1"], c["a2"], c["energy"]
            f1, f2, f12 = impl_factor(a1, k, e), impl_factor(a2, k, e), impl_factor(a2, a1, None)
            fk = impl_factor(k, "1/Å", None)
            f0 = impl_factor(a1, "1/Å", e)
            if "err" in (f1[0], f2[0], f12[0], fk[0], f0[0]):
                ctx.violation("recip-to-angle-raises", c, {"results": [f1, f2, f12, fk, f0]}); return
            if not close(f12[1] * f1[1], f2[1], **tol):
                ctx.violation("recip-to-angle-compose-angular", c, {"k->a1": f1[1], "a1->a2": f12[1], "k->a2": f2[1]})
            # (1/Å -> k -> a1) must equal (1/Å -> a1)
            elif not close(f1[1] * fk[1], f0[1], **tol):
                ctx.violation("recip-to-angle-ignores-source-unit", c, {"1/Å->k": fk[1], "k->a1": f1[1], "1/Å->a1": f0[1]})
            # small-angle definition: angle[rad] = wavelength[Å] * k[1/Å]
            exp = wavelength(e) * float(SIZE[k] / SIZE["1/Å"]) / SIZE[a1]
            if not close(f1[1], exp, **tol):
                ctx.violation("recip-to-angle-not-wavelength-times-k", c, {"units": a1, "old_units": k, "observed": f1[1], "expected": exp})

    def gen(self, ctx: Ctx):
        rng = ctx.rng
        out = []
        for cat, us in CATS.items():  # exhaustive triples
            for a in us:
                for b in us:
                    for cc in us:
                        out.append(dict(kind="triple", cat=cat, a=a, b=b, c=cc, energy=rng.choice([None, None] + ENERGIES)))
        for _ in range(ctx.n(200, 4000)):
            cat = rng.choice(list(CATS))
            a, b, cc = (rng.choice(CATS[cat]) for _ in range(3))
            out.append(dict(kind="axis", cat=cat, a=a, b=b, c=cc, sampling=dyadic(rng, 1 / 64, 4, 6) or 0.5, offset=dyadic(rng, -8, 8, 4),
                            energy=rng.choice([None, None] + ENERGIES), cls=rng.choice(["LinearAxis", "RealSpaceAxis", "ReciprocalSpaceAxis", "ScanAxis"])))
        for k in CATS["reciprocal_space"]:
            for a1 in CATS["angular"]:
                for a2 in CATS["angular"]:
                    out.append(dict(kind="recip-angle", k=k, a1=a1, a2=a2, energy=rng.choice(ENERGIES)))
        return out

    def conformance(self, ctx: Ctx):
        for c in self.gen(ctx):
            self.oracle(ctx, c)
            ctx.case(c, nontrivial=len({c.get("a"), c.get("b"), c.get("c")}) > 1 or c["kind"] == "recip-angle")

    def replay(self, ctx: Ctx, case):
        self.oracle(ctx, case)


if __name__ == "__main__":
    sys.exit(run_property(C33()))
