"""C04 — wave propagation never creates intensity; vacuum propagation is reversible.

correspondence: the Float twins of the generated formulas (Lean driver Drive/C04.lean over Model/Propagator.lean) vs.
the arrays built by the real `antialias_aperture`, `_fresnel_propagator_array`, `FresnelPropagator._calculate_array`
(base tilt + tilt axes), `PotentialArray._transmission_function`, pixel by pixel; plus the operator structure
(`step = F⁻¹(p · F(T_bl · ψ))`) of the real `conventional_multislice_step` rebuilt from model-produced arrays.

conformance (independent of the Lean model): Σ|ψ|² before/after every real multislice step for random, smooth, IAM
and spike potentials, random and adversarial (power-iterated with the real step and its adjoint) waves; vacuum
isometry and reversibility for waves band-limited inside the aperture.
"""
import struct
import sys

import numpy as np

# (gt defined above)
from common import Ctx, LeanDriver, Property, err_kind, run_property


# ----------------------------------------------------------------------------- float <-> bits
def fb(x) -> str:
    return str(struct.unpack("<Q", struct.pack("<d", float(x)))[0])


def bf(s: str) -> float:
    return struct.unpack("<d", struct.pack("<Q", int(s)))[0]


def gt(a, b) -> bool:
    """`a > b` that also fires when either side is NaN (a plain `>` is False on NaN and would let NaN output pass)"""
    return not (a <= b)


def parse_c(line):
    t = line.split()
    if t[0] == "ok":
        return complex(bf(t[1]), bf(t[2])) if len(t) == 3 else bf(t[1])
    return " ".join(t)


class nan_patch:
    """monkeypatch functions of the implementation so that their array result is all-NaN (oracle self-test)"""

    def __init__(self, *targets):
        self.targets = targets  # (owner object, attribute name, is_static)

    def __enter__(self):
        self.saved = []
        for owner, name, static in self.targets:
            raw = owner.__dict__[name] if isinstance(owner, type) else getattr(owner, name)
            f = raw.__func__ if isinstance(raw, staticmethod) else raw

            def wrapper(*a, _f=f, **k):
                out = np.array(_f(*a, **k), copy=True)
                out = out.astype(np.result_type(out.dtype, np.float32))
                out[...] = np.nan
                return out

            self.saved.append((owner, name, raw))
            setattr(owner, name, staticmethod(wrapper) if static else wrapper)
        return self

    def __exit__(self, *a):
        for owner, name, raw in self.saved:
            setattr(owner, name, raw)


def nan_selftest(ctx, label, patches, runs):
    """every oracle must report something when the implementation returns NaN; `runs` = [(name, callable(scratch_ctx))]"""
    from common import Ctx as _Ctx

    for name, run in runs:
        scratch = _Ctx(ctx.pid, ctx.tier, ctx.seed)
        try:
            with nan_patch(*patches):
                run(scratch)
        except Exception as e:  # an exception under NaN is a detection too
            scratch.violations.append({"key": f"raised {type(e).__name__}"})
        ctx.count(f"selftest-nan:{label}:{name}:{'detected' if scratch.violations else 'BLIND'}")
        if not scratch.violations:
            ctx.violation(f"oracle-selftest-nan-not-detected:{label}:{name}", {"selftest": name}, {"note": "oracle reported nothing for all-NaN output"})


class precision:
    """run a block under a given abTEM float precision (and optional antialias settings)"""

    def __init__(self, prec, **extra):
        self.cfg = {"precision": prec, **extra}

    def __enter__(self):
        import abtem

        self.old = {k: abtem.config.get(k) for k in self.cfg}
        abtem.config.set(self.cfg)

    def __exit__(self, *a):
        import abtem

        abtem.config.set(self.old)


def freqs(gpts, sampling, dtype):
    kx = np.fft.fftfreq(gpts[0], sampling[0]).astype(dtype)
    ky = np.fft.fftfreq(gpts[1], sampling[1]).astype(dtype)
    return kx.astype(np.float64), ky.astype(np.float64)


def rand_grid(ctx, lo=3, hi=12):
    rng = ctx.rng
    gpts = (rng.randint(lo, hi), rng.randint(lo, hi))
    sampling = (round(rng.uniform(0.04, 0.3), 4), round(rng.uniform(0.04, 0.3), 4))
    if rng.random() < 0.3:
        sampling = (sampling[0], sampling[0])
    return gpts, sampling


def pick_pixels(ctx, gpts, k=24):
    """DC, the Nyquist/edge rows and columns' corners, plus random pixels (all pixels when the grid is small)"""
    allp = [(i, j) for i in range(gpts[0]) for j in range(gpts[1])]
    if len(allp) <= k:
        return allp
    fixed = {(0, 0), (gpts[0] // 2, 0), (0, gpts[1] // 2), (gpts[0] // 2, gpts[1] // 2), (gpts[0] - 1, gpts[1] - 1), (1, 1)}
    rest = [p for p in allp if p not in fixed]
    return sorted(fixed) + ctx.rng.sample(rest, k - len(fixed))


def make_waves(array, energy, sampling, base_tilt=(0.0, 0.0), axes=None):
    from abtem.waves import Waves

    md = {}
    if base_tilt != (0.0, 0.0):
        md = {"base_tilt_x": base_tilt[0], "base_tilt_y": base_tilt[1]}
    return Waves(array, energy=energy, sampling=sampling, metadata=md, ensemble_axes_metadata=axes or [])


def energy_of(a):
    return float((np.abs(np.asarray(a, dtype=np.complex128)) ** 2).sum())


# ----------------------------------------------------------------------------- conformance cases
def potential_values(case):
    """potential slices [nslices, nx, ny] (float64, eV/e·Å) of a conformance case — deterministic in the case"""
    from abtem.core.energy import energy2sigma

    nx, ny = case["gpts"]
    rng = np.random.default_rng(case["pseed"])
    sigma = energy2sigma(case["energy"])
    n = case["nslices"]
    kind = case["potential"]
    if kind == "spike":  # single-pixel phase spikes of strength ~pi
        v = np.zeros((n, nx, ny))
        for s in range(n):
            for _ in range(1 + rng.integers(0, 2)):
                v[s, rng.integers(0, nx), rng.integers(0, ny)] = rng.uniform(0.5, 1.0) * np.pi / sigma
    elif kind == "random":  # white noise, phases of order one radian
        v = rng.normal(size=(n, nx, ny)) * case["strength"] / sigma
    elif kind == "smooth":  # a few low harmonics, small phase
        x = np.arange(nx)[:, None] / nx
        y = np.arange(ny)[None] / ny
        v = np.stack([case["strength"] / sigma * (np.cos(2 * np.pi * (x + rng.uniform())) * np.sin(2 * np.pi * (y + rng.uniform())))
                      for _ in range(n)])
    elif kind == "iam":  # independent-atom potential of one heavy atom, built by abTEM itself
        import abtem
        import ase

        sx, sy = case["sampling"]
        atoms = ase.Atoms(case.get("symbol", "Au"), positions=[(nx * sx * 0.37, ny * sy * 0.52, 0.5 * n * abs(case["dz"]))],
                          cell=(nx * sx, ny * sy, n * abs(case["dz"])))
        v = np.asarray(abtem.Potential(atoms, gpts=(nx, ny), slice_thickness=abs(case["dz"])).build(lazy=False).array, dtype=np.float64)[:n]
    elif kind == "vacuum":
        v = np.zeros((n, nx, ny))
    else:
        raise ValueError(kind)
    return v


def indep_aperture(gpts, sampling):
    """antialias aperture recomputed from its specification (2/3-Nyquist of the coarser axis, cosine taper of the configured
    width) with numpy only — independent of abtem.antialias and of the Lean model"""
    import abtem

    cutoff = abtem.config.get("antialias.cutoff") / max(sampling) / 2
    taper = abtem.config.get("antialias.taper") / max(sampling)
    kx = np.fft.fftfreq(gpts[0], sampling[0])[:, None]
    ky = np.fft.fftfreq(gpts[1], sampling[1])[None]
    r = np.sqrt(kx ** 2 + ky ** 2)
    a = np.where(r <= cutoff - taper, 1.0, np.where(r > cutoff, 0.0, 0.5 * (1 + np.cos(np.pi * (r - cutoff + taper) / taper))))
    return a


def indep_tbl(v, sigma, gpts, sampling):
    """band-limited transmission function of one real potential slice, recomputed independently (numpy.fft)"""
    t = np.exp(1j * sigma * np.asarray(v, dtype=np.float64))
    return np.fft.ifft2(indep_aperture(gpts, sampling) * np.fft.fft2(t))


class Stepper:
    """the real `conventional_multislice_step` on raw arrays, slice by slice"""

    def __init__(self, case):
        from abtem.potentials.iam import PotentialArray

        self.case = case
        self.dtype = np.complex128 if case["precision"] == "float64" else np.complex64
        v = potential_values(case).astype(np.float64 if case["precision"] == "float64" else np.float32)
        self.n = v.shape[0]
        self.v = np.asarray(v, dtype=np.float64)
        self.pots = [PotentialArray(v[i:i + 1], slice_thickness=abs(case["dz"]), sampling=tuple(case["sampling"])) for i in range(self.n)]

    def step(self, arr, i, adjoint=False):
        from abtem.antialias import AntialiasAperture
        from abtem.multislice import FresnelPropagator, conventional_multislice_step

        c = self.case
        w = make_waves(np.array(arr, dtype=self.dtype), c["energy"], tuple(c["sampling"]), tuple(c["tilt"]))
        conj = (c["dz"] < 0) != adjoint
        tr = c["transpose"] != adjoint
        w = conventional_multislice_step(w, self.pots[i], FresnelPropagator(), AntialiasAperture(), conjugate=conj,
                                         transpose=tr, order=c["order"])
        return np.asarray(w.array)

    def max_tbl2(self, i):
        """(max |T_bl|², mean |T_bl|², max | |T| - 1 |, deviation of the code's T_bl from the independent recomputation).
        max/mean come from the INDEPENDENT recomputation, so a regression that inflates the code's T_bl cannot raise the bound."""
        from abtem.antialias import AntialiasAperture
        from abtem.core.energy import energy2sigma

        c = self.case
        tf = self.pots[i].transmission_function(c["energy"])
        dev = float(np.abs(np.abs(np.asarray(tf.array, dtype=np.complex128)) - 1).max())
        tf = AntialiasAperture().bandlimit(tf, in_place=False)
        code = np.asarray(tf.array, dtype=np.complex128)[0]
        ind = indep_tbl(self.v[i], float(energy2sigma(c["energy"])), tuple(c["gpts"]), tuple(c["sampling"]))
        a2 = np.abs(ind) ** 2
        return float(a2.max()), float(a2.mean()), dev, float(np.abs(code - ind).max())

    def step_tf(self, arr, i):
        """the step when a (not band-limited) TransmissionFunction is handed to conventional_multislice_step"""
        from abtem.antialias import AntialiasAperture
        from abtem.multislice import FresnelPropagator, conventional_multislice_step

        c = self.case
        w = make_waves(np.array(arr, dtype=self.dtype), c["energy"], tuple(c["sampling"]), tuple(c["tilt"]))
        tf = self.pots[i].transmission_function(c["energy"])
        w = conventional_multislice_step(w, tf, FresnelPropagator(), AntialiasAperture(), conjugate=c["dz"] < 0,
                                         transpose=c["transpose"], order=c["order"])
        return np.asarray(w.array)


def gen_case(ctx: Ctx, potential=None):
    rng = ctx.rng
    gpts, sampling = rand_grid(ctx, 6, 20)
    pot = potential or rng.choice(["spike", "random", "random", "smooth", "smooth", "iam", "vacuum"])
    return dict(
        gpts=list(gpts), sampling=list(sampling), energy=float(rng.choice([60e3, 80e3, 100e3, 200e3, 300e3])),
        dz=rng.choice([0.5, 1.0, 2.0, -1.0]), order=rng.choice([1, 1, 2]), transpose=rng.random() < 0.3,
        tilt=[0.0, 0.0] if rng.random() < 0.5 else [round(rng.uniform(-40, 40), 2), round(rng.uniform(-40, 40), 2)],
        potential=pot, strength=rng.choice([0.05, 0.3, 1.0, 3.0]), nslices=rng.randint(1, 4),
        pseed=rng.randint(0, 10 ** 6), wseed=rng.randint(0, 10 ** 6), wave=rng.choice(["random", "random", "adversarial"]),
        precision=rng.choice(["float64", "float64", "float32"]), symbol=rng.choice(["Au", "Si", "C"]),
    )


class C04(Property):
    id = "C04"
    props_file = "AbtemVerif/Props/C04.lean"
    drive_file = "AbtemVerif/Drive/C04.lean"
    trusted = [
        "FFT: numpy/pyFFTW fft2/ifft2 are an inverse pair satisfying Parseval (fields of `FourierPair`; the concrete "
        "instances proved in Lean are Mathlib's ZMod.dft and explicit 2-/4-point DFTs); validated numerically here "
        "(the real step is compared with numpy.fft recomputation from model-produced symbols)",
        "IEEE: float32/float64 evaluation of the generated formulas stays within the stated tolerances of their real values",
        "hand composition of the generated formulas (Lib/WaveOptics.lean over ℝ, Model/Propagator.lean over Float) mirroring "
        "antialias_aperture / _fresnel_propagator_array / FresnelPropagator._calculate_array, and the abstract step "
        "`F⁻¹(p·F(t·ψ))` of Lib/FourierMultislice.lean mirroring conventional_multislice_step — both tied by correspondence",
        "spatial frequencies are arbitrary real labels in the theorems (np.fft.fftfreq itself is not modelled here)",
    ]
    assumptions = ["FFT (inverse pair + Parseval)", "IEEE rounding within tolerance",
                   "pointwise reading of array expressions (broadcasting covered by correspondence)"]
    rule = ("correspondence: every pixel of randomly drawn grids (3..12 x 3..12, random samplings/energies/thicknesses of "
            "both signs/orders 1,2,3/base tilts/tilt axes/config cutoff+taper incl. hard aperture), float64 and float32; "
            "conformance: random multislice cases (spike/random/smooth/IAM/vacuum potentials, 1-4 slices, random or "
            "power-iterated adversarial waves, transpose/conjugate, order 1/2, tilt); distinct = distinct case JSON")

    # ------------------------------------------------------------------ correspondence
    def correspondence(self, ctx: Ctx):
        import abtem
        from abtem.antialias import antialias_aperture
        from abtem.core.axes import AxisAlignedTiltAxis, TiltAxis
        from abtem.core.energy import energy2sigma, energy2wavelength
        from abtem.multislice import FresnelPropagator, _fresnel_propagator_array
        from abtem.potentials.iam import PotentialArray

        rng = ctx.rng
        drv = LeanDriver(self.drive_file)
        lines, checks = [], []  # checks: (name, case, line index range, impl values, tolerance)

        def add(name, case, reqs, impl, tol):
            checks.append((name, case, len(lines), len(reqs), impl, tol))
            lines.extend(reqs)

        for prec, ncases in (("float64", ctx.n(10, 80)), ("float32", ctx.n(3, 20))):
            dt = np.float64 if prec == "float64" else np.float32
            tol = 2e-9 if prec == "float64" else 5e-4
            for _ in range(ncases):
                gpts, sampling = rand_grid(ctx)
                energy = rng.uniform(20e3, 300e3)
                dz = rng.choice([rng.uniform(0.1, 4.0), -rng.uniform(0.1, 2.0), 0.0]) if rng.random() < 0.9 else 1.0
                order = rng.choice([1, 2])
                with precision(prec):
                    kx, ky = freqs(gpts, sampling, dt)
                    wl = energy2wavelength(energy)
                    ms = max(sampling)
                    pix = pick_pixels(ctx, gpts)
                    # antialias aperture (default configuration)
                    a = np.asarray(antialias_aperture(gpts, sampling, np), dtype=np.float64)
                    add("antialias_aperture", dict(gpts=gpts, sampling=sampling, precision=prec),
                        [f"aperture {fb(kx[i])} {fb(ky[j])} {fb(ms)}" for i, j in pix], [a[i, j] for i, j in pix],
                        1e-9 if prec == "float64" else 2e-3)
                    # bare Fresnel propagator
                    f = np.asarray(_fresnel_propagator_array(dz, gpts, sampling, energy, "cpu", order=order), dtype=np.complex128)
                    add("_fresnel_propagator_array", dict(gpts=gpts, sampling=sampling, dz=dz, energy=energy, order=order, precision=prec),
                        [f"fresnel {order} {fb(kx[i])} {fb(ky[j])} {fb(dz)} {fb(wl)}" for i, j in pix], [f[i, j] for i, j in pix], tol)
                    # complete propagator with base tilt and tilt axes
                    base = (0.0, 0.0) if rng.random() < 0.3 else (round(rng.uniform(-30, 30), 3), round(rng.uniform(-30, 30), 3))
                    axes, shape = [], ()
                    mode = rng.choice(["none", "pair", "aligned", "both"])
                    if mode in ("pair", "both"):
                        vals = tuple((round(rng.uniform(-20, 20), 3), round(rng.uniform(-20, 20), 3)) for _ in range(rng.randint(1, 2)))
                        axes.append(TiltAxis(values=vals)); shape += (len(vals),)
                    if mode in ("aligned", "both"):
                        vals = tuple(round(rng.uniform(-20, 20), 3) for _ in range(rng.randint(1, 2)))
                        axes.append(AxisAlignedTiltAxis(values=vals, direction=rng.choice(["x", "y"]))); shape += (len(vals),)
                    w = make_waves(np.zeros(shape + tuple(gpts), dtype=np.complex128 if prec == "float64" else np.complex64),
                                   energy, sampling, base, axes)
                    arr = np.asarray(FresnelPropagator._calculate_array(w, dz, order=order), dtype=np.complex128)
                    arr = np.broadcast_to(arr, shape + tuple(gpts)) if arr.shape != shape + tuple(gpts) else arr
                    reqs, impl = [], []
                    for idx in np.ndindex(*shape):
                        tilts = [] if base == (0.0, 0.0) else [base]
                        for ax, k in reversed(list(zip(axes, idx))):
                            tilts.append(tuple(ax.tilt[k]))
                        ts = ",".join(f"{fb(t[0])},{fb(t[1])}" for t in tilts) or "_"
                        for i, j in pix:
                            reqs.append(f"propagator {order} {fb(kx[i])} {fb(ky[j])} {fb(dz)} {fb(wl)} {fb(ms)} {ts}")
                            impl.append(arr[idx + (i, j)])
                    case = dict(gpts=gpts, sampling=sampling, dz=dz, energy=energy, order=order, base_tilt=base, axes=mode,
                                shape=list(shape), precision=prec)
                    add("FresnelPropagator._calculate_array", case, reqs, impl, tol * 3)
                    ctx.count(f"propagator:{prec}:order{order}:tilt-axes={mode}:base={'zero' if base == (0.0, 0.0) else 'set'}")
                    ctx.case(case)
                    # transmission function
                    v = (rng.uniform(-1, 1) * 10 ** rng.uniform(0, 3.5)) * ctx.nprng.normal(size=gpts)
                    v = v.astype(dt)
                    t = np.asarray(PotentialArray._transmission_function(v, energy), dtype=np.complex128)
                    sigma = float(np.array(energy2sigma(energy), dtype=dt))
                    add("PotentialArray._transmission_function", dict(gpts=gpts, energy=energy, precision=prec),
                        [f"transmission {fb(sigma)} {fb(v[i, j])}" for i, j in pix], [t[i, j] for i, j in pix],
                        1e-9 if prec == "float64" else 2e-3)
        # configured cutoff / taper, including the hard aperture (taper = 0) and exact boundary radii
        for _ in range(ctx.n(6, 40)):
            gpts, sampling = rand_grid(ctx)
            cc = rng.choice([0.6666666, 0.5, 0.25, 1.0, round(rng.uniform(0.1, 1.2), 3)])
            ct = rng.choice([0.0, 0.0, 0.01, 0.125, -0.05, round(rng.uniform(0.0, 0.3), 3)])
            with precision("float64", **{"antialias.cutoff": cc, "antialias.taper": ct}):
                kx, ky = freqs(gpts, sampling, np.float64)
                a = np.asarray(antialias_aperture(gpts, sampling, np), dtype=np.float64)
            pix = pick_pixels(ctx, gpts, 40)
            case = dict(gpts=gpts, sampling=sampling, cutoff=cc, taper=ct)
            add("antialias_aperture(config)", case,
                [f"aperturecfg {fb(cc)} {fb(ct)} {fb(kx[i])} {fb(ky[j])} {fb(max(sampling))}" for i, j in pix],
                [a[i, j] for i, j in pix], 1e-9)
            ctx.count(f"aperture-config:{'hard' if ct <= 0 else 'tapered'}")
            ctx.case(case)
        # error branch: order > 2
        for order in (3, 4, 7):
            try:
                _fresnel_propagator_array(1.0, (4, 4), (0.1, 0.1), 100e3, "cpu", order=order)
                impl = "ok"
            except Exception as e:  # noqa
                impl = "err " + err_kind(e)
            add("_fresnel_propagator_array(order>2)", dict(order=order), [f"fresnel {order} {fb(0.5)} {fb(0.25)} {fb(1.0)} {fb(0.037)}"], [impl], 0)
        # malformed requests must be rejected by the driver
        for bad in ("fresnel 1 2 3", "aperture x y z", "propagator 1 0 0 0 0 0 5", "nonsense"):
            add("driver rejects malformed", dict(line=bad), [bad], ["bad-op"], 0)

        structure = self.step_structure_requests(ctx, lines)
        outs = drv.query(lines)
        for name, case, start, n, impl, tol in checks:
            model = [parse_c(o) for o in outs[start:start + n]]
            worst, ok = 0.0, True
            for m, v in zip(model, impl):
                if isinstance(m, str) or isinstance(v, str):
                    ok = ok and (m == v)
                else:
                    d = abs(complex(m) - complex(v))
                    worst = max(worst, d)
                    ok = ok and d <= tol
            ctx.agree(name, case, {"worst_abs_diff": worst} if ok else {"model": [str(m) for m in model[:6]], "worst": worst},
                      {"worst_abs_diff": worst} if ok else {"impl": [str(v) for v in impl[:6]], "tol": tol}, ok=ok)
        ctx.driver_lines += len(lines)

        # operator structure of the real step, rebuilt from model-produced symbols with numpy.fft
        self.step_structure(ctx, structure, outs)

    def step_structure_requests(self, ctx: Ctx, lines):
        """appends the symbol requests of a few one-slice cases to `lines`; returns [(case, start index)]"""
        from abtem.core.energy import energy2sigma, energy2wavelength

        res = []
        for _ in range(ctx.n(6, 40)):
            case = gen_case(ctx, potential=ctx.rng.choice(["random", "smooth", "spike"]))
            case["precision"] = "float64"
            case["nslices"] = 1
            with precision("float64"):
                gpts, sampling = case["gpts"], case["sampling"]
                kx, ky = freqs(gpts, sampling, np.float64)
                wl, sigma, ms = energy2wavelength(case["energy"]), float(energy2sigma(case["energy"])), max(sampling)
                v = potential_values(case)[0]
            dz = case["dz"]
            pix = [(i, j) for i in range(gpts[0]) for j in range(gpts[1])]
            ts = "_" if tuple(case["tilt"]) == (0.0, 0.0) else f"{fb(case['tilt'][0])},{fb(case['tilt'][1])}"
            res.append((case, len(lines)))
            lines += [f"propagator {case['order']} {fb(kx[i])} {fb(ky[j])} {fb(dz)} {fb(wl)} {fb(ms)} {ts}" for i, j in pix] + \
                     [f"transmission {fb(sigma)} {fb(v[i, j])}" for i, j in pix] + \
                     [f"aperture {fb(kx[i])} {fb(ky[j])} {fb(ms)}" for i, j in pix]
        return res

    def step_structure(self, ctx: Ctx, structure, all_outs):
        for case, start in structure:
            with precision("float64"):
                st = Stepper(case)
                gpts, sampling = case["gpts"], case["sampling"]
                dz = case["dz"]
                n = gpts[0] * gpts[1]
                outs = [parse_c(o) for o in all_outs[start:start + 3 * n]]
                P = np.array(outs[:n]).reshape(gpts)
                T = np.array(outs[n:2 * n]).reshape(gpts)
                A = np.array(outs[2 * n:]).reshape(gpts)
                Tbl = np.fft.ifft2(A * np.fft.fft2(T))
                if dz < 0:
                    Tbl = np.conj(Tbl)
                rng = np.random.default_rng(case["wseed"])
                psi = rng.normal(size=gpts) + 1j * rng.normal(size=gpts)
                if case["transpose"]:
                    exp = Tbl * np.fft.ifft2(P * np.fft.fft2(psi))
                else:
                    exp = np.fft.ifft2(P * np.fft.fft2(Tbl * psi))
                got = st.step(psi, 0)
            err = float(np.abs(got - exp).max() / max(1.0, np.abs(exp).max()))
            ctx.agree("conventional_multislice_step = F⁻¹(p·F(T_bl·ψ)) with model symbols", case, {"rel_err": 0.0 if err <= 1e-8 else err},
                      {"rel_err": 0.0}, ok=err <= 1e-8)
            ctx.traces += 1
            ctx.count(f"step-structure:transpose={case['transpose']}:conj={dz < 0}")
            ctx.case(case)

    # ------------------------------------------------------------------ conformance
    def oracle(self, ctx: Ctx, case):
        tol = 1e-9 if case["precision"] == "float64" else 3e-5
        with precision(case["precision"]):
            st = Stepper(case)
            rng = np.random.default_rng(case["wseed"])
            gpts = tuple(case["gpts"])
            psi = rng.normal(size=gpts) + 1j * rng.normal(size=gpts)
            if case["wave"] == "adversarial":
                # failing-input search with the real code only: power iteration on S*S of the first slice
                for _ in range(case.get("iters", 25)):
                    psi = psi / np.sqrt(energy_of(psi))
                    psi = st.step(st.step(psi, 0), 0, adjoint=True)
            psi = psi / np.sqrt(energy_of(psi))
            for i in range(st.n):
                e0 = energy_of(psi)
                out = st.step(psi, i)
                e1 = energy_of(out)
                ratio = e1 / e0 if np.isfinite(e1) else float('nan')
                bound, mean2, dev, tbl_dev = st.max_tbl2(i)
                detail = dict(slice=i, ratio=ratio, max_Tbl_sq=bound, mean_Tbl_sq=mean2, e_before=e0, e_after=e1)
                ftol = 1e-9 if case["precision"] == "float64" else 2e-5
                if gt(tbl_dev, (1e-9 if case["precision"] == "float64" else 3e-5)):
                    ctx.violation("bandlimited-transmission-function-differs-from-independent-recomputation", case, dict(max_abs_dev=tbl_dev, **detail))
                # TransmissionFunction input path (no band-limit): a pure phase object never creates intensity
                rt = energy_of(st.step_tf(psi, i)) / e0
                if gt(rt, 1 + tol + (3e-4 if case["precision"] == "float32" else 0)):
                    ctx.violation("pure-phase-transmission-function-step-creates-intensity", case, dict(ratio=rt, slice=i))
                if gt(dev, ftol):
                    ctx.violation("transmission-function-of-real-potential-not-unit-modulus", case, dict(max_dev=dev, **detail))
                if gt(mean2, 1 + ftol):
                    ctx.violation("bandlimited-transmission-function-mean-square-above-one", case, detail)
                if gt(ratio, max(bound, 1.0) * (1 + tol) + tol):
                    ctx.violation("step-gain-exceeds-proved-bound-max|T_bl|^2", case, detail)
                elif gt(ratio, 1 + tol + (3e-4 if case["precision"] == "float32" else 0)):
                    if bound <= 1 + tol:
                        ctx.violation("step-gain-although-|T_bl|<=1", case, detail)
                    else:
                        # literal property violated: the band-limited transmission function exceeds modulus one
                        ctx.violation("step-gain-through-bandlimited-transmission-function-with-modulus-above-one", case, detail)
                psi = out
                ctx.count(f"step:{case['potential']}:{case['wave']}:{'gain' if ratio > 1 + tol else 'no-gain'}:{'Tbl>1' if bound > 1 + tol else 'Tbl<=1'}")

    def vacuum_oracle(self, ctx: Ctx, case):
        """vacuum propagation: isometry + reversibility for waves band-limited inside the aperture (mask taken from the real aperture)"""
        from abtem.antialias import antialias_aperture
        from abtem.multislice import FresnelPropagator

        tol = 1e-9 if case["precision"] == "float64" else 3e-5
        with precision(case["precision"]):
            gpts, sampling = tuple(case["gpts"]), tuple(case["sampling"])
            rng = np.random.default_rng(case["wseed"])
            dtype = np.complex128 if case["precision"] == "float64" else np.complex64
            import abtem

            # "band-limited inside the antialiasing aperture": radius below (cutoff - taper) of the configuration
            # (2/3-Nyquist aperture of the coarser axis), independent of the aperture array the code builds
            kx = np.fft.fftfreq(gpts[0], sampling[0])[:, None]
            ky = np.fft.fftfreq(gpts[1], sampling[1])[None]
            rad = np.sqrt(kx ** 2 + ky ** 2)
            rin = (abtem.config.get("antialias.cutoff") / 2 - abtem.config.get("antialias.taper")) / max(sampling)
            inside = rad <= rin * (1 - 1e-6)
            spec = (rng.normal(size=gpts) + 1j * rng.normal(size=gpts)) * inside
            psi = np.fft.ifft2(spec).astype(dtype)
            w = make_waves(psi.copy(), case["energy"], sampling, tuple(case["tilt"]))
            prop = FresnelPropagator()
            w1 = prop.propagate(w, thickness=case["dz"], in_place=False, order=case["order"])
            e0, e1 = energy_of(psi), energy_of(w1.array)
            if gt(abs(e1 / e0 - 1), 10 * tol):
                ctx.violation("vacuum-propagation-changes-intensity-of-bandlimited-wave", case, dict(ratio=e1 / e0))
            w2 = FresnelPropagator().propagate(w1, thickness=-case["dz"], in_place=False, order=case["order"])
            err = float(np.abs(np.asarray(w2.array) - psi).max() / np.abs(psi).max())
            if gt(err, (1e-8 if case["precision"] == "float64" else 2e-3)):
                ctx.violation("vacuum-back-propagation-does-not-undo-propagation", case, dict(rel_err=err))
            # any wave (not band-limited): never more intensity
            full = (rng.normal(size=gpts) + 1j * rng.normal(size=gpts)).astype(dtype)
            w3 = FresnelPropagator().propagate(make_waves(full.copy(), case["energy"], sampling, tuple(case["tilt"])),
                                               thickness=case["dz"], in_place=False, order=case["order"])
            r = energy_of(w3.array) / energy_of(full)
            if gt(r, 1 + 10 * tol):
                ctx.violation("vacuum-propagation-creates-intensity", case, dict(ratio=r))
            # waves living in the taper ring / just around the cutoff (where the aperture is strictly between 0 and 1)
            ring = (rad > rin) & (rad <= abtem.config.get("antialias.cutoff") / 2 / max(sampling) * 1.05)
            if ring.any():
                rw = np.fft.ifft2((rng.normal(size=gpts) + 1j * rng.normal(size=gpts)) * ring).astype(dtype)
                w4 = FresnelPropagator().propagate(make_waves(rw.copy(), case["energy"], sampling, tuple(case["tilt"])),
                                                   thickness=case["dz"], in_place=False, order=case["order"])
                r4 = energy_of(w4.array) / energy_of(rw)
                if gt(r4, 1 + 10 * tol):
                    ctx.violation("vacuum-propagation-creates-intensity-in-taper-ring", case, dict(ratio=r4))
            # one FresnelPropagator instance reused over a history of (order, thickness, tilt): its cache must never hand
            # back a kernel computed for other parameters
            shared = FresnelPropagator()
            other_tilt = (tuple(case["tilt"])[0] + 3.5, -2.25)
            hist = [(case["order"], case["dz"], tuple(case["tilt"])), (3 - case["order"], case["dz"], tuple(case["tilt"])),
                    (3 - case["order"], -case["dz"], tuple(case["tilt"])), (3 - case["order"], -case["dz"], other_tilt),
                    (case["order"], case["dz"], tuple(case["tilt"]))]
            prev = None
            for o, dzz, tl in hist:
                a = np.asarray(shared.propagate(make_waves(full.copy(), case["energy"], sampling, tl), thickness=dzz, in_place=False, order=o).array)
                b = np.asarray(FresnelPropagator().propagate(make_waves(full.copy(), case["energy"], sampling, tl), thickness=dzz, in_place=False, order=o).array)
                e = float(np.abs(a - b).max() / max(float(np.abs(b).max()), 1e-30))
                if gt(e, 1e-9 if case["precision"] == "float64" else 1e-4):
                    changed = "first" if prev is None else "+".join(n for n, x, y in zip(("order", "thickness", "tilt"), prev, (o, dzz, tl)) if x != y)
                    ctx.violation(f"reused-propagator-differs-from-fresh-after-change-of:{changed}", case, dict(rel_err=e, history=[list(map(str, h)) for h in hist]))
                prev = (o, dzz, tl)
            ctx.count(f"vacuum:order{case['order']}:tilt={'zero' if tuple(case['tilt']) == (0.0, 0.0) else 'set'}:inside={int(inside.sum())>0}")

    def multislice_oracle(self, ctx: Ctx, case):
        """the public path: a batch of waves through `Waves.multislice(Potential(atoms))`; per member
        Σ|ψ_out|² ≤ Σ|ψ_in|² · Π_slices max|T_bl|² (proved bound, T_bl recomputed independently), and ≤ Σ|ψ_in|² whenever that product is ≤ 1"""
        import abtem
        import ase
        from abtem.core.axes import OrdinalAxis
        from abtem.core.energy import energy2sigma
        from abtem.waves import Waves

        tol = 1e-9 if case["precision"] == "float64" else 5e-5
        with precision(case["precision"]):
            gpts, sampling = tuple(case["gpts"]), tuple(case["sampling"])
            rng = np.random.default_rng(case["wseed"])
            ext = (gpts[0] * sampling[0], gpts[1] * sampling[1])
            nat = case["natoms"]
            pos = np.column_stack([rng.uniform(0, ext[0], nat), rng.uniform(0, ext[1], nat), rng.uniform(0.2, case["thickness"] - 0.2, nat)])
            atoms = ase.Atoms(case["symbols"][:nat], positions=pos, cell=(ext[0], ext[1], case["thickness"]))
            pot = abtem.Potential(atoms, gpts=gpts, slice_thickness=abs(case["dz"]), projection=case["projection"])
            v = np.asarray(pot.build(lazy=False).array, dtype=np.float64)
            sigma = float(energy2sigma(case["energy"]))
            bounds = [float((np.abs(indep_tbl(v[i], sigma, gpts, sampling)) ** 2).max()) for i in range(v.shape[0])]
            prod = float(np.prod(bounds))
            dtype = np.complex128 if case["precision"] == "float64" else np.complex64
            nb = case["batch"]
            psi = rng.normal(size=(nb,) + gpts) + 1j * rng.normal(size=(nb,) + gpts)
            if case.get("bandlimited", True):
                # keep the incoming waves inside the aperture so that the first antialias cut does not mask a moderate gain
                psi = np.fft.ifft2(np.fft.fft2(psi) * (indep_aperture(gpts, sampling) >= 1.0))
            psi = psi.astype(dtype)
            md = {} if tuple(case["tilt"]) == (0.0, 0.0) else {"base_tilt_x": case["tilt"][0], "base_tilt_y": case["tilt"][1]}
            w = Waves(psi.copy(), energy=case["energy"], sampling=sampling, ensemble_axes_metadata=[OrdinalAxis(values=tuple(range(nb)))], metadata=md)
            if case["lazy"]:
                w = w.ensure_lazy()
            out = w.multislice(pot)
            out = np.asarray(out.compute().array)
            e_in = (np.abs(psi.astype(np.complex128)) ** 2).sum(axis=(-2, -1))
            e_out = (np.abs(out.astype(np.complex128)) ** 2).sum(axis=(-2, -1)).reshape(e_in.shape)
            ratio = float((e_out / e_in).max())
            detail = dict(ratio=ratio, product_of_max_Tbl_sq=prod, nslices=len(bounds))
            if ratio > max(prod, 1.0) * (1 + tol * len(bounds)) + tol:
                ctx.violation("multislice-gain-exceeds-product-of-proved-slice-bounds", case, detail)
            elif gt(ratio, 1 + 10 * tol):
                ctx.violation("multislice-gain-although-all-|T_bl|<=1" if prod <= 1 + tol else
                              "step-gain-through-bandlimited-transmission-function-with-modulus-above-one", case, detail)
            ctx.count(f"multislice:{case['projection']}:{'lazy' if case['lazy'] else 'eager'}:batch{nb}:{'Tbl>1' if prod > 1 + tol else 'Tbl<=1'}")

    def conformance(self, ctx: Ctx):
        for k in range(ctx.n(40, 600)):
            case = gen_case(ctx)
            case["kind"] = "step"
            self.oracle(ctx, case)
            ctx.case(case)
        for k in range(ctx.n(25, 300)):
            case = gen_case(ctx, potential="vacuum")
            case["kind"] = "vacuum"
            self.vacuum_oracle(ctx, case)
            ctx.case(case)
        rng = ctx.rng
        for k in range(ctx.n(10, 120)):
            case = gen_case(ctx, potential="atoms")
            case.update(kind="multislice", natoms=rng.randint(1, 3), symbols=[rng.choice(["C", "Si", "Cu", "Au"]) for _ in range(3)],
                        thickness=rng.choice([2.0, 4.0]), dz=rng.choice([0.5, 1.0, 2.0]), projection="infinite" if rng.random() < 0.8 else "finite",
                        batch=rng.randint(1, 3), lazy=rng.random() < 0.3, bandlimited=rng.random() < 0.7)
            self.multislice_oracle(ctx, case)
            ctx.case(case)
        self.selftest(ctx)

    def selftest(self, ctx: Ctx):
        import abtem.multislice as ms

        base = dict(gpts=[8, 10], sampling=[0.1, 0.12], energy=100e3, dz=1.0, order=1, transpose=False, tilt=[0.0, 0.0], potential="random",
                    strength=0.3, nslices=1, pseed=3, wseed=4, wave="random", precision="float64", symbol="C")
        ms_case = dict(base, kind="multislice", natoms=1, symbols=["C", "C", "C"], thickness=2.0, projection="infinite", batch=2, lazy=False)
        nan_selftest(ctx, "propagator", [(ms, "_fresnel_propagator_array", False)],
                     [("step", lambda c: self.oracle(c, dict(base, kind="step"))),
                      ("vacuum", lambda c: self.vacuum_oracle(c, dict(base, kind="vacuum", potential="vacuum"))),
                      ("multislice", lambda c: self.multislice_oracle(c, ms_case))])

    def replay(self, ctx: Ctx, case):
        if case.get("kind") == "vacuum":
            self.vacuum_oracle(ctx, case)
        elif case.get("kind") == "multislice":
            self.multislice_oracle(ctx, case)
        else:
            self.oracle(ctx, case)


if __name__ == "__main__":
    sys.exit(run_property(C04()))
