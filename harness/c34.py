"""C34 — temporary configuration changes (`abtem.core.config.set`) are always undone."""
import copy
import sys

from common import Ctx, LeanDriver, Property, err_kind, run_property

KEYS = ["a", "b", "c", "x_y", "x-y", "p_q", "p-q", "u", "cp"]
STRS = ["cpu", "float32", "x_y", "u"]
GLOBAL_PATHS = ["device", "fft", "precision", "dask.lazy", "dask.chunk-size", "dask.chunk_size", "dask.chunk-size-gpu",
                "fftw.threads", "fftw.planning_effort", "fftw.planning-effort", "mkl.threads", "antialias.cutoff",
                "visualize.cmap", "visualize.use_tex", "warnings.overspecified-grid", "warnings.overspecified_grid",
                "diagnostics.progress_bar", "verif_new", "verif_new.sub", "verif-new.sub.leaf", "dask.verif_extra",
                "device.x", "fftw.threads.deep", "precision.p.q", "dask", "fftw", "verif_new.a.b.c.d", "dask.verif.deep.er.still"]


class UserError(RuntimeError):
    pass


# ------------------------------------------------------------------ values
def gen_val(rng, depth, leaf_bias=0.7):
    if depth <= 0 or rng.random() < leaf_bias:
        return rng.choice([rng.randint(-3, 9), rng.choice(STRS)])
    return gen_dict(rng, depth - 1, rng.randint(0, 3))


def gen_dict(rng, depth, n):
    ks = rng.sample(KEYS, min(n, len(KEYS)))
    return {k: gen_val(rng, depth, 0.5) for k in ks}


def gen_cfg(rng):
    """configuration trees up to depth 5 (key paths of assignments go as deep)"""
    return gen_dict(rng, rng.choice([2, 3, 3, 4, 5]), rng.randint(0, 5))


def enc_val(v):
    if isinstance(v, dict):
        return " ".join([f"d:{len(v)}"] + [f"k:{k} {enc_val(x)}" for k, x in v.items()])
    if isinstance(v, bool) or not isinstance(v, (int, str)):
        raise ValueError(f"not encodable: {v!r}")
    return f"n:{v}" if isinstance(v, int) else f"s:{v}"


def dec_val(toks, i=0):
    """-> (value, next index); dicts keep the order of the wire"""
    t = toks[i]
    tag, _, rest = t.partition(":")
    if tag == "n":
        return int(rest), i + 1
    if tag == "s":
        return rest, i + 1
    assert tag == "d", t
    d = {}
    i += 1
    for _ in range(int(rest)):
        assert toks[i].startswith("k:")
        k = toks[i][2:]
        v, i = dec_val(toks, i + 1)
        d[k] = v
    return d, i


def ordered(v):
    """order-sensitive canonical form (Python `==` on dicts ignores order; the model does not)"""
    if isinstance(v, dict):
        return ["d", [[k, ordered(x)] for k, x in v.items()]]
    return ["s", v] if isinstance(v, str) else ["n", int(v)]


# ------------------------------------------------------------------ scripts
def gen_keystr(rng, cfg, kw):
    """a dotted key string, biased towards paths that exist in cfg"""
    n = rng.choice([1, 1, 2, 2, 3, 4, 5])
    parts, d = [], cfg
    for _ in range(n):
        if isinstance(d, dict) and d and rng.random() < 0.65:
            k = rng.choice(list(d))
            if rng.random() < 0.25:  # the other spelling of the same canonical name
                k = k.replace("_", "-") if "_" in k else k.replace("-", "_")
        else:
            k = rng.choice(KEYS)
        parts.append(k)
        d = d.get(k) if isinstance(d, dict) else None
    return ("__" if kw else ".").join(parts)


def gen_assigns(rng, cfg):
    n = rng.choice([0, 1, 1, 2, 2, 3, 4])
    arg, kwargs = {}, {}
    for _ in range(n):
        kw = rng.random() < 0.35
        ks = gen_keystr(rng, cfg, kw)
        if ks in ("config", "lock"):
            continue
        (kwargs if kw else arg)[ks] = gen_val(rng, 2)
    use_arg = bool(arg) or rng.random() < 0.5
    return [[False, k, v] for k, v in arg.items()] if use_arg else [], [[True, k, v] for k, v in kwargs.items()], use_arg


def gen_script(rng, cfg, depth, pokes):
    r = rng.random()
    if depth <= 0 or r < 0.12:
        c = rng.random()
        if pokes and c < 0.3:
            return ["poke", rng.choice(KEYS), gen_val(rng, 1)] if rng.random() < 0.6 else ["del", rng.choice(list(cfg) or KEYS)]
        return ["raise"] if c < 0.45 else ["snap"]
    if r < 0.40:
        return ["seq", gen_script(rng, cfg, depth - 1, pokes), gen_script(rng, cfg, depth - 1, pokes)]
    if r < 0.52:
        return ["try", gen_script(rng, cfg, depth - 1, pokes)]
    a, k, use_arg = gen_assigns(rng, cfg)
    if rng.random() < 0.15:   # one set object entered again inside its own block
        return ["reenter", a + k, use_arg, ["seq", ["snap"], gen_script(rng, cfg, depth - 1, pokes)],
                ["seq", ["snap"], gen_script(rng, cfg, max(depth - 2, 0), pokes)]]
    return ["with", a + k, use_arg, ["seq", ["snap"], gen_script(rng, cfg, depth - 1, pokes)]]


def enc_script(s):
    k = s[0]
    if k in ("snap", "raise"):
        return k
    if k == "poke":
        return f"poke k:{s[1]} {enc_val(s[2])}"
    if k == "del":
        return f"del k:{s[1]}"
    if k == "seq":
        return f"seq {enc_script(s[1])} {enc_script(s[2])}"
    if k == "try":
        return f"try {enc_script(s[1])}"
    assigns = s[1]
    head = "reenter" if k == "reenter" else "with"
    return " ".join([f"{head} {len(assigns)}"] + [f"A:{'T' if kw else 'F'}:{ks} {enc_val(v)}" for kw, ks, v in assigns]
                    + [enc_script(x) for x in s[3:]])


def has_with(s):
    return s[0] in ("with", "reenter") and len(s[1]) > 0 or any(has_with(x) for x in s[1:] if isinstance(x, list) and x and isinstance(x[0], str)
                                                    and x[0] in ("seq", "try", "with", "reenter", "snap", "raise", "poke", "del"))


class Runner:
    """executes a script against the real `abtem.core.config.set`"""

    def __init__(self, cfg, use_global=False):
        from abtem.core import config as C
        self.C = C
        self.cfg = cfg
        self.use_global = use_global
        self.log = []
        self.init_failures = 0
        self.init_dirty = []  # (before, after) of a raising constructor that changed the configuration
        self.ctx_dirty = []   # (which, before, after): a context whose exit did not give back the configuration it found
        self.track_contexts = True

    def run(self, s):
        k = s[0]
        if k == "snap":
            self.log.append(copy.deepcopy(self.cfg))
        elif k == "raise":
            raise UserError("user code")
        elif k == "poke":
            self.cfg[s[1]] = copy.deepcopy(s[2])
        elif k == "del":
            self.cfg.pop(s[1], None)
        elif k == "seq":
            self.run(s[1])
            self.run(s[2])
        elif k == "try":
            try:
                self.run(s[1])
            except Exception:  # noqa
                pass
        elif k == "with":
            arg = {ks: copy.deepcopy(v) for kw, ks, v in s[1] if not kw}
            kwargs = {ks: copy.deepcopy(v) for kw, ks, v in s[1] if kw}
            before = copy.deepcopy(self.cfg)
            try:
                if self.use_global:
                    ctxm = self.C.set(arg if s[2] else None, **kwargs)
                else:
                    ctxm = self.C.set(arg if s[2] else None, config=self.cfg, **kwargs)
            except Exception:
                self.init_failures += 1
                if ordered(self.cfg) != ordered(before):
                    self.init_dirty.append([before, copy.deepcopy(self.cfg)])
                raise
            try:
                with ctxm:
                    self.run(s[3])
            finally:   # per context, not only for the whole script: left normally or through an exception
                if self.track_contexts and ordered(self.cfg) != ordered(before):
                    self.ctx_dirty.append(["with", before, copy.deepcopy(self.cfg)])
        elif k == "reenter":
            arg = {ks: copy.deepcopy(v) for kw, ks, v in s[1] if not kw}
            kwargs = {ks: copy.deepcopy(v) for kw, ks, v in s[1] if kw}
            before = copy.deepcopy(self.cfg)
            try:
                if self.use_global:
                    ctxm = self.C.set(arg if s[2] else None, **kwargs)
                else:
                    ctxm = self.C.set(arg if s[2] else None, config=self.cfg, **kwargs)
            except Exception:
                self.init_failures += 1
                if ordered(self.cfg) != ordered(before):
                    self.init_dirty.append([before, copy.deepcopy(self.cfg)])
                raise
            try:
                with ctxm:
                    inner_before = copy.deepcopy(self.cfg)
                    try:
                        with ctxm:
                            self.run(s[3])
                    finally:
                        if self.track_contexts and ordered(self.cfg) != ordered(inner_before):
                            self.ctx_dirty.append(["reentered-inner", inner_before, copy.deepcopy(self.cfg)])
                    self.run(s[4])
            finally:
                if self.track_contexts and ordered(self.cfg) != ordered(before):
                    self.ctx_dirty.append(["reentered-outer", before, copy.deepcopy(self.cfg)])
        else:
            raise ValueError(k)


def impl_run(cfg0, script):
    cfg = copy.deepcopy(cfg0)
    r = Runner(cfg)
    out = "ok"
    try:
        r.run(script)
    except Exception as e:  # noqa
        out = "err:" + err_kind(e)
    return [out, ordered(cfg), [ordered(x) for x in r.log]], r


def parse_run_reply(line):
    toks = line.split(" ")
    out = toks[0]
    cfg, i = dec_val(toks, 1)
    assert toks[i].startswith("log:")
    n = int(toks[i][4:])
    i += 1
    log = []
    for _ in range(n):
        v, i = dec_val(toks, i)
        log.append(ordered(v))
    assert i == len(toks)
    return [out, ordered(cfg), log]


# ------------------------------------------------------------------ property
class C34(Property):
    id = "C34"
    props_file = "AbtemVerif/Props/C34.lean"
    drive_file = "AbtemVerif/Drive/C34.lean"
    trusted = [
        "hand model `Config.assign/undo/exitAll/init/run` of abtem/core/config.py `set.__init__/_assign/__exit__` and of "
        "dask.config.canonical_name (tied by differential correspondence on random scripts, configurations and records; "
        "source fingerprints reported)",
        "PYTHON: dict insertion-order semantics, `with` statement protocol (an exception raised by `__init__` skips `__exit__`; "
        "`__exit__` returning None re-raises; an exception from `__exit__` replaces the one in flight), `str.split/replace`",
        "configuration values are YAML-like trees (int, str, dict) and assigned values are not aliased into the configuration "
        "twice (value semantics of the model); aliasing is exercised by the conformance oracle only",
    ]
    assumptions = ["single thread: the body of a context does not run concurrently with another context on the same dict",
                   "bodies change the configuration only through nested `set` contexts (scripts with direct writes are "
                   "exercised for the error branches of `__exit__` but excluded from the theorem, as they must be)"]
    rule = ("random nested scripts (seq / try-except / raise / with set(arg, **kwargs) / snapshots; depth <= 5) over random "
            "configuration trees (depth <= 3, hyphen/underscore twin keys, int/str/dict leaves); separate malformed stream with "
            "direct writes/deletes inside bodies and hand-made inconsistent rollback records; distinct = distinct case JSON; "
            "non-trivial = at least one `set` with an assignment")

    # -- unit helpers on the real class ------------------------------------------------
    @staticmethod
    def impl_assign(d0, kw, ks, v):
        from abtem.core import config as C
        d = copy.deepcopy(d0)
        s = object.__new__(C.set)
        s.config = d
        s._record = []
        key = ks.replace("__", ".") if kw else ks
        try:
            s._assign(key.split("."), copy.deepcopy(v), d)
        except Exception as e:  # noqa
            return ["err:" + err_kind(e), ordered(d)]
        assert len(s._record) == 1, s._record
        op, path, old = s._record[0]
        return ["ok", ordered(d), op, list(path), ordered(old) if op == "replace" else None]

    @staticmethod
    def impl_undo(d0, op, path, old):
        from abtem.core import config as C
        d = copy.deepcopy(d0)
        s = object.__new__(C.set)
        s.config = d
        s._record = [(op, tuple(path), copy.deepcopy(old))]
        s._depth = 0   # not inside a `with` block of this object (as in the constructor's own rollback)
        try:
            s.__exit__(None, None, None)
        except Exception as e:  # noqa
            return ["err:" + err_kind(e), ordered(d)]
        return ["ok", ordered(d)]

    def correspondence(self, ctx: Ctx):
        rng = ctx.rng
        drv = LeanDriver(self.drive_file)
        lines, jobs = [], []
        # 1. scripts, well behaved and with direct writes
        for i in range(ctx.n(500, 8000)):
            cfg = gen_cfg(rng)
            pokes = i % 4 == 3
            sc = gen_script(rng, cfg, rng.randint(1, 5), pokes)
            lines.append(f"run {enc_val(cfg)} {enc_script(sc)}")
            jobs.append(("run", cfg, sc, pokes))
        # 2. single assignments
        for _ in range(ctx.n(300, 5000)):
            cfg = gen_dict(rng, 3, rng.randint(0, 5))
            kw = rng.random() < 0.4
            ks = gen_keystr(rng, cfg, kw)
            if rng.random() < 0.1:
                ks = rng.choice(["", ".", "a..b", "a___b", "_", "a__", "x_y.", "-"]) if not kw else rng.choice(["a___b", "a____b", "_", "a__", "__a"])
            v = gen_val(rng, 2)
            lines.append(f"assign {enc_val(cfg)} A:{'T' if kw else 'F'}:{ks} {enc_val(v)}")
            jobs.append(("assign", cfg, kw, ks, v))
        # 3. single rollback records, consistent or not
        for _ in range(ctx.n(300, 5000)):
            cfg = gen_dict(rng, 3, rng.randint(0, 5))
            path = gen_keystr(rng, cfg, False).split(".")
            op = rng.choice(["replace", "insert"])
            old = gen_val(rng, 2)
            lines.append(f"undo {enc_val(cfg)} {op} {len(path)} {' '.join('k:' + k for k in path)} {enc_val(old)}")
            jobs.append(("undo", cfg, op, path, old))
        outs = drv.query(lines)
        for job, out in zip(jobs, outs):
            if job[0] == "run":
                _, cfg, sc, pokes = job
                got, r = impl_run(cfg, sc)
                model = parse_run_reply(out) if out != "bad-op" else ["bad-op"]
                ctx.agree("set-context scripts (outcome, final configuration, snapshots)", {"cfg": cfg, "script": sc}, model, got)
                ctx.count(f"run:{got[0]}:pokes={pokes}:initfail={min(r.init_failures, 1)}")
                ctx.case({"cfg": cfg, "script": sc}, nontrivial=has_with(sc))
            elif job[0] == "assign":
                _, cfg, kw, ks, v = job
                got = self.impl_assign(cfg, kw, ks, v)
                toks = out.split(" ")
                if toks[0] == "ok":
                    d, i = dec_val(toks, 1)
                    op = toks[i]
                    path = [t[2:] for t in toks[i + 1].split(",")] if toks[i + 1] != "_" else []
                    old, _ = dec_val(toks, i + 2)
                    model = ["ok", ordered(d), op, path, ordered(old) if op == "replace" else None]
                else:
                    model = [toks[0], ordered(cfg)]  # the model leaves d untouched on error
                ctx.agree("set._assign (dict after, record)", {"cfg": cfg, "kw": kw, "key": ks, "value": v}, model, got)
                ctx.count(f"assign:{got[0] if got[0] != 'ok' else got[2]}:len={len(ks.split('__' if kw else '.'))}")
                ctx.case({"assign": [cfg, kw, ks, v]})
            else:
                _, cfg, op, path, old = job
                got = self.impl_undo(cfg, op, path, old)
                toks = out.split(" ")
                model = ["ok", ordered(dec_val(toks, 1)[0])] if toks[0] == "ok" else [toks[0], ordered(cfg)]
                ctx.agree("set.__exit__ on one record", {"cfg": cfg, "op": op, "path": path, "old": old}, model, got)
                ctx.count(f"undo:{op}:{got[0]}")
                ctx.case({"undo": [cfg, op, path, old]})
        ctx.traces += sum(1 for j in jobs if j[0] == "run")

    # -- the property's own conclusion on the implementation ---------------------------
    def oracle(self, ctx: Ctx, case):
        from abtem.core import config as C
        sc = case["script"]
        if case["target"] == "global":
            saved = copy.deepcopy(C.config)
            cfg = C.config
        else:
            cfg = copy.deepcopy(case["cfg"])
            if case.get("alias"):  # the same dict object reachable under two keys
                cfg[case["alias"][1]] = cfg.get(case["alias"][0])
            saved = None
        before = copy.deepcopy(cfg)
        r = Runner(cfg, use_global=case["target"] == "global")
        try:
            try:
                r.run(sc)
                out = "ok"
            except Exception as e:  # noqa
                out = "err:" + err_kind(e)
            after = copy.deepcopy(cfg)
            if r.init_dirty:
                ctx.violation("failed-set-leaves-earlier-assignments-applied", case,
                              {"what": "a `set(...)` whose constructor raised changed the configuration",
                               "before": r.init_dirty[0][0], "after": r.init_dirty[0][1]})
            elif r.ctx_dirty:
                which = r.ctx_dirty[0][0]
                ctx.violation({"with": "set-context-not-restored-at-its-own-exit", "reentered-inner": "reentered-set-context-not-restored",
                               "reentered-outer": "set-context-not-restored-at-its-own-exit"}[which], case,
                              {"which": which, "before": r.ctx_dirty[0][1], "after": r.ctx_dirty[0][2], "outcome": out})
            elif after != before or ordered(after) != ordered(before):
                how = "exception" if out != "ok" else "normal"
                ctx.violation(f"set-context-not-restored-{how}-exit", case,
                              {"outcome": out, "before": before, "after": after})
            elif out not in ("ok", "err:runtime_error", "err:type_error"):
                ctx.violation("set-context-exit-raises", case, {"outcome": out})
        finally:
            if saved is not None:
                C.config.clear()
                C.config.update(saved)
        return out

    def gen_conf_case(self, ctx: Ctx, i):
        rng = ctx.rng
        if i % 3 == 2:
            import abtem  # noqa  (initialises the global configuration)
            from abtem.core import config as C

            def gs(depth):
                r = rng.random()
                if depth <= 0 or r < 0.15:
                    return ["raise"] if rng.random() < 0.4 else ["snap"]
                if r < 0.4:
                    return ["seq", gs(depth - 1), gs(depth - 1)]
                if r < 0.5:
                    return ["try", gs(depth - 1)]
                assigns = {}
                for _ in range(rng.choice([1, 1, 2, 3])):
                    kw = rng.random() < 0.3
                    p = rng.choice(GLOBAL_PATHS)
                    assigns[(kw, p.replace(".", "__") if kw else p)] = gen_val(rng, 1)
                al = [[kw, k, v] for (kw, k), v in assigns.items() if not kw] + [[kw, k, v] for (kw, k), v in assigns.items() if kw]
                if rng.random() < 0.15:
                    return ["reenter", al, True, ["seq", ["snap"], gs(depth - 1)], gs(max(depth - 2, 0))]
                return ["with", al, True, ["seq", ["snap"], gs(depth - 1)]]
            return {"target": "global", "cfg": None, "script": gs(rng.randint(1, 4))}
        cfg = gen_cfg(rng)
        case = {"target": "scratch", "cfg": cfg, "script": gen_script(rng, cfg, rng.randint(1, 5), False)}
        dks = [k for k, v in cfg.items() if isinstance(v, dict)]
        if dks and rng.random() < 0.2:
            case["alias"] = [rng.choice(dks), "alias"]
        return case

    def conformance(self, ctx: Ctx):
        for i in range(ctx.n(600, 12000)):
            case = self.gen_conf_case(ctx, i)
            out = self.oracle(ctx, case)
            ctx.count(f"conf:{case['target']}:{out}")
            ctx.case(case, nontrivial=has_with(case["script"]))

    def replay(self, ctx: Ctx, case):
        self.oracle(ctx, case)


if __name__ == "__main__":
    sys.exit(run_property(C34()))
