"""C39 — beam tilt acts as a lateral shift per propagation distance.

correspondence: Float twins (Drive/C39.lean: generated tilt phase ramps of abtem/multislice.py and shift-kernel phase of
abtem/core/fft.py) vs. the real `_apply_tilt_to_fresnel_propagator_array`, `fft_shift_kernel` and
`FresnelPropagator._calculate_array` with tilts given as base tilt, TiltAxis pairs and AxisAlignedTiltAxis.

conformance (independent of the Lean model), all on the real code: tilted propagation == untilted propagation followed by
`fft_shift` by dz·tan(t)/sampling pixels (and in the other order); tilts per axis == 2-D pairs; a tilted plane wave keeps
its modulus through vacuum (FresnelPropagator and a full `multislice` through an empty potential).
"""
import sys

import numpy as np

from c04 import bf, fb, make_waves, parse_c, pick_pixels, precision
from c04 import gt, nan_selftest
from common import Ctx, LeanDriver, Property, run_property


def gen_case(ctx: Ctx):
    rng = ctx.rng
    gpts = [rng.randint(4, 20), rng.randint(4, 20)]
    sampling = [round(rng.uniform(0.04, 0.3), 4), round(rng.uniform(0.04, 0.3), 4)]
    if rng.random() < 0.3:
        sampling[1] = sampling[0]
    mag = rng.choice([1.0, 10.0, 60.0])
    t0 = round(rng.uniform(0.5, mag), 3)  # structured pairs: equal and opposite components (sum / difference zero)
    return dict(gpts=gpts, sampling=sampling, energy=float(rng.choice([60e3, 100e3, 200e3, 300e3])),
                dz=rng.choice([0.5, 2.0, 7.25, -3.0, round(rng.uniform(0.1, 30), 3)]),
                tilt=rng.choice([[round(rng.uniform(-mag, mag), 3), rng.choice([0.0, round(rng.uniform(-mag, mag), 3)])],
                                 [t0, -t0], [t0, t0]]),
                order=rng.choice([1, 1, 2]), wseed=rng.randint(0, 10 ** 6), precision=rng.choice(["float64", "float64", "float32"]),
                kind=rng.choice(["shift", "shift", "axes", "planewave", "multislice", "mixed", "mixed", "api", "api", "cache", "member", "member"]),
                lazy=rng.random() < 0.4,
                base=rng.choice([[0.0, 0.0], [round(rng.uniform(-mag, mag), 3), round(rng.uniform(-mag, mag), 3)],
                                 [round(rng.uniform(-mag, mag), 3), 0.0], [0.0, round(rng.uniform(-mag, mag), 3)], [t0, -t0], [-t0, t0]]),
                axes=[rng.choice(["pair", "x", "y", "plain"]) for _ in range(rng.randint(1, 2))],
                values=[[round(rng.uniform(-mag, mag), 3) for _ in range(4)] for _ in range(2)],
                api=rng.choice(["x-dist+y-fixed", "x-fixed+y-dist", "pairs", "both-dist"]), builder=rng.choice(["probe", "planewave"]))


def build_axes(case):
    """ensemble axes of a `mixed` case: list of (axis metadata, per-member tilt or None)"""
    from abtem.core.axes import AxisAlignedTiltAxis, OrdinalAxis, TiltAxis

    axes = []
    for kind, vals in zip(case["axes"], case["values"]):
        if kind == "pair":
            v = ((vals[0], vals[1]), (vals[2], vals[3]))
            axes.append((TiltAxis(values=v), [tuple(t) for t in v]))
        elif kind in ("x", "y"):
            v = (vals[0], vals[1])
            axes.append((AxisAlignedTiltAxis(values=v, direction=kind), [(t, 0.0) if kind == "x" else (0.0, t) for t in v]))
        else:
            axes.append((OrdinalAxis(values=(0, 1)), [None, None]))
    return axes


class C39(Property):
    id = "C39"
    props_file = "AbtemVerif/Props/C39.lean"
    drive_file = "AbtemVerif/Drive/C39.lean"
    trusted = [
        "FFT: fft2/ifft2 form an inverse pair (fields of `FourierPair`); for the plane-wave statement additionally that the "
        "spectrum of a constant sits at the zero-frequency pixel (proved for Mathlib's ZMod.dft: `zmodPair_hasDC`, and the 4-point DFT)",
        "IEEE rounding within tolerance",
        "hand composition of the generated phases (Lib/WaveOptics.lean `tiltFactor`/`propagator`, Model/Propagator.lean) mirroring "
        "_apply_tilt_to_fresnel_propagator_array / FresnelPropagator._calculate_array and `shiftKernel` mirroring fft_shift_kernel; "
        "tied by pixel-wise correspondence",
    ]
    assumptions = ["FFT (inverse pair)", "IEEE rounding within tolerance", "small-angle model of the code itself: the shift is dz·tan(t/1000)"]
    rule = ("random grids 4..20 px, samplings, energies, distances of both signs, tilts up to ±60 mrad (x only, both, equal, opposite), orders 1/2, "
            "float32/float64; kinds: shift, axes (per-axis vs pair), planewave, multislice through vacuum, mixed (base tilt + tilt axes), api (public builders, "
            "eager and lazy max_batch=1), cache (one propagator over a history), member (selection of ensemble members)")

    def correspondence(self, ctx: Ctx):
        from abtem.core.axes import AxisAlignedTiltAxis, TiltAxis
        from abtem.core.energy import energy2wavelength
        from abtem.core.fft import fft_shift_kernel
        from abtem.multislice import FresnelPropagator, _apply_tilt_to_fresnel_propagator_array

        rng = ctx.rng
        drv = LeanDriver(self.drive_file)
        lines, checks = [], []

        def add(name, case, reqs, impl, tol):
            checks.append((name, case, len(lines), len(reqs), impl, tol))
            lines.extend(reqs)

        for _ in range(ctx.n(14, 120)):
            case = gen_case(ctx)
            prec = case["precision"]
            dt = np.float64 if prec == "float64" else np.float32
            tol = 5e-9 if prec == "float64" else 2e-3
            gpts, sampling, dz, (tx, ty) = tuple(case["gpts"]), tuple(case["sampling"]), case["dz"], case["tilt"]
            pix = pick_pixels(ctx, gpts, 30)
            with precision(prec):
                kx = np.fft.fftfreq(gpts[0], sampling[0]).astype(dt).astype(np.float64)
                ky = np.fft.fftfreq(gpts[1], sampling[1]).astype(dt).astype(np.float64)
                ones = np.ones(gpts, dtype=np.complex128 if prec == "float64" else np.complex64)
                t = np.asarray(_apply_tilt_to_fresnel_propagator_array(ones, sampling, dz, (tx, ty)), dtype=np.complex128)
                add("_apply_tilt_to_fresnel_propagator_array", case,
                    [f"tilt {fb(kx[i])} {fb(ky[j])} {fb(tx)} {fb(ty)} {fb(dz)}" for i, j in pix], [t[i, j] for i, j in pix], tol)
                # fft_shift_kernel at the displacement dz tan(t) expressed in pixels
                pos = np.array([dz * np.tan(tx / 1e3) / sampling[0], dz * np.tan(ty / 1e3) / sampling[1]]).astype(dt)
                kern = np.asarray(fft_shift_kernel(pos[None], gpts), dtype=np.complex128)[0]
                ux = np.fft.fftfreq(gpts[0], 1.0).astype(dt).astype(np.float64)
                uy = np.fft.fftfreq(gpts[1], 1.0).astype(dt).astype(np.float64)
                add("fft_shift_kernel", case, [f"kernel {fb(ux[i])} {fb(uy[j])} {fb(pos[0])} {fb(pos[1])}" for i, j in pix],
                    [kern[i, j] for i, j in pix], tol)
                # propagator with the tilt split over an x axis and a y axis, and as one pair axis
                wl, ms = energy2wavelength(case["energy"]), max(sampling)
                cdt = np.complex128 if prec == "float64" else np.complex64
                w_axes = make_waves(np.zeros((1, 1) + gpts, dtype=cdt), case["energy"], sampling, (0.0, 0.0),
                                    [AxisAlignedTiltAxis(values=(tx,), direction="x"), AxisAlignedTiltAxis(values=(ty,), direction="y")])
                w_pair = make_waves(np.zeros((1,) + gpts, dtype=cdt), case["energy"], sampling, (0.0, 0.0), [TiltAxis(values=((tx, ty),))])
                pa = np.asarray(FresnelPropagator._calculate_array(w_axes, dz, order=case["order"]), dtype=np.complex128).reshape(gpts)
                pp = np.asarray(FresnelPropagator._calculate_array(w_pair, dz, order=case["order"]), dtype=np.complex128).reshape(gpts)
                base = f"propagator {case['order']} {{}} {{}} {fb(dz)} {fb(wl)} {fb(ms)} "
                add("FresnelPropagator._calculate_array (x axis + y axis)", case,
                    [base.format(fb(kx[i]), fb(ky[j])) + f"{fb(0.0)},{fb(ty)},{fb(tx)},{fb(0.0)}" for i, j in pix], [pa[i, j] for i, j in pix], tol * 3)
                add("FresnelPropagator._calculate_array (pair axis)", case,
                    [base.format(fb(kx[i]), fb(ky[j])) + f"{fb(tx)},{fb(ty)}" for i, j in pix], [pp[i, j] for i, j in pix], tol * 3)
            ctx.count(f"corr:{prec}:order{case['order']}:ty={'zero' if ty == 0 else 'set'}")
            ctx.case(case)
        # the way _calculate_array combines the scalar base tilt with tilt axes (and plain ensemble axes)
        for _ in range(ctx.n(14, 120)):
            case = gen_case(ctx)
            case["kind"] = "mixed"
            prec = case["precision"]
            dt = np.float64 if prec == "float64" else np.float32
            tol = 2e-8 if prec == "float64" else 6e-3
            gpts, sampling, dz = tuple(case["gpts"]), tuple(case["sampling"]), case["dz"]
            pix = pick_pixels(ctx, gpts, 12)
            with precision(prec):
                kx = np.fft.fftfreq(gpts[0], sampling[0]).astype(dt).astype(np.float64)
                ky = np.fft.fftfreq(gpts[1], sampling[1]).astype(dt).astype(np.float64)
                wl, ms = energy2wavelength(case["energy"]), max(sampling)
                axes = build_axes(case)
                shape = tuple(len(m) for _, m in axes)
                w = make_waves(np.zeros(shape + gpts, dtype=np.complex128 if prec == "float64" else np.complex64), case["energy"], sampling,
                               tuple(case["base"]), [a for a, _ in axes])
                arr = np.asarray(FresnelPropagator._calculate_array(w, dz, order=case["order"]), dtype=np.complex128)
                arr = np.broadcast_to(arr, shape + gpts)
                reqs, impl = [], []
                for idx in np.ndindex(*shape):
                    ax = ";".join("_" if m[k] is None else f"{fb(m[k][0])},{fb(m[k][1])}" for (_, m), k in zip(axes, idx)) or "~"
                    for i, j in pix:
                        reqs.append(f"calcarray {case['order']} {fb(kx[i])} {fb(ky[j])} {fb(dz)} {fb(wl)} {fb(ms)} "
                                    f"{fb(case['base'][0])} {fb(case['base'][1])} {ax}")
                        impl.append(arr[idx + (i, j)])
                add("FresnelPropagator._calculate_array (base tilt + ensemble axes)", case, reqs, impl, tol)
            ctx.count(f"corr-mixed:base={'zero' if case['base'] == [0.0, 0.0] else 'set'}:axes={'+'.join(case['axes'])}")
            ctx.case(case)
        for bad in ("tilt 1 2 3", "kernel x", "propagator 1 0 0 0 0 0 7", "calcarray 1 0 0 0 0 0 0 0 1,2,3", "q"):
            add("driver rejects malformed", dict(line=bad), [bad], ["bad-op"], 0)
        outs = drv.query(lines)
        for name, case, start, n, impl, tol in checks:
            model = [parse_c(o) for o in outs[start:start + n]]
            worst, ok = 0.0, True
            for m, v in zip(model, impl):
                if isinstance(m, str) or isinstance(v, str):
                    ok = ok and m == v
                else:
                    d = abs(complex(m) - complex(v)); worst = max(worst, d); ok = ok and d <= tol
            ctx.agree(name, case, {"worst_abs_diff": 0.0 if ok else worst}, {"worst_abs_diff": 0.0, **({} if ok else {"tol": tol})}, ok=ok)
        ctx.driver_lines += len(lines)

    # ------------------------------------------------------------------ conformance
    def oracle(self, ctx: Ctx, case):
        import abtem
        from abtem.core.axes import AxisAlignedTiltAxis, TiltAxis
        from abtem.core.fft import fft_shift
        from abtem.multislice import FresnelPropagator

        prec = case["precision"]
        tol = 1e-8 if prec == "float64" else 3e-3
        cdt = np.complex128 if prec == "float64" else np.complex64
        gpts, sampling, dz, (tx, ty), order = tuple(case["gpts"]), tuple(case["sampling"]), case["dz"], case["tilt"], case["order"]
        rng = np.random.default_rng(case["wseed"])
        with precision(prec):
            psi = (rng.normal(size=gpts) + 1j * rng.normal(size=gpts)).astype(cdt)
            shift_px = np.array([dz * np.tan(tx / 1e3) / sampling[0], dz * np.tan(ty / 1e3) / sampling[1]])

            def prop(arr, tilt, axes=None):
                w = make_waves(np.ascontiguousarray(np.array(arr, dtype=cdt)), case["energy"], sampling, tuple(tilt), axes)
                return np.asarray(FresnelPropagator().propagate(w, thickness=dz, in_place=False, order=order).array, dtype=np.complex128)

            def rel(a, b):
                return float(np.abs(a - b).max() / max(np.abs(b).max(), 1e-30))

            if case["kind"] == "shift":
                tilted = prop(psi, (tx, ty))
                plain = prop(psi, (0.0, 0.0))
                e1 = rel(tilted, np.asarray(fft_shift(plain.astype(cdt), shift_px), dtype=np.complex128))
                e2 = rel(tilted, prop(np.asarray(fft_shift(psi, shift_px)), (0.0, 0.0)))
                if gt(e1, tol):
                    ctx.violation("tilted-propagation-differs-from-propagate-then-shift", case, dict(rel_err=e1, shift_pixels=shift_px.tolist()))
                if gt(e2, tol):
                    ctx.violation("tilted-propagation-differs-from-shift-then-propagate", case, dict(rel_err=e2))
            elif case["kind"] == "axes":
                a = prop(psi[None, None], (0.0, 0.0), [AxisAlignedTiltAxis(values=(tx,), direction="x"), AxisAlignedTiltAxis(values=(ty,), direction="y")])
                b = prop(psi[None], (0.0, 0.0), [TiltAxis(values=((tx, ty),))])
                c = prop(psi, (tx, ty))
                e1, e2 = rel(a.reshape(gpts), c), rel(b.reshape(gpts), c)
                if gt(e1, tol):
                    ctx.violation("per-axis-tilt-axes-differ-from-base-tilt-pair", case, dict(rel_err=e1))
                if gt(e2, tol):
                    ctx.violation("pair-tilt-axis-differs-from-base-tilt-pair", case, dict(rel_err=e2))
            elif case["kind"] == "planewave":
                pw = abtem.PlaneWave(gpts=gpts, sampling=sampling, energy=case["energy"], tilt=(tx, ty)).build(lazy=False)
                out = np.asarray(FresnelPropagator().propagate(pw, thickness=dz, in_place=False, order=order).array)
                dev = float(np.abs(np.abs(out) - 1).max())
                if gt(dev, (1e-9 if prec == "float64" else 1e-4)):
                    ctx.violation("tilted-planewave-loses-unit-modulus-in-vacuum", case, dict(max_dev=dev))
            elif case["kind"] == "mixed":
                # pre-tilted waves (scalar base tilt) carrying tilt ensemble axes: every member must equal the untilted
                # propagation shifted by dz·(tan base + Σ tan member tilts)
                axes = build_axes(case)
                shape = tuple(len(m) for _, m in axes)
                out = prop(np.ascontiguousarray(np.broadcast_to(psi, shape + gpts)), tuple(case["base"]), [a for a, _ in axes])
                plain = prop(psi, (0.0, 0.0))
                worst, where = 0.0, None
                for idx in np.ndindex(*shape):
                    tans = np.array([np.tan(case["base"][0] / 1e3), np.tan(case["base"][1] / 1e3)])
                    for (_, m), k in zip(axes, idx):
                        if m[k] is not None:
                            tans += np.tan(np.array(m[k]) / 1e3)
                    exp = np.asarray(fft_shift(plain.astype(cdt), dz * tans / np.array(sampling)), dtype=np.complex128)
                    e = rel(out[idx], exp)
                    if gt(e, worst):
                        worst, where = e, list(idx)
                if gt(worst, tol * 3):
                    kinds = "+".join(sorted(set(case["axes"])))
                    ctx.violation(f"base-tilt-plus-tilt-axes-differs-from-total-shift:{'base-set' if case['base'] != [0.0, 0.0] else 'base-zero'}:{kinds}",
                                  case, dict(rel_err=worst, member=where))
            elif case["kind"] == "api":
                # tilts through the public builders: a distribution on one axis with a fixed value on the other, N x 2 pairs, or
                # distributions on both axes; every ensemble member must equal the scalar-tilt build propagated the same way
                from abtem.distributions import from_values

                v = case["values"]
                if case["api"] == "x-dist+y-fixed":
                    tilt, members = (from_values(v[0][:3]), v[1][0]), [((a, v[1][0]), (i,)) for i, a in enumerate(v[0][:3])]
                elif case["api"] == "x-fixed+y-dist":
                    tilt, members = (v[0][0], from_values(v[1][:2])), [((v[0][0], b), (i,)) for i, b in enumerate(v[1][:2])]
                elif case["api"] == "pairs":
                    pairs = np.array([[v[0][0], v[1][0]], [v[0][1], v[1][1]], [v[0][2], v[1][2]]])
                    tilt, members = pairs, [((float(p[0]), float(p[1])), (i,)) for i, p in enumerate(pairs)]
                else:
                    tilt = (from_values(v[0][:2]), from_values(v[1][:2]))
                    members = [((a, b), (i, j)) for i, a in enumerate(v[0][:2]) for j, b in enumerate(v[1][:2])]

                def build(t, lazy=False):
                    kw = dict(lazy=True, max_batch=1) if lazy else dict(lazy=False)
                    if case["builder"] == "probe":
                        w = abtem.Probe(semiangle_cutoff=25.0, gpts=gpts, sampling=sampling, energy=case["energy"], tilt=t).build(**kw)
                    else:
                        w = abtem.PlaneWave(gpts=gpts, sampling=sampling, energy=case["energy"], tilt=t).build(**kw)
                    return w

                def go(w):
                    if case["builder"] == "planewave":  # give the plane wave some structure so that a shift is visible
                        w = w.copy()
                        w._array = w.array * psi
                    out = FresnelPropagator().propagate(w, thickness=dz, in_place=False, order=order)
                    return np.asarray(out.compute().array if out.is_lazy else out.array, dtype=np.complex128)

                ens = go(build(tilt, lazy=case.get("lazy", False)))
                worst, where = 0.0, None
                for t, idx in members:
                    e = rel(ens[idx], go(build(t)))
                    if gt(e, worst):
                        worst, where = e, [list(t), list(idx)]
                if gt(worst, tol * 3):
                    ctx.violation(f"ensemble-tilt-member-differs-from-scalar-tilt:{case['api']}", case, dict(rel_err=worst, member=where))
            elif case["kind"] == "cache":
                # ONE FresnelPropagator instance over a history of tilts / ensemble-axis layouts / orders / distances: the cached
                # kernel must never be reused for other parameters (compare every call with a fresh instance)
                from abtem.core.axes import OrdinalAxis

                shared = FresnelPropagator()
                v = case["values"]
                pair = TiltAxis(values=((v[0][0], v[0][1]), (v[0][2], v[0][3])))
                xax = AxisAlignedTiltAxis(values=(v[1][0], v[1][1]), direction="x")
                plain = OrdinalAxis(values=(0, 1))
                hist = [((tx, ty), [], order, dz), ((ty, tx), [], order, dz), ((tx, ty), [plain, pair], order, dz), ((tx, ty), [pair, plain], order, dz),
                        ((tx, ty), [pair, plain], 3 - order, dz), ((0.0, 0.0), [xax, plain], 3 - order, dz), ((0.0, 0.0), [plain, xax], 3 - order, -dz),
                        (tuple(case["base"]), [plain, xax], 3 - order, -dz)]
                prev = None
                for tl, axes, o, dzz in hist:
                    shp = tuple(2 for _ in axes)
                    arr = np.ascontiguousarray(np.broadcast_to(psi, shp + gpts)).astype(cdt)
                    a = np.asarray(shared.propagate(make_waves(arr.copy(), case["energy"], sampling, tl, list(axes)), thickness=dzz, in_place=False, order=o).array)
                    b = np.asarray(FresnelPropagator().propagate(make_waves(arr.copy(), case["energy"], sampling, tl, list(axes)), thickness=dzz, in_place=False, order=o).array)
                    e = rel(a, b)
                    if gt(e, tol):
                        cur = (tl, tuple(type(x).__name__ for x in axes), o, dzz)
                        changed = "first" if prev is None else "+".join(n for n, x, y in zip(("base-tilt", "axes-layout", "order", "thickness"), prev, cur) if x != y)
                        ctx.violation(f"reused-propagator-differs-from-fresh-after-change-of:{changed}", case, dict(rel_err=e))
                    prev = (tl, tuple(type(x).__name__ for x in axes), o, dzz)
            elif case["kind"] == "member":
                # member selection of a tilted ensemble through the public API: `ens[i]` must report base tilt + member tilt and
                # propagate like a wave carrying exactly that tilt
                from abtem.tilt import BeamTilt, BeamTilt2D
                from abtem.distributions import from_values

                v = case["values"]
                base_w = abtem.Probe(semiangle_cutoff=25.0, gpts=gpts, sampling=sampling, energy=case["energy"], tilt=tuple(case["base"])).build(lazy=False)
                if case["api"] in ("pairs", "both-dist"):
                    members = [(v[0][0], v[1][0]), (v[0][1], v[1][1])]
                    ens = BeamTilt(np.array(members)).apply(base_w)
                    sel = [(i,) for i in range(2)]
                elif case["api"] == "x-dist+y-fixed":
                    members = [(v[0][0], 0.0), (v[0][1], 0.0)]
                    ens = BeamTilt2D(from_values([m[0] for m in members]), 0.0).apply(base_w)
                    sel = [(i,) for i in range(2)]
                else:
                    members = [(0.0, v[1][0]), (0.0, v[1][1])]
                    ens = BeamTilt2D(0.0, from_values([m[1] for m in members])).apply(base_w)
                    sel = [(i,) for i in range(2)]
                if case["lazy"]:
                    ens = ens.ensure_lazy()
                for idx, mt in zip(sel, members):
                    member = ens[idx[0]]
                    if not case["lazy"]:
                        # a selected member is a VIEW into the ensemble array; for complex64 and an odd pixel count it is only 8-byte
                        # aligned and CachedFFTWConvolution raises 'Invalid input alignment' (FFT-backend robustness, outside C39,
                        # noted in design/C39.md) — propagate an aligned copy
                        member = member.copy()
                    want = (case["base"][0] + mt[0], case["base"][1] + mt[1])
                    got = tuple(float(t) for t in member.base_tilt)
                    if gt(max(abs(got[0] - want[0]), abs(got[1] - want[1])), 1e-9):
                        ctx.violation(f"selected-ensemble-member-reports-wrong-base-tilt:{case['api']}", case, dict(got=list(got), expected=list(want)))
                    outm = np.asarray(FresnelPropagator().propagate(member.compute() if case["lazy"] else member, thickness=dz, in_place=False, order=order).array,
                                      dtype=np.complex128)
                    ref_w = abtem.Probe(semiangle_cutoff=25.0, gpts=gpts, sampling=sampling, energy=case["energy"], tilt=want).build(lazy=False)
                    ref = np.asarray(FresnelPropagator().propagate(ref_w, thickness=dz, in_place=False, order=order).array, dtype=np.complex128)
                    e = rel(outm, ref)
                    if gt(e, tol * 3):
                        ctx.violation(f"selected-ensemble-member-propagates-unlike-its-reported-tilt:{case['api']}", case, dict(rel_err=e, member=list(idx)))
            else:  # full multislice through an empty potential: tilted == untilted then shifted by total thickness
                from abtem.potentials.iam import PotentialArray

                nsl = 3
                pot = PotentialArray(np.zeros((nsl,) + gpts, dtype=np.float64 if prec == "float64" else np.float32),
                                     slice_thickness=abs(dz), sampling=sampling)
                from abtem.waves import Waves

                # band-limit the wave first so that the repeated antialias aperture acts identically on both routes
                w_t = Waves(psi.copy(), energy=case["energy"], sampling=sampling, metadata={"base_tilt_x": tx, "base_tilt_y": ty})
                w_0 = Waves(psi.copy(), energy=case["energy"], sampling=sampling)
                out_t = np.asarray(w_t.multislice(pot).compute().array, dtype=np.complex128)
                out_0 = np.asarray(w_0.multislice(pot).compute().array, dtype=np.complex128)
                tot = nsl * abs(dz)
                spx = np.array([tot * np.tan(tx / 1e3) / sampling[0], tot * np.tan(ty / 1e3) / sampling[1]])
                e = rel(out_t, np.asarray(fft_shift(out_0.astype(cdt), spx), dtype=np.complex128))
                if gt(e, tol * 3):
                    ctx.violation("tilted-multislice-through-vacuum-differs-from-shifted-untilted", case, dict(rel_err=e, shift_pixels=spx.tolist()))
        ctx.count(f"{case['kind']}:{prec}:order{order}" + (":lazy" if case.get("lazy") and case["kind"] in ("api", "member") else "") + (f":{case['api']}:{case['builder']}" if case["kind"] == "api" else ""))

    def conformance(self, ctx: Ctx):
        for _ in range(ctx.n(60, 800)):
            case = gen_case(ctx)
            self.oracle(ctx, case)
            ctx.case(case)
        self.selftest(ctx)

    def selftest(self, ctx: Ctx):
        import abtem.multislice as ms

        for kind in ("shift", "axes", "planewave", "multislice", "mixed", "api"):
            case = gen_case(ctx)
            case.update(kind=kind, precision="float64", tilt=[7.0, -3.0], base=[4.0, 2.0])
            nan_selftest(ctx, "tilt", [(ms, "_apply_tilt_to_fresnel_propagator_array", False)], [(kind, lambda c, case=case: self.oracle(c, case))])

    def replay(self, ctx: Ctx, case):
        self.oracle(ctx, case)


if __name__ == "__main__":
    sys.exit(run_property(C39()))
